"""C04 — freshness: only requests within 15 minutes of server time are accepted.

(a) MIRSE on `SigV4Authenticator::validate_signature` (prevalidate + provider + comparison) with the
    request instant symbolic over years 1-9999 (civil fields) and the server instant = request + delta,
    delta in [-1300 s, +1300 s] and both nanosecond parts symbolic: expired <=> t < now - 900 s,
    not-yet-current <=> t > now + 900 s at nanosecond resolution, both as SignatureDoesNotMatch with zero
    provider calls; otherwise the timestamp alone causes no rejection (provider consulted once).
(b) MIRSE on the whole pipeline (`sigv4_validate_request`) with concrete, really signed requests in
    several textual renderings of one instant and a symbolic server clock: pins the 15-minute constant,
    the argument plumbing and independence from the textual form.
(c) Kani K3 `k3_window_*`: the same two inequalities on the compiled chrono.
"""
import json
import random
import sys

import z3

from .common import *
from .pipeline import *
from mirse import engine
from mirse import model_chrono as C
from mirse import model_async as A
from . import kani_util

PROP = 'C04'

RENDERINGS = [
    ('20150830T123600Z', T0),
    ('2015-08-30T12:36:00Z', T0),
    ('20150830T133600+0100', T0),
    ('2015-08-30T07:06:00.000-05:30', T0),
    ('2015-08-31T02:36:00.999999999+14:00', T0),
    ('20150830T123600,5Z', T0),
    ('20150830T122600-0010', T0),                  # offsets whose hour field is 00: the sign must come from the sign character
    ('2015-08-30T12:59:00+00:23', T0),
    ('20150830T123600.9999999995Z', T0),           # more than nine fraction digits: truncated, never rounded (nor refused)
    ('2015-08-30T12:36:00.99999999999999Z', T0),
]
QUICK_RENDERINGS = (0, 1, 2, 3, 6, 7, 8)


def shapes(tier, seed):
    out = [('window', 'sym-date'), ('window', 'month-end'), ('window', 'year-end'), ('window', 'leap-day'),
           # requests outside the window against a key provider that is not ready (readiness error / pending first): the refusal
           # comes before the provider is looked at in any way
           ('window', 'stale-ready-err'), ('window', 'stale-ready-pending')]
    for i in (range(len(RENDERINGS)) if tier == 'thorough' else QUICK_RENDERINGS):
        out.append(('pipeline', i))
    return out


def mk_auth(cred, dt, sig):
    return Adt('SigV4Authenticator', None,
               [Array([Int('u8', 0xAB)] * 32), VecObj(list(cred), 'string'), none(), VecObj(list(sig), 'string'), dt],
               ['canonical_request_sha256', 'credential', 'session_token', 'signature', 'request_timestamp'])


def run_shape(prog, shape, tier, seed, res):
    kind = shape[0]

    def body(m, ctx):
        if kind == 'window':
            y, mo, d, h, mi, s = [ctx.fresh_bv(n, 32) for n in ('y', 'mo', 'd', 'h', 'mi', 's')]
            ctx.assume(z3.And(y >= 2, y <= 9998, C.valid_ymd(y, mo, d), z3.ULT(h, 24), z3.ULT(mi, 60), z3.ULT(s, 60)))
            if shape[1] == 'month-end':
                ctx.assume(z3.Or(d == C.days_in_month(y, mo), d == 1))
            elif shape[1] == 'year-end':
                ctx.assume(z3.Or(z3.And(mo == 12, d == 31), z3.And(mo == 1, d == 1)))
            elif shape[1] == 'leap-day':
                ctx.assume(z3.And(mo >= 2, mo <= 3, z3.Or(d >= 28, d == 1)))
            rn = ctx.fresh_bv('rn', 32)
            sn = ctx.fresh_bv('sn', 32)
            delta = ctx.fresh_bv('delta', 32)
            ctx.assume(z3.And(z3.ULT(rn, 1000000000), z3.ULT(sn, 1000000000), delta >= -1300, delta <= 1300))
            if shape[1].startswith('stale-'):
                ctx.assume(z3.Or(delta > 900, delta < -900))
            req_dt = C.from_civil(y, mo, d, h, mi, s, rn, 0)
            srv_civil = C.shift_civil((y, mo, d, h, mi, s), delta)
            srv_dt = C.DateTime(z3.simplify(req_dt.secs + z3.SignExt(32, delta)), sn, srv_civil, 0)
            cred = conc_bytes('AKID/') + date8(req_dt.civil) + conc_bytes('/r/s/aws4_request')
            sig = sym_bytes(ctx, 'sig', 64)
            key = sym_bytes(ctx, 'key', 32)
            prov = provider_ok(key)
            if shape[1] == 'stale-ready-err':
                prov = provider_ok(key, ready_err=BoxObj(Opaque('foreign_error', 'key store unavailable'), dyn='StringError'))
            elif shape[1] == 'stale-ready-pending':
                prov = provider_ok(key, ready_pending=2)
            auth = mk_auth(cred, req_dt, sig)
            fut = m.call('SigV4Authenticator::validate_signature',
                         [Ptr(Cell(auth), ()), str_ptr('r'), str_ptr('s'), srv_dt, C.TimeDelta(900), Ptr(Cell(prov), (), None, True)], None)
            r, polls = A.block_on(m, fut)
            return ('window', (y, mo, d, h, mi, s, rn, sn, delta), r, prov)
        text, t0 = RENDERINGS[shape[1]]
        delta = ctx.fresh_bv('delta', 32)
        sn = ctx.fresh_bv('sn', 32)
        ctx.assume(z3.And(delta >= -1300, delta <= 1300, z3.ULT(sn, 1000000000)))
        base = instant(t0)
        srv_dt = C.DateTime(z3.simplify(base.secs + z3.SignExt(32, delta)), sn, C.shift_civil(base.civil, delta), 0)
        hdrs = [('host', b'example.amazonaws.com'), ('x-amz-date', text.encode())]
        sig, _, _ = py_sign(AWS_SECRET, 'GET', b'/', b'', hdrs, ['host', 'x-amz-date'], b'', '20150830T123600Z' if 'T02' not in text else '20150830T123600Z',
                            '20150830/us-east-1/service/aws4_request')
        authz = 'AWS4-HMAC-SHA256 Credential=AKIDEXAMPLE/20150830/us-east-1/service/aws4_request, SignedHeaders=host;x-amz-date, Signature=' + sig
        rq = Req('GET', b'/', None, hdrs + [('authorization', authz.encode())], b'', 'unit')
        import hashlib, hmac as pyhmac

        def hh(k, msg):
            return pyhmac.new(k, msg, hashlib.sha256).digest()
        key = hh(hh(hh(hh(b'AWS4' + AWS_SECRET.encode(), b'20150830'), b'us-east-1'), b'service'), b'aws4_request')
        prov = provider_ok(conc_bytes(key))
        r, polls = run(m, rq, 'us-east-1', 'service', prov, srv_dt)
        return ('pipeline', (delta, sn, text), r, prov)

    def classify(r):
        """'ok' | 'expired' | 'future' | 'other:<kind>' from a Result<_, SignatureError>."""
        o = outcome(r)
        if o[0] == 'ok':
            return 'ok'
        if o[1] == 'SignatureDoesNotMatch':
            msgo = o[2].fields[0]
            if msgo.variant == 'Some':
                el = msgo.fields[0].elems
                if concrete_bytes(el[:17]) == b'Signature expired':
                    return 'expired'
                if concrete_bytes(el[:25]) == b'Signature not yet current':
                    return 'future'
        return 'other:' + str(o[1])

    def on_path(pr):
        ctx = pr.ctx
        res.obligations += 1
        if pr.kind == 'panic':
            res.findings.append(Finding('panic: %s' % pr.value.msg, {'shape': repr(shape)}, None, None, repr(shape)))
            return
        k, vars_, r, prov = pr.value
        cls = classify(r)
        res.witnesses.add(kind + ':' + cls.split(':')[0])
        if k == 'window':
            y, mo, d, h, mi, s, rn, sn, delta = vars_
            rnv, snv = rn, sn
            t0secs = None
        else:
            delta, sn, text = vars_
            # nanoseconds of the request instant in this rendering
            frac = 0
            if '.' in text or ',' in text:
                import re
                fr = re.search(r'[.,](\d+)', text).group(1)
                frac = int((fr + '0' * 9)[:9])
            rnv, snv = z3.BitVecVal(frac, 32), sn
        # server = request + delta  =>  expired <=> request < server - 900 <=> delta > 900 or (delta == 900 and rn < sn)
        expired = z3.Or(delta > 900, z3.And(delta == 900, z3.ULT(rnv, snv)))
        future = z3.Or(delta < -900, z3.And(delta == -900, z3.UGT(rnv, snv)))
        want = {'expired': expired, 'future': future}

        def fail(what, prop):
            sat, model = ctx.satisfiable(z3.Not(prop))
            if not sat:
                return
            if k == 'window':
                vals = [model.eval(v, model_completion=True).as_signed_long() for v in (y, mo, d, h, mi, s, rn, sn, delta)]
                inp = {'request': vals[:7], 'server_nanos': vals[7], 'delta': vals[8]}
            else:
                inp = {'rendering': text, 'delta': model.eval(delta, model_completion=True).as_signed_long(),
                       'server_nanos': model.eval(sn, model_completion=True).as_long()}
            if k == 'window' and shape[1].startswith('stale-'):
                inp['provider_script'] = {'ready_err': {'foreign': 'key store unavailable'}} if shape[1] == 'stale-ready-err' else {'ready_pending': 2}
            res.findings.append(Finding(what, inp, None, None, repr(shape)))
        ncalls = len(prov.calls)
        if cls in ('expired', 'future'):
            okv, _ = ctx.valid(want[cls])
            if not okv:
                fail('refused as %s although the instant is inside that bound' % cls, want[cls])
            if ncalls != 0 or prov.polls_ready != 0:
                fail('key provider consulted (%d calls) for a request outside the window' % ncalls, z3.BoolVal(False))
        else:
            inside = z3.Not(z3.Or(expired, future))
            okv, _ = ctx.valid(inside)
            if not okv:
                fail('request outside the +-15 min window not refused as expired / not yet current (outcome %s)' % cls, inside)
            if cls.startswith('other') and cls != 'other:SignatureDoesNotMatch':
                fail('timestamp inside the window but the request was refused with %s' % cls, z3.BoolVal(False))
            if k == 'pipeline' and cls != 'ok':
                fail('correctly signed request inside the window refused (%s)' % cls, z3.BoolVal(False))
            if ncalls != 1:
                fail('provider called %d times for an in-window request' % ncalls, z3.BoolVal(False))
        if len(res.samples) < 2:
            sat, model = ctx.satisfiable()
            res.samples.append({'shape': repr(shape), 'delta': model.eval(delta, model_completion=True).as_signed_long(), 'class': cls})

    engine.explore(prog, body, on_path, stats=res.stats)


# --------------------------------------------------------------------------- concrete side

def native_window(rp, req7, server_nanos, delta, text=None, provider_script=None):
    import datetime
    pscript = dict(provider_script or {})
    if text is not None:
        hdrs = [['host', b'example.amazonaws.com'.hex()], ['x-amz-date', text.encode().hex()]]
        sig, _, _ = py_sign(AWS_SECRET, 'GET', b'/', b'', [('host', b'example.amazonaws.com'), ('x-amz-date', text.encode())],
                            ['host', 'x-amz-date'], b'', '20150830T123600Z', '20150830/us-east-1/service/aws4_request')
        authz = 'AWS4-HMAC-SHA256 Credential=AKIDEXAMPLE/20150830/us-east-1/service/aws4_request, SignedHeaders=host;x-amz-date, Signature=' + sig
        r = native_validate(rp, {'method': 'GET', 'uri': '/', 'headers': hdrs + [['authorization', authz.encode().hex()]], 'body_hex': '',
                                 'body_kind': 'unit'}, 'us-east-1', 'service', T0 + delta, server_nanos=server_nanos)
        res = r.get('result', {})
        calls = len(r.get('provider', {}).get('calls', []))
    else:
        y, mo, d, h, mi, s, rn = req7
        secs = int((datetime.datetime(y, mo, d, h, mi, s) - datetime.datetime(1970, 1, 1)).total_seconds())
        r = rp.ask({'op': 'authenticator', 'canonical_request_sha256': 'ab' * 32,
                    'credential': 'AKID/%04d%02d%02d/r/s/aws4_request' % (y, mo, d), 'session_token': None, 'signature': '0' * 64,
                    'timestamp': {'secs': secs, 'nanos': rn}, 'call': 'validate_signature', 'region': 'r', 'service': 's',
                    'server_time': {'secs': secs + delta, 'nanos': server_nanos}, 'mismatch_secs': 900, 'mismatch_nanos': 0,
                    'provider': dict(pscript, result={'signing_key_hex': '00' * 32}), 'log_level': 'off'})
        res = r.get('result', {})
        # any look at the provider counts: calls and readiness polls
        calls = len(r.get('provider', {}).get('calls', [])) + (r.get('provider', {}).get('poll_ready_calls', 0) if pscript else 0)
    if 'ok' in res:
        return ('ok', calls)
    if 'err' in res:
        msg = res['err'].get('msg', '')
        if msg.startswith('Signature expired'):
            return ('expired', calls)
        if msg.startswith('Signature not yet current'):
            return ('future', calls)
        return ('other:' + res['err']['kind'], calls)
    return ('panic', json.dumps(res)[:200])


def ref_class(rn, sn, delta):
    if delta > 900 or (delta == 900 and rn < sn):
        return 'expired'
    if delta < -900 or (delta == -900 and rn > sn):
        return 'future'
    return 'inside'


def replay_finding(rp, f):
    inp = f.inp
    if 'request' in inp:
        nat = native_window(rp, inp['request'], inp['server_nanos'], inp['delta'], None, inp.get('provider_script'))
        ref = ref_class(inp['request'][6], inp['server_nanos'], inp['delta'])
    elif 'rendering' in inp:
        text = inp['rendering']
        import re
        fr = re.search(r'[.,](\d+)', text)
        rn = int((fr.group(1) + '0' * 9)[:9]) if fr else 0
        nat = native_window(rp, None, inp['server_nanos'], inp['delta'], text)
        ref = ref_class(rn, inp['server_nanos'], inp['delta'])
    else:
        return False, None
    natc = nat[0]
    if ref == 'inside':
        bad = natc in ('expired', 'future', 'panic') or nat[1] != 1 or ('rendering' in inp and natc != 'ok')
    else:
        bad = natc != ref or nat[1] != 0
    return bad, {'native': nat, 'reference': ref}


def conformance(prog, rp, seed, tier):
    """MIRSE (concrete) vs native on window decisions around both bounds."""
    rnd = random.Random(seed)
    cases = []
    for delta in (-901, -900, -899, 0, 899, 900, 901):
        for rn, sn in ((0, 0), (5, 4), (4, 5)):
            cases.append(([2015, 8, 30, 12, 36, 0, rn], sn, delta))
    cases.append(([2016, 2, 29, 23, 59, 59, 999999999], 0, 900))
    cases.append(([1999, 12, 31, 23, 50, 0, 0], 1, -900))
    for _ in range(10 if tier == 'quick' else 80):
        cases.append(([rnd.randint(2, 9998), rnd.randint(1, 12), rnd.randint(1, 28), rnd.randint(0, 23), rnd.randint(0, 59), rnd.randint(0, 59),
                       rnd.randint(0, 999999999)], rnd.randint(0, 999999999), rnd.choice([-1000, -900, 900, 1000, rnd.randint(-1300, 1300)])))
    mism = []
    for req7, sn, delta in cases:
        nat = native_window(rp, req7, sn, delta)
        out = []

        def body(m, ctx):
            y, mo, d, h, mi, s, rn = req7
            req_dt = C.from_civil(y, mo, d, h, mi, s, rn, 0)
            srv = C.DateTime(C.conc(req_dt.secs) + delta, sn, C.shift_civil(req_dt.civil, z3.BitVecVal(delta, 32)), 0)
            prov = provider_ok(conc_bytes(bytes(32)))
            auth = mk_auth(conc_bytes('AKID/%04d%02d%02d/r/s/aws4_request' % (y, mo, d)), req_dt, conc_bytes('0' * 64))
            fut = m.call('SigV4Authenticator::validate_signature',
                         [Ptr(Cell(auth), ()), str_ptr('r'), str_ptr('s'), srv, C.TimeDelta(900), Ptr(Cell(prov), (), None, True)], None)
            r, _ = A.block_on(m, fut)
            return r, prov
        engine.explore(prog, body, out.append)
        pr = out[0]
        if pr.kind == 'panic':
            mine = ('panic', pr.value.msg)
        else:
            r, prov = pr.value
            e = r.fields[0]
            if r.variant == 'Ok':
                mine = ('ok', len(prov.calls))
            else:
                msg = b''
                if e.variant == 'SignatureDoesNotMatch' and e.fields[0].variant == 'Some':
                    msg = bytes(x.v for x in e.fields[0].fields[0].elems)
                cls = 'expired' if msg.startswith(b'Signature expired') else 'future' if msg.startswith(b'Signature not yet current') else 'other:' + e.variant
                mine = (cls, len(prov.calls))
        if mine != nat:
            mism.append({'case': [req7, sn, delta], 'mirse': mine, 'native': nat})
    return len(cases), mism


def extra_checks(tier, seed, rp):
    data = kani_util.run_kani(['k3_window_ordinary', 'k3_window_yearend', 'k3_window_leapday', 'k3_window_y2100', 'k3_window_y2k',
                               'k3_window_epoch'], timeout=900)
    status, rows, failed, inconc = kani_util.summarize(data)
    lines = []
    if failed:
        status = 2   # a failing contract harness invalidates the chrono model: inconclusive, never a violation of the crate
        lines.append('INCONCLUSIVE property=C04 Kani chrono contract harness failed: %s' % json.dumps([n for n, _ in failed]))
    elif inconc:
        lines.append('INCONCLUSIVE property=C04 Kani: %s' % json.dumps([(n, h.get('verdict')) for n, h in inconc]))
    return {'status': status, 'lines': lines, 'kani': {'harnesses': rows, 'version': data.get('kani_version'), 'wall_s': data.get('wall_s')}}


def describe(f):
    return '%s -> %s' % (json.dumps(f.inp), json.dumps(f.detail, default=str)[:400])


def bounds(tier):
    return ('validate_signature: request instant = every civil date-time of years 2-9998 (also constrained to month ends, year ends, 28/29 Feb/1 Mar), '
            'server instant = request + delta with delta in [-1300 s, +1300 s], both nanosecond parts symbolic (0..999999999); pipeline: %d textual '
            'renderings (basic/extended, Z, +01:00, -05:30, +14:00, -00:10, +00:23, fractions) of one really signed request with the server clock symbolic in the same '
            'range; Kani K3: compiled chrono checked_add/sub_signed and ordering on six 200 000 s intervals' % (len(RENDERINGS) if tier == 'thorough' else len(QUICK_RENDERINGS)))


OUTSIDE = ('server clocks within 15 minutes of chrono\'s MIN/MAX (the code falls back to a zero-width window there); |delta| > 1300 s in the MIRSE part '
           '(monotone comparison, covered by Kani K3 within +-2000 s)')
NEED_WITNESSES = {'window:expired', 'window:future', 'window:other', 'pipeline:ok', 'pipeline:expired', 'pipeline:future'}
ASSUMPTIONS = ['chrono DateTime ordering and +-TimeDelta follow the (seconds, nanoseconds) lexicographic contract checked by Kani K3 on the compiled chrono',
               'civil fields of server time are derived from the request\'s by carry arithmetic (model self-check against Python datetime in C16\'s conformance run)']


def main(argv):
    return run_check(sys.modules[__name__], argv)


if __name__ == '__main__':
    sys.exit(main(sys.argv))
