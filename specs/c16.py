"""C16 — timestamps: ISO-8601 accepted, value exact, compact UTC in the string-to-sign.

Three cooperating solver queries:
 (1) z3 regular-expression theory on the pattern literal the crate compiles (re-read from the MIR):
     MUST_ACCEPT subset-of L(pattern), and L(pattern) restricted to Latin-1 subset-of STRUCTURE (unbounded length);
 (2) MIRSE on `parse_from_iso8601`'s MIR (regex model + chrono model) for every rendering shape with all
     digits symbolic, for single-byte mutations / additions of valid shapes and for arbitrary short strings:
     accept/reject and the denoted instant are compared with a reference parser expressed as one formula
     over all candidate shapes of the input's length;
 (3) MIRSE on `get_string_to_sign` and `prevalidate`: timestamp line and scope date are the compact UTC
     rendering of the instant (also for instants obtained by parsing a non-Z offset).
"""
import itertools
import json
import random
import re
import sys

import z3

from .common import *
from mirse import engine
from mirse import model_chrono as C
from mirse import model_regex as RX

PROP = 'C16'
PARSE = '<DateTime<FixedOffset> as ParseISO8601<DateTime<FixedOffset>>>::parse_from_iso8601'


# --------------------------------------------------------------------------- shape language

def layout(date_seps, time_seps, frac, zone):
    """Role string of a rendering: D digit, literal chars, F fraction separator, S sign.
    date_seps/time_seps: pair of booleans; frac: None | k (digits); zone: 'Z' | 'hhmm' | 'hh:mm'."""
    r = 'DDDD' + ('-' if date_seps[0] else '') + 'DD' + ('-' if date_seps[1] else '') + 'DD' + 'T'
    r += 'DD' + (':' if time_seps[0] else '') + 'DD' + (':' if time_seps[1] else '') + 'DD'
    if frac is not None:
        r += 'F' + 'D' * frac
    r += 'Z' if zone == 'Z' else ('SDDDD' if zone == 'hhmm' else 'SDD:DD')
    return r


def all_layouts(n):
    """Every rendering whose total length is n: [(roles, date_seps, time_seps, frac, zone)]."""
    out = []
    for ds in itertools.product((0, 1), repeat=2):
        for ts in itertools.product((0, 1), repeat=2):
            for zone in ('Z', 'hhmm', 'hh:mm'):
                base = len(layout(ds, ts, None, zone))
                if base == n:
                    out.append((layout(ds, ts, None, zone), ds, ts, None, zone))
                k = n - base - 1
                if k >= 1:
                    out.append((layout(ds, ts, k, zone), ds, ts, k, zone))
    return out


def role_ok(b, role):
    z = b.z()
    if role == 'D':
        return z3.And(z3.UGE(z, 0x30), z3.ULE(z, 0x39))
    if role == 'F':
        return z3.Or(z == 0x2E, z == 0x2C)
    if role == 'S':
        return z3.Or(z == 0x2B, z == 0x2D)
    return z == ord(role)


def num(bs):
    """Value of ASCII digit bytes as a 32-bit BV."""
    v = z3.BitVecVal(0, 32)
    for b in bs:
        v = v * 10 + z3.ZeroExt(24, b.z() - 0x30)
    return v


def fields_of(es, lay):
    roles, ds, ts, frac, zone = lay
    pos = [i for i, r in enumerate(roles) if r == 'D']
    dg = [es[i] for i in pos]
    y, mo, d = num(dg[0:4]), num(dg[4:6]), num(dg[6:8])
    h, mi, s = num(dg[8:10]), num(dg[10:12]), num(dg[12:14])
    k = frac or 0
    fd = dg[14:14 + k]
    fr9 = (fd + [Int('u8', 0x30)] * 9)[:9]
    nanos = num(fr9)
    if zone == 'Z':
        oh = om = z3.BitVecVal(0, 32)
        neg = z3.BoolVal(False)
    else:
        od = dg[14 + k:18 + k]
        oh, om = num(od[0:2]), num(od[2:4])
        sign = es[roles.index('S')]
        neg = sign.z() == 0x2D
    return dict(y=y, mo=mo, d=d, h=h, mi=mi, s=s, nanos=nanos, oh=oh, om=om, neg=neg)


_REF_CACHE = {}


def reference(es):
    key = tuple((e.v.get_id() if e.sym else e.v) for e in es)
    hit = _REF_CACHE.get(key)
    if hit is not None:
        return hit[1]
    r = _reference(es)
    if len(_REF_CACHE) > 64:
        _REF_CACHE.clear()
    _REF_CACHE[key] = (list(es), r)      # keep the terms alive so the ids stay valid
    return r


def _reference(es):
    """Reference parser as formulas over the bytes `es` (concrete length).  Returns
    (must_accept, may_accept, fields) where fields = dict of ITE-merged local civil fields, signed offset
    seconds, nanoseconds and `slt` (second < 60) of the unique layout the string matches."""
    n = len(es)
    must, may = [], []
    keys = ('y', 'mo', 'd', 'h', 'mi', 's', 'nanos', 'off')
    acc = {k: z3.BitVecVal(0, 32) for k in keys}
    slt = z3.BoolVal(True)
    for lay in all_layouts(n):
        roles, ds, ts, frac, zone = lay
        shape_ok = z3.And(*[role_ok(es[i], r) for i, r in enumerate(roles)])
        f = fields_of(es, lay)
        core = z3.And(z3.UGE(f['mo'], 1), z3.ULE(f['mo'], 12), z3.UGE(f['d'], 1), z3.ULE(f['d'], C.days_in_month(f['y'], f['mo'])),
                      z3.ULT(f['h'], 24), z3.ULT(f['mi'], 60), z3.ULT(f['om'], 60))
        pure = ds[0] == ds[1] and ts[0] == ts[1]
        may.append(z3.And(shape_ok, core, z3.ULE(f['s'], 60), z3.ULE(f['oh'], 23)))
        if pure:
            comma = es[roles.index('F')].z() == 0x2C if 'F' in roles else z3.BoolVal(False)
            must.append(z3.And(shape_ok, core, z3.ULT(f['s'], 60), z3.ULE(f['oh'], 14), z3.Not(comma)))
        off = f['oh'] * 3600 + f['om'] * 60
        f['off'] = z3.If(f['neg'], -off, off)
        for k in keys:
            acc[k] = z3.If(shape_ok, f[k], acc[k])
        slt = z3.If(shape_ok, z3.ULT(f['s'], 60), slt)
    acc['slt'] = slt
    return (z3.Or(*must) if must else z3.BoolVal(False), z3.Or(*may) if may else z3.BoolVal(False), acc)


# --------------------------------------------------------------------------- shapes

PURE = [((0, 0), (0, 0)), ((1, 1), (1, 1)), ((0, 0), (1, 1)), ((1, 1), (0, 0))]
MIXED = [((1, 0), (0, 0)), ((0, 1), (1, 1)), ((1, 1), (1, 0)), ((0, 0), (0, 1))]


def shapes(tier, seed):
    out = []
    q = tier == 'quick'
    fracs = [None, 1, 9, 10] if q else [None] + list(range(1, 13))
    forms = PURE + (MIXED[:2] if q else MIXED + [((1, 0), (1, 0)), ((0, 1), (0, 1))])
    for ds, ts in forms:
        for fr in fracs:
            for zone in ('Z', 'hhmm', 'hh:mm'):
                out.append(('digits', ds, ts, fr, zone))
    # long fractions (more digits than fit u32 / u64 / u128): only the first nine count, the instant is unchanged
    for fr in ((19, 20, 21, 40) if q else (13, 18, 19, 20, 21, 22, 38, 39, 40, 64)):
        out.append(('digits', (0, 0), (0, 0), fr, 'Z'))
        out.append(('digits', (1, 1), (1, 1), fr, 'hh:mm'))
    # single-position mutations / insertions / deletions on representative renderings
    repA = ((0, 0), (0, 0), None, 'Z')
    repB = ((1, 1), (1, 1), 2, 'hh:mm')
    reps = [repA, repB, ((0, 0), (0, 0), 1, 'hhmm')]
    if not q:
        reps += [((1, 1), (1, 1), None, 'Z'), ((1, 1), (0, 0), 3, 'hhmm')]
    for rep in reps:
        roles = layout(*rep)
        L = len(roles)
        if q and rep is not repA:
            # quick: every separator / sign / zone position and the first digit of every field
            sel = sorted({i for i, r in enumerate(roles) if r != 'D'} | {i for i, r in enumerate(roles) if r == 'D' and (i == 0 or roles[i - 1] != 'D')})
            if rep is not repB:
                sel = sel[::3]
        else:
            sel = list(range(L))
        for pos in sel:
            out.append(('mutate', rep, pos))
        for pos in (range(L + 1) if not q else (0, L)):
            out.append(('insert', rep, pos))
        for pos in (range(L) if not q else (0, L - 1)):
            out.append(('delete', rep, pos))
    # arbitrary short strings
    for n in range(0, 9 if q else 13):
        out.append(('any', n))
    # string-to-sign / scope date rendering
    out.append(('sts', 'civil'))
    out.append(('sts', 'parsed+'))
    out.append(('sts', 'parsed-'))
    # the crate's own glue between parser and authenticator (whole pipeline): timestamps with a fraction, near midnight, with an offset
    for variant in ('frac', 'midnight', 'offset', 'junk'):
        for carrier in ('header', 'query'):
            out.append(('pipeline', variant, carrier))
    return out


def digit(ctx, name):
    b = ctx.fresh_bv(name, 8)
    ctx.assume(z3.And(z3.UGE(b, 0x30), z3.ULE(b, 0x39)))
    return Int('u8', b)


def build_from_roles(ctx, roles, tag='t'):
    es = []
    for i, r in enumerate(roles):
        if r == 'D':
            es.append(digit(ctx, '%s%d' % (tag, i)))
        elif r == 'F':
            b = ctx.fresh_bv('%sf%d' % (tag, i), 8)
            ctx.assume(z3.Or(b == 0x2E, b == 0x2C))
            es.append(Int('u8', b))
        elif r == 'S':
            b = ctx.fresh_bv('%ss%d' % (tag, i), 8)
            ctx.assume(z3.Or(b == 0x2B, b == 0x2D))
            es.append(Int('u8', b))
        else:
            es.append(Int('u8', ord(r)))
    return es


def any_ascii(ctx, name):
    b = ctx.fresh_bv(name, 8)
    ctx.assume(z3.ULT(b, 0x80))
    return Int('u8', b)


def build_input(ctx, shape):
    k = shape[0]
    if k == 'digits':
        return build_from_roles(ctx, layout(*shape[1:]))
    if k in ('mutate', 'insert', 'delete'):
        roles = layout(*shape[1])
        es = build_from_roles(ctx, roles)
        pos = shape[2]
        if k == 'mutate':
            es[pos] = any_ascii(ctx, 'mut')
        elif k == 'insert':
            es.insert(pos, any_ascii(ctx, 'ins'))
        else:
            del es[pos]
        return es
    if k == 'any':
        return [any_ascii(ctx, 'a%d' % i) for i in range(shape[1])]
    raise ValueError(shape)


def hex_of(elems):
    from mirse.model_misc import hex_encode_elems
    return hex_encode_elems(elems)


def mk_authenticator(cred_elems, dt, sig=b'0' * 64):
    return Adt('SigV4Authenticator', None,
               [Array([Int('u8', 0xAB)] * 32), VecObj(list(cred_elems), 'string'), none(),
                VecObj(conc_bytes(sig), 'string'), dt],
               ['canonical_request_sha256', 'credential', 'session_token', 'signature', 'request_timestamp'])


def run_shape(prog, shape, tier, seed, res):
    kind = shape[0]

    def body(m, ctx):
        if kind == 'pipeline':
            from . import pipeline as P
            from mirse.model_hash import oracle_of
            variant, carrier = shape[1], shape[2]
            s1, s0 = digit(ctx, 'ps1'), digit(ctx, 'ps0')
            ctx.assume(z3.ULE(s1.v, 0x35))
            nfr = 3
            fr = [digit(ctx, 'pf%d' % i) for i in range(nfr)]
            if variant == 'frac':
                text = conc_bytes('20150830T1235') + [s1, s0] + conc_bytes('.') + fr + conc_bytes('Z')
                utc = (2015, 8, 30, 12, 35)
                server = P.instant(P.T0)
            elif variant == 'junk':
                # a complete well-formed timestamp followed by one or two further visible bytes (comma included): never a timestamp
                j0 = ctx.fresh_bv('pj0', 8)
                j1 = ctx.fresh_bv('pj1', 8)
                ctx.assume(z3.And(z3.UGT(j0, 0x20), z3.ULT(j0, 0x7F), z3.UGE(j1, 0x20), z3.ULT(j1, 0x7F)))
                text = conc_bytes('20150830T1235') + [s1, s0] + conc_bytes('Z') + [Int('u8', j0), Int('u8', j1)]
                utc = (2015, 8, 30, 12, 35)
                server = P.instant(P.T0)
            elif variant == 'midnight':
                text = conc_bytes('20150830T2359') + [s1, s0] + conc_bytes('.') + fr + conc_bytes('Z')
                utc = (2015, 8, 30, 23, 59)
                server = P.instant(P.T0 + (23 * 3600 + 59 * 60 + 30) - (12 * 3600 + 36 * 60))
            else:
                text = conc_bytes('2015-08-31T01:29:') + [s1, s0] + conc_bytes(',') + fr + conc_bytes('+01:30')
                utc = (2015, 8, 30, 23, 59)
                server = P.instant(P.T0 + (23 * 3600 + 59 * 60 + 30) - (12 * 3600 + 36 * 60))
            scope = '20150830/us-east-1/service/aws4_request'
            key = sym_bytes(ctx, 'key', 32)
            prov = P.provider_ok(key)
            if carrier == 'header':
                authz = conc_bytes('AWS4-HMAC-SHA256 Credential=AKID/' + scope + ', SignedHeaders=host;x-amz-date, Signature=' + '0' * 64)
                rq = P.Req('GET', b'/', None, [('host', conc_bytes('h')), ('x-amz-date', text), ('authorization', authz)])
            else:
                from . import refmodel as R
                q = conc_bytes('X-Amz-Algorithm=AWS4-HMAC-SHA256&X-Amz-Credential=AKID%2F' + scope.replace('/', '%2F') + '&X-Amz-Date=') + \
                    R.pct_encode(ctx, text) + conc_bytes('&X-Amz-SignedHeaders=host&X-Amz-Signature=' + '0' * 64)
                rq = P.Req('GET', b'/', q, [('host', conc_bytes('h'))])
            before = len(oracle_of(m).calls)
            r, _ = P.run(m, rq, 'us-east-1', 'service', prov, server)
            calls = oracle_of(m).calls[before:]
            # the instant the authenticator carries (public accessor request_timestamp()): through the crate's own glue
            rb = rq.build()
            crr = m.call('CanonicalRequest::from_request_parts', [rb.parts, rb.body, P.options()], None)
            au_dt = None
            if crr.variant == 'Ok':
                ar = m.call('CanonicalRequest::get_authenticator', [Ptr(Cell(crr.fields[0].fields[0]), ()), Ptr(Cell(P.requirements('none')), ())], None)
                if ar.variant == 'Ok':
                    au_dt = ar.fields[0].fields[4]
            return ('pipeline', text, utc, (s1, s0), scope, P.outcome(r), calls, prov, au_dt, fr)
        if kind == 'sts':
            if shape[1] == 'civil':
                y, mo, d, h, mi, s = [ctx.fresh_bv(n, 32) for n in ('y', 'mo', 'd', 'h', 'mi', 's')]
                ctx.assume(z3.And(y >= 1, y <= 9999, C.valid_ymd(y, mo, d), z3.ULT(h, 24), z3.ULT(mi, 60), z3.ULT(s, 60)))
                dt = C.from_civil(y, mo, d, h, mi, s, ctx.fresh_bv('ns', 32), 0)
                ctx.assume(z3.ULT(dt.nanos, 1000000000))
                text = None
                civ = (y, mo, d, h, mi, s)
            else:
                roles = layout((1, 1), (1, 1), None, 'hh:mm')
                text = build_from_roles(ctx, roles)
                sign = text[roles.index('S')]
                ctx.assume(sign.v == (0x2B if shape[1] == 'parsed+' else 0x2D))
                # keep the UTC year within 0001..9998 so that %Y has four digits
                ctx.assume(z3.And(z3.Or(text[0].v != 0x30, text[1].v != 0x30, text[2].v != 0x30, z3.UGE(text[3].v, 0x32)),
                                  z3.Or(text[0].v != 0x39, text[1].v != 0x39, text[2].v != 0x39, z3.ULE(text[3].v, 0x37))))
                r = m.call(PARSE, [mk_str(text)], None)
                if r.variant != 'Ok':
                    return ('sts-rejected',)
                dt = m.call('with_timezone', [Ptr(Cell(r.fields[0]), ()), None], None)
                civ = None
            date8 = [digit(ctx, 'cd%d' % i) for i in range(8)]
            cred = conc_bytes('AKID/') + date8 + conc_bytes('/r/s/aws4_request')
            auth = mk_authenticator(cred, dt)
            ap = Ptr(Cell(auth), ())
            sts = m.call('SigV4Authenticator::get_string_to_sign', [ap], None)
            pv = m.call('SigV4Authenticator::prevalidate', [ap, mk_str(conc_bytes('r')), mk_str(conc_bytes('s')), dt,
                                                            C.TimeDelta(900)], None)
            return ('sts', text, dt, date8, sts.elems, pv, civ)
        es = build_input(ctx, shape)
        r = m.call(PARSE, [mk_str(es)], None)
        return ('parse', es, r)

    def fail(ctx, what, es, prop):
        neg = z3.Not(prop) if not isinstance(prop, bool) else z3.BoolVal(not prop)
        sat, model = ctx.satisfiable(neg)
        if sat:
            inp = {'text': model_bytes(model, es).decode('latin-1')}
            if kind == 'pipeline':
                inp['pipeline'] = [shape[1], shape[2]]
            if kind == 'sts' and getattr(ctx, 'x_sts', None) is not None:
                dt_, date8_ = ctx.x_sts
                inp['sts_secs'] = model.eval(dt_.secs, model_completion=True).as_signed_long()
                inp['cred_date'] = model_bytes(model, date8_).decode('latin-1')
            res.findings.append(Finding(what, inp, None, None, repr(shape)))

    def on_path(pr):
        ctx = pr.ctx
        res.obligations += 1
        if pr.kind == 'panic':
            sat, model = ctx.satisfiable()
            res.findings.append(Finding('panic: %s' % pr.value.msg, {'shape': repr(shape)}, None, None, repr(shape)))
            return
        v = pr.value
        if v[0] == 'pipeline':
            from . import pipeline as P
            _, text, utc, (s1, s0), scope, o, calls, prov, au_dt, fr = v
            if shape[1] == 'junk':
                hm = [c for c in calls if c.kind == 'hmac']
                res.witnesses.add('pipeline-junk')
                if o[0] == 'ok' or o[1] != 'IncompleteSignature' or hm or prov.calls or au_dt is not None:
                    fail(ctx, 'a timestamp followed by extra characters was not refused with the ISO-8601 format error (outcome %s, %d HMAC evaluations, %d provider calls) (pipeline)'
                         % (o[0] if o[0] == 'ok' else o[1], len(hm), len(prov.calls)), text, False)
                return
            res.witnesses.add('pipeline-sts')
            if au_dt is None:
                fail(ctx, 'no authenticator for a well-formed timestamp (pipeline)', text, False)
                return
            import datetime as _dtm
            base = int(_dtm.datetime(utc[0], utc[1], utc[2], utc[3], utc[4], tzinfo=_dtm.timezone.utc).timestamp())
            secs_ref = z3.BitVecVal(base, 64) + z3.ZeroExt(56, (s1.z() - 0x30) * 10 + (s0.z() - 0x30))
            nanos_ref = z3.BitVecVal(0, 32)
            for i, e in enumerate(fr):
                nanos_ref = nanos_ref + z3.ZeroExt(24, e.z() - 0x30) * (10 ** (8 - i))
            exact = z3.And(au_dt.secs == secs_ref, au_dt.nanos == nanos_ref)
            if not ctx.valid(exact)[0]:
                fail(ctx, 'request_timestamp() of the authenticator is not the instant the text denotes (seconds and nanoseconds) (pipeline)', text, exact)
            hm = [c for c in calls if c.kind == 'hmac']
            sh = [c for c in calls if c.kind == 'sha256']
            if (o[0] != 'ok' and o[1] != 'SignatureDoesNotMatch') or len(hm) != 1 or len(prov.calls) != 1 or len(sh) < 2:
                fail(ctx, 'a well-formed timestamp inside the window whose scope date is its UTC date did not reach the signature comparison '
                          '(outcome %s, %d HMAC evaluations, %d provider calls)' % (o[0] if o[0] == 'ok' else o[1], len(hm), len(prov.calls)), text, False)
                return
            y, mo, d, h, mi = utc
            ts = conc_bytes('%04d%02d%02dT%02d%02d' % (y, mo, d, h, mi)) + [s1, s0] + conc_bytes('Z')
            want = conc_bytes('AWS4-HMAC-SHA256\n') + ts + conc_bytes('\n' + scope + '\n') + hex_of(sh[-1].out)
            if len(hm[0].msg) != len(want):
                fail(ctx, 'string-to-sign has the wrong length (pipeline)', text, False)
                return
            prop = zb(bytes_eq(hm[0].msg, want))
            if not ctx.valid(prop)[0]:
                fail(ctx, 'timestamp line of the string-to-sign is not the compact UTC rendering of the instant (seconds truncated) (pipeline)', text, prop)
            rec = P.request_record(None, prov.calls[0])
            dtp = rec['request_date']
            same = z3.And(dtp.y == y, dtp.mo == mo, dtp.d == d)
            if not ctx.valid(same)[0]:
                fail(ctx, 'key provider asked for another date than the UTC date of the request timestamp (pipeline)', text, same)
            return
        if v[0] == 'sts-rejected':
            res.witnesses.add('sts-rejected')
            return
        if v[0] == 'sts':
            _, text, dt, date8, sts, pv, civ = v
            ctx.x_sts = (dt, date8)
            res.witnesses.add('sts')
            if text is None:
                y, mo, d, h, mi, s = civ
            else:
                _must, _may, rf = reference(text)
                y, mo, d, h, mi, s = C.shift_civil((rf['y'], rf['mo'], rf['d'], rf['h'], rf['mi'], rf['s']), -rf['off'])
            dec = C.digits
            ts = dec(y, 4) + dec(mo, 2) + dec(d, 2) + conc_bytes('T') + dec(h, 2) + dec(mi, 2) + dec(s, 2) + conc_bytes('Z')
            want = conc_bytes('AWS4-HMAC-SHA256\n') + ts + conc_bytes('\n') + date8 + conc_bytes('/r/s/aws4_request\n' + 'ab' * 32)
            es = text or date8
            if len(sts) != len(want):
                fail(ctx, 'string-to-sign has the wrong length', es, False)
                return
            prop = zb(bytes_eq(sts, want))
            okv, _ = ctx.valid(prop)
            if not okv:
                fail(ctx, 'timestamp line of the string-to-sign is not the compact UTC rendering of the instant', es, prop)
            # scope date: accepted iff the credential date is YYYYMMDD of the UTC instant
            same = zb(bytes_eq(date8, dec(y, 4) + dec(mo, 2) + dec(d, 2)))
            if pv.variant == 'Ok':
                res.witnesses.add('scope-date-ok')
                okv, _ = ctx.valid(same)
                if not okv:
                    fail(ctx, 'prevalidate accepts a credential date that is not the UTC date of the request', es, same)
            else:
                res.witnesses.add('scope-date-mismatch')
                okv, _ = ctx.valid(z3.Not(same))
                if not okv:
                    fail(ctx, 'prevalidate refuses the correct UTC credential date (%s)' % pv.fields[0].variant, es, z3.Not(same))
            return
        _, es, r = v
        must, may, rf = reference(es)
        if len(res.samples) < 1 and kind == 'digits':
            sat, model = ctx.satisfiable()
            res.samples.append({'text': model_bytes(model, es).decode('latin-1'), 'outcome': r.variant})
        if r.variant == 'Ok':
            res.witnesses.add('accept')
            dt = r.fields[0]
            okv, _ = ctx.valid(may)
            if not okv:
                fail(ctx, 'accepted a string the reference rejects (out-of-range field, missing zone or extra characters)', es, may)
                return
            if dt.local is None:
                fail(ctx, 'accepted value was not built from civil fields (model cannot relate it)', es, False)
                return
            ly, lmo, ld, lh, lmi, ls = dt.local
            prop = z3.Implies(rf['slt'], z3.And(ly == rf['y'], lmo == rf['mo'], ld == rf['d'], lh == rf['h'], lmi == rf['mi'],
                                                ls == rf['s'], dt.offset == rf['off'], dt.nanos == rf['nanos']))
            okv, _ = ctx.valid(prop)
            if not okv:
                fail(ctx, 'accepted timestamp denotes a different instant than the reference parser assigns '
                          '(civil fields / offset / nanoseconds handed to chrono differ)', es, prop)
        else:
            res.witnesses.add('reject')
            okv, _ = ctx.valid(z3.Not(must))
            if not okv:
                fail(ctx, 'rejected a well-formed ISO-8601 timestamp', es, z3.Not(must))

    engine.explore(prog, body, on_path, stats=res.stats)


# --------------------------------------------------------------------------- regex theory (unbounded length)

def regex_theory(prog):
    """Queries on the pattern the crate compiles, re-extracted by executing the lazy-static initialiser."""
    from mirse.interp import Ctx
    m = engine.new_machine(prog)
    m.ctx = Ctx()
    rx = m.load(m.call('<ISO_8601_REGEX as Deref>::deref', [Ptr(Cell(Adt('ISO_8601_REGEX', None, [])), ())], None))
    bol, eol = RX.anchored(rx.ast)
    L = RX.to_z3re(rx.ast)
    S = z3.StringSort()

    def rng(a, b):
        return z3.Range(z3.StringVal(a), z3.StringVal(b))

    def lit(s):
        return z3.Re(z3.StringVal(s))

    def cat(*xs):
        return z3.Concat(*xs)
    D = rng('0', '9')
    opt = z3.Option
    month = z3.Union(cat(lit('0'), rng('1', '9')), cat(lit('1'), rng('0', '2')))
    day = z3.Union(cat(lit('0'), rng('1', '9')), cat(rng('1', '2'), D), cat(lit('3'), rng('0', '1')))
    hour = z3.Union(cat(rng('0', '1'), D), cat(lit('2'), rng('0', '3')))
    mmss = cat(rng('0', '5'), D)
    year = z3.Loop(D, 4, 4)
    date = z3.Union(cat(year, lit('-'), month, lit('-'), day), cat(year, month, day))
    time = z3.Union(cat(hour, lit(':'), mmss, lit(':'), mmss), cat(hour, mmss, mmss))
    frac = opt(cat(lit('.'), z3.Plus(D)))
    ohour = z3.Union(cat(lit('0'), D), cat(lit('1'), rng('0', '4')))
    zone = z3.Union(lit('Z'), cat(z3.Union(lit('+'), lit('-')), ohour, opt(lit(':')), mmss))
    MUST = cat(date, lit('T'), time, frac, zone)
    dd = z3.Loop(D, 2, 2)
    STRUCT = cat(year, opt(lit('-')), dd, opt(lit('-')), dd, lit('T'), dd, opt(lit(':')), dd, opt(lit(':')), dd,
                 opt(cat(z3.Union(lit('.'), lit(',')), z3.Plus(D))),
                 z3.Union(lit('Z'), cat(z3.Union(lit('+'), lit('-')), dd, opt(lit(':')), dd)))
    latin1 = z3.Star(z3.Range(z3.StringVal(chr(0)), z3.StringVal(chr(0xFF))))
    s = z3.String('s')
    results = []
    import time as _t

    def query(name, *cs):
        t = _t.time()
        sol = z3.Solver()
        sol.set('timeout', 120000)
        sol.add(*cs)
        r = sol.check()
        wit = None
        if r == z3.sat:
            wit = sol.model()[s].as_string()
        results.append({'query': name, 'result': str(r), 'witness': wit, 'solver_s': round(_t.time() - t, 3)})
        return r
    if not (bol and eol):
        results.append({'query': 'pattern anchored at both ends', 'result': 'sat', 'witness': 'pattern lacks ^ or $', 'solver_s': 0})
    else:
        results.append({'query': 'pattern anchored at both ends', 'result': 'unsat', 'witness': None, 'solver_s': 0})
    query('MUST_ACCEPT subset-of L(pattern)', z3.InRe(s, MUST), z3.Not(z3.InRe(s, L)))
    query('L(pattern) restricted to Latin-1 subset-of STRUCTURE', z3.InRe(s, L), z3.InRe(s, latin1), z3.Not(z3.InRe(s, STRUCT)))
    # what an (unanchored) search with this pattern accepts, anchors and flags taken into account: nothing outside STRUCTURE
    try:
        ACC = RX.accepted_language(rx.ast)
        query('strings accepted by a search with the pattern (anchors / multi-line flag included), Latin-1, subset-of STRUCTURE',
              z3.InRe(s, ACC), z3.InRe(s, latin1), z3.Not(z3.InRe(s, STRUCT)))
    except Unsupported as e:
        results.append({'query': 'accepted language', 'result': 'unknown: %s' % e, 'witness': None, 'solver_s': 0})
    return rx.pattern, results


# --------------------------------------------------------------------------- concrete side

import datetime


def py_reference(text):
    """Plain-Python reference parser used for native replay: ('ok', secs, nanos) | ('err',) | ('dontcare', ...)."""
    m = re.fullmatch(r'(\d{4})(-?)(\d\d)(-?)(\d\d)T(\d\d)(:?)(\d\d)(:?)(\d\d)(?:([.,])(\d+))?(Z|([+-])(\d\d)(:?)(\d\d))', text, re.ASCII)
    if not m:
        return ('err',)
    y, s1, mo, s2, d, h, s3, mi, s4, s, fsep, fr, z, sg, oh, s5, om = m.groups()
    y, mo, d, h, mi, s = map(int, (y, mo, d, h, mi, s))
    oh, om = (int(oh), int(om)) if z != 'Z' else (0, 0)
    try:
        if y == 0:
            base = datetime.date(4, mo, d)      # year 0 is a leap year like year 4 (python has no year 0)
            days = (base - datetime.date(4, 1, 1)).days - 366 + (datetime.date(1, 1, 1) - datetime.date(1970, 1, 1)).days
        else:
            days = (datetime.date(y, mo, d) - datetime.date(1970, 1, 1)).days
    except ValueError:
        return ('err',)
    if h > 23 or mi > 59 or s > 60 or om > 59 or oh > 23:
        return ('err',)
    pure = (s1 == s2) and (s3 == s4)
    if s == 60:
        return ('dontcare-leap',)
    off = (oh * 3600 + om * 60) * (-1 if sg == '-' else 1)
    secs = days * 86400 + h * 3600 + mi * 60 + s - off
    nanos = int(((fr or '') + '0' * 9)[:9])
    if not pure or oh > 14 or fsep == ',':
        return ('dontcare', secs, nanos)
    return ('ok', secs, nanos)


def native_parse(rp, text):
    r = rp.ask({'op': 'parse_iso', 's': text})
    if 'ok' in r:
        return ('ok', r['ok']['secs'], r['ok']['nanos'])
    if 'err' in r:
        return ('err',)
    return ('panic', r.get('panic')) if 'panic' in r else ('bad', str(r))


def mirse_parse(prog, text):
    out = []

    def body(m, ctx):
        return m.call(PARSE, [mk_str(conc_bytes(text))], None)
    engine.explore(prog, body, out.append)
    pr = out[0]
    if pr.kind == 'panic':
        return ('panic', pr.value.msg)
    r = pr.value
    if r.variant == 'Ok':
        dt = r.fields[0]
        return ('ok', C.conc(dt.secs), C.conc(dt.nanos))
    return ('err',)


def conformance(prog, rp, seed, tier):
    src = open(REPO + '/src/chronoutil.rs').read()
    cases = re.findall(r'parse_from_iso8601\("([^"\\]*)"\)', src)
    cases += ['20150830T123600Z', '2015-08-30T12:36:00.5+01:00', '2015-02-30T00:00:00Z', '0000-01-01T00:00:00+19:59',
              '9999-12-31T23:59:59.999999999999-1959', '2016-02-29T23:59:60Z', '2015-08-30T12:36:00,25Z', '2015-0830T1236:00Z',
              '2015-08-30T24:00:00Z', '2015-13-01T00:00:00Z', '2015-08-30T12:36:00', ' 20150830T123600Z', '20150830T123600Z ']
    rnd = random.Random(seed)
    for _ in range(80 if tier == 'quick' else 600):
        ds = rnd.choice(PURE + MIXED)
        roles = layout(ds[0], ds[1], rnd.choice([None, 1, 3, 9, 11]), rnd.choice(['Z', 'hhmm', 'hh:mm']))
        t = ''
        for r in roles:
            t += rnd.choice('0123456789') if r == 'D' else rnd.choice('.,') if r == 'F' else rnd.choice('+-') if r == 'S' else r
        if rnd.random() < 0.6:
            # make most fields plausible
            t = re.sub(r'^(\d{4}-?)\d\d(-?)\d\d', lambda mm: '%s%02d%s%02d' % (mm.group(1), rnd.randint(1, 12), mm.group(2), rnd.randint(1, 28)), t)
            t = re.sub(r'T\d\d(:?)\d\d(:?)\d\d', lambda mm: 'T%02d%s%02d%s%02d' % (rnd.randint(0, 23), mm.group(1), rnd.randint(0, 59), mm.group(2), rnd.randint(0, 59)), t)
        cases.append(t)
    mism = []
    # self-check of the chrono model's calendar arithmetic against Python's datetime (concrete, seeded)
    for _ in range(300 if tier == 'quick' else 5000):
        y, mo = rnd.randint(1, 9998), rnd.randint(1, 12)
        dim = (datetime.date(y + (mo == 12), mo % 12 + 1, 1) - datetime.timedelta(days=1)).day
        d = rnd.choice([1, dim, rnd.randint(1, dim)])
        sod = rnd.choice([0, 86399, rnd.randint(0, 86399)])
        delta = rnd.choice([-86399, 86399, -900, 900, rnd.randint(-86399, 86399)])
        base = datetime.datetime(y, mo, d, sod // 3600, sod % 3600 // 60, sod % 60)
        try:
            want = base + datetime.timedelta(seconds=delta)
        except OverflowError:
            continue
        got = [C.conc(x) for x in C.shift_civil(tuple(z3.BitVecVal(v, 32) for v in (y, mo, d, sod // 3600, sod % 3600 // 60, sod % 60)),
                                                z3.BitVecVal(delta, 32))]
        days = C.conc(C.days_from_civil(z3.BitVecVal(y, 32) + 0, z3.BitVecVal(mo, 32), z3.BitVecVal(d, 32)))
        if got != [want.year, want.month, want.day, want.hour, want.minute, want.second] or \
                days != (datetime.date(y, mo, d) - datetime.date(1970, 1, 1)).days:
            mism.append({'chrono_model_selfcheck': [y, mo, d, sod, delta], 'got': got, 'days': days})
    for t in cases:
        a = mirse_parse(prog, t)
        b = native_parse(rp, t)
        if a != b:
            mism.append({'text': t, 'mirse': a, 'native': b})
    return len(cases), mism


def replay_finding(rp, f):
    if 'text' not in f.inp:
        return False, None
    t = f.inp['text']
    if f.inp.get('pipeline'):
        # whole pipeline natively: the string-to-sign the crate builds for this request (authenticator op of `canonical`)
        variant, carrier = f.inp['pipeline']
        scope = '20150830/us-east-1/service/aws4_request'
        if carrier == 'header':
            authz = 'AWS4-HMAC-SHA256 Credential=AKID/' + scope + ', SignedHeaders=host;x-amz-date, Signature=' + '0' * 64
            j = {'method': 'GET', 'uri': '/', 'version': 'HTTP/1.1', 'headers': [['host', b'h'.hex()], ['x-amz-date', t.encode().hex()],
                                                                                 ['authorization', authz.encode().hex()]], 'body_hex': ''}
        else:
            import urllib.parse
            j = {'method': 'GET', 'uri': '/?X-Amz-Algorithm=AWS4-HMAC-SHA256&X-Amz-Credential=AKID%2F' + scope.replace('/', '%2F') + '&X-Amz-Date=' +
                 urllib.parse.quote(t, safe='-._~') + '&X-Amz-SignedHeaders=host&X-Amz-Signature=' + '0' * 64, 'version': 'HTTP/1.1',
                 'headers': [['host', b'h'.hex()]], 'body_hex': ''}
        can = rp.ask({'op': 'canonical', 'request': j, 'options': {'s3': False, 'url_encode_form': False}, 'requirements': {'kind': 'none'}})
        au = can.get('ok', {}).get('authenticator', {})
        ref = py_reference(t)
        if ref[0] == 'dontcare' and ',' in t and py_reference(t.replace(',', '.'))[0] == 'ok':
            # the comma is ISO 8601's own decimal sign and the crate's grammar names it: in the pipeline shapes it counts as well-formed
            ref = ('ok',) + tuple(ref[1:])
        if variant == 'junk':
            return 'ok' in au, {'native_authenticator': 'accepted' if 'ok' in au else au.get('err', au), 'reference': ref}
        if 'ok' not in au or ref[0] != 'ok':
            return ('ok' not in au) and ref[0] == 'ok', {'native_authenticator': au, 'reference': ref}
        sts = bytes.fromhex(au['ok']['string_to_sign_hex'] or '').decode('latin-1').split('\n')
        want = datetime.datetime.fromtimestamp(ref[1], datetime.timezone.utc).strftime('%Y%m%dT%H%M%SZ')
        ts_native = au['ok'].get('timestamp')
        bad = len(sts) < 2 or sts[1] != want or (ts_native is not None and (ts_native.get('secs') != ref[1] or ts_native.get('nanos') != ref[2]))
        return bad, {'native_timestamp_line': sts[1] if len(sts) > 1 else None, 'expected': want, 'native_instant': ts_native, 'reference': ref}
    if 'sts_secs' in f.inp:
        # the authenticator directly: string-to-sign and scope-date check for this instant and credential date
        secs, cd = f.inp['sts_secs'], f.inp['cred_date']
        base = {'op': 'authenticator', 'canonical_request_sha256': 'ab' * 32, 'credential': 'AKID/%s/r/s/aws4_request' % cd, 'session_token': None,
                'signature': '0' * 64, 'timestamp': {'secs': secs, 'nanos': 0}, 'region': 'r', 'service': 's',
                'server_time': {'secs': secs, 'nanos': 0}, 'mismatch_secs': 900, 'mismatch_nanos': 0,
                'provider': {'result': {'signing_key_hex': '00' * 32}}, 'log_level': 'off'}
        r1 = rp.ask(dict(base, call='string_to_sign')).get('result', {})
        r2 = rp.ask(dict(base, call='prevalidate')).get('result', {})
        when = datetime.datetime(1970, 1, 1) + datetime.timedelta(seconds=secs)
        want_ts = '%04d%02d%02dT%02d%02d%02dZ' % (when.year, when.month, when.day, when.hour, when.minute, when.second)
        want_date = '%04d%02d%02d' % (when.year, when.month, when.day)
        lines = bytes.fromhex(r1.get('ok', {}).get('hex', '')).decode('latin-1').split('\n') if 'ok' in r1 else []
        bad_ts = len(lines) < 2 or lines[1] != want_ts
        bad_scope = ('ok' in r2) != (cd == want_date)
        return bad_ts or bad_scope, {'native_timestamp_line': lines[1] if len(lines) > 1 else r1, 'expected': want_ts,
                                     'native_prevalidate': 'ok' if 'ok' in r2 else r2.get('err', {}).get('msg', r2), 'credential_date': cd,
                                     'utc_date': want_date}
    if 'string-to-sign' in f.what or 'prevalidate' in f.what:
        return False, {'note': 'string-to-sign findings are replayed by the authenticator op', 'text': t}
    nat = native_parse(rp, t)
    ref = py_reference(t)
    if nat[0] == 'panic':
        return True, {'native': nat, 'reference': ref}
    if ref[0] == 'ok':
        return nat != ref, {'native': nat, 'reference': ref}
    if ref[0] == 'err':
        return nat[0] != 'err', {'native': nat, 'reference': ref}
    if ref[0] == 'dontcare':
        return nat[0] == 'ok' and nat[1:] != ref[1:], {'native': nat, 'reference': ref}
    return False, {'native': nat, 'reference': ref}


def extra_checks(tier, seed, rp):
    prog, _ = engine.load_program()
    pattern, results = regex_theory(prog)
    bad = [r for r in results if r['result'] != 'unsat']
    lines = []
    status = 0
    for r in bad:
        if r['result'] == 'sat':
            # replay the witness natively
            nat = native_parse(rp, r['witness']) if r['witness'] is not None and 'pattern' not in str(r['witness']) else None
            ref = py_reference(r['witness']) if nat is not None else None
            confirmed = nat is not None and ((ref[0] == 'ok' and nat != ref) or (ref[0] == 'err' and nat[0] == 'ok') or nat[0] == 'panic')
            if confirmed:
                status = 1
                lines.append('VIOLATION property=C16 replay=%s' % write_replay_file(PROP, Finding(
                    'regex-theory query failed: ' + r['query'], {'text': r['witness']}, {'native': nat, 'reference': ref})))
            else:
                status = max(status, 2)
                lines.append('INCONCLUSIVE property=C16 regex query %r has witness %r (native %s, reference %s)' % (
                    r['query'], r['witness'], nat, ref))
        else:
            status = max(status, 2)
            lines.append('INCONCLUSIVE property=C16 regex query %r: %s' % (r['query'], r['result']))
    return {'status': status, 'lines': lines, 'regex_theory': {'pattern': pattern, 'queries': results}}


def describe(f):
    return '%s -> %s' % (json.dumps(f.inp), json.dumps(f.detail, default=str)[:500])


def bounds(tier):
    q = tier == 'quick'
    return ('regex theory: unbounded string length; MIRSE: every rendering (basic/extended date x basic/extended time%s, fraction lengths %s, '
            'zones Z / +-hhmm / +-hh:mm) with every digit and the sign symbolic; one arbitrary ASCII byte substituted (%s), inserted or deleted '
            'on %d representative renderings; every ASCII string of length <= %d; string-to-sign and scope date '
            'for every instant of years 1-9999 given by civil fields and for instants parsed from +hh:mm / -hh:mm renderings'
            % (' plus 2 mixed-separator forms' if q else ' plus all mixed-separator forms', '{0,1,9,10}' if q else '0..12',
               'every position of the basic rendering, separators and field-leading digits of the others' if q else 'every position', 3 if q else 5, 8 if q else 12))


OUTSIDE = ('fractions longer than 12 digits in the MIRSE part (covered structurally by the regex-theory part); characters above U+00FF '
           '(cannot reach the parser: header values are Latin-1 decoded, query values percent-encoded ASCII); comma as fraction separator, '
           'mixed separators, offsets of 15-23 h and second 60 are don\'t-care (either outcome accepted, value checked when accepted)')
NEED_WITNESSES = {'accept', 'reject', 'sts', 'scope-date-ok', 'scope-date-mismatch'}
ASSUMPTIONS = ['chrono constructors / local->UTC conversion follow the contract checked on the compiled chrono by Kani K3',
               'regex crate implements leftmost-first matching of the pattern (the pattern itself is read from the MIR)']


def main(argv):
    return run_check(sys.modules[__name__], argv)


if __name__ == '__main__':
    sys.exit(main(sys.argv))
