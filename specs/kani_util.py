"""Run Kani harness groups through kani/run_kani.py and interpret the verdicts."""
import json
import os
import subprocess
import sys
import time

VERIF = os.path.dirname(os.path.dirname(os.path.abspath(__file__)))


def run_kani(names, timeout=900, jobs=6):
    out = os.path.join(VERIF, '.cache', 'kani-result-%d.json' % os.getpid())
    os.makedirs(os.path.dirname(out), exist_ok=True)
    t = time.time()
    cmd = [sys.executable, os.path.join(VERIF, 'kani', 'run_kani.py'), '--out', out, '--jobs', str(jobs),
           '--timeout', str(timeout)]
    repo = os.environ.get('VERIF_REPO', '/repo')
    if repo != '/repo':
        # frozen / scratch copy of the repository: harness crate copy with the path dependency redirected, own cache
        import hashlib
        import shutil
        key = hashlib.md5(repo.encode()).hexdigest()[:8]
        alt = os.path.join(VERIF, '.cache', 'kani-alt-' + key)
        if os.path.exists(alt):
            shutil.rmtree(alt)
        shutil.copytree(os.path.join(VERIF, 'kani'), alt, ignore=shutil.ignore_patterns('target', '*.lock'))
        toml = open(os.path.join(alt, 'Cargo.toml')).read().replace('path = "/repo"', 'path = "%s"' % repo)
        open(os.path.join(alt, 'Cargo.toml'), 'w').write(toml)
        cmd += ['--crate-dir', alt, '--lock-from', os.path.join(repo, 'Cargo.lock'), '--cache-dir', os.path.join(VERIF, '.cache', 'kani-cache-' + key)]
    cmd += list(names)
    r = subprocess.run(cmd, stdout=subprocess.PIPE, stderr=subprocess.STDOUT)
    if r.returncode != 0 or not os.path.exists(out):
        return {'error': r.stdout.decode('utf-8', 'replace')[-2000:], 'harnesses': {}, 'wall_s': time.time() - t}
    data = json.load(open(out))
    os.remove(out)
    data['wall_s'] = round(time.time() - t, 1)
    return data


def summarize(data):
    """-> (status, rows, failed, inconclusive): status 0 all successful, 1 some FAILED, 2 some ERROR/TIMEOUT/vacuous."""
    rows = []
    failed, inconc = [], []
    for name, h in sorted(data.get('harnesses', {}).items()):
        v = h.get('verdict')
        rows.append({'harness': name, 'verdict': v, 'unwind': h.get('unwind'), 'verification_s': h.get('verification_s'),
                     'covers': h.get('covers'), 'vacuous': h.get('vacuous')})
        if v == 'FAILED':
            failed.append((name, h))
        elif v != 'SUCCESSFUL' or h.get('vacuous'):
            inconc.append((name, h))
    if data.get('error'):
        inconc.append(('runner', {'verdict': 'ERROR', 'log': data['error']}))
    status = 1 if failed else (2 if inconc else 0)
    return status, rows, failed, inconc
