"""C10 — the canonical query string depends only on the multiset of decoded parameters, spec-sorted.

Decided by MIRSE: `query_string_to_normalized_map` followed by `canonicalize_query_to_string`
(the crate's MIR, HashMap iteration order arbitrary per path) is executed on symbolic
query strings; on every feasible path the output is proved equal (z3 validity) to the
reference: decode each pair once, drop X-Amz-Signature, encode once, sort by (encoded name,
encoded value) bytewise, join with '&'.  Malformed escapes must give MalformedQueryString.
"""
import itertools
import json
import random
import re
import sys

import z3

from .common import *
from . import refmodel as R
from mirse import engine

PROP = 'C10'


def shapes(tier, seed):
    """A shape is a tuple of components; a component is (name_len, value_len|None) or 'E' (empty, i.e. '&&')."""
    out = []
    q = tier == 'quick'

    def content(combo):
        return sum(n + (v or 0) for n, v in combo)
    one = [(n, v) for n in range(0, 4 if q else 5) for v in ((None, 0, 1, 2) if q else (None, 0, 1, 2, 3))]
    comp = [(n, v) for n in (0, 1, 2, 3) for v in (None, 0, 1, 2)]
    out.append(())
    for c in one:
        out.append((c,))
    for combo in itertools.product(comp, repeat=2):
        if content(combo) <= (4 if q else 6):
            out.append(combo)
    for combo in itertools.product(comp, repeat=3):
        if content(combo) <= (3 if q else 5) and all(v is not None or n > 0 for n, v in combo):
            out.append(combo)
    if not q:
        for combo in itertools.product([(1, 0), (1, None), (0, 0), (2, 0), (1, 1)], repeat=4):
            if content(combo) <= 4:
                out.append(combo)
    # empty components in every position of small queries
    for a in [(1, 1), (1, None), (0, 0)]:
        out += [('E', a), (a, 'E'), (a, 'E', a), ('E',), ('E', 'E')]
    # the signature parameter (must be dropped) next to others
    for a in [(1, 1), (2, 0)]:
        out += [('SIG', a), (a, 'SIG'), ('SIG',), ('SIGLIKE', a)]
    return out


def build_query(ctx, shape):
    es = []
    k = 0
    for j, comp in enumerate(shape):
        if j:
            es.append(Int('u8', 0x26))
        if comp == 'E':
            continue
        if comp == 'SIG':
            es += conc_bytes('X-Amz-Signature=')
            b = ctx.fresh_bv('sv%d' % j, 8)
            ctx.assume(z3.And(z3.ULT(b, 0x80), b != 0x26))
            es.append(Int('u8', b))
            continue
        if comp == 'SIGLIKE':
            # a name that differs from X-Amz-Signature in one symbolic byte / or equals it
            nm = conc_bytes('X-Amz-Signatur')
            b = ctx.fresh_bv('sl%d' % j, 8)
            ctx.assume(z3.And(z3.ULT(b, 0x80), b != 0x26, b != 0x3D))
            es += nm + [Int('u8', b)] + conc_bytes('=1')
            continue
        nl, vl = comp
        for i in range(nl):
            b = ctx.fresh_bv('n%d_%d' % (j, i), 8)
            ctx.assume(z3.And(z3.ULT(b, 0x80), b != 0x26, b != 0x3D))
            es.append(Int('u8', b))
        if vl is not None:
            es.append(Int('u8', 0x3D))
            for i in range(vl):
                b = ctx.fresh_bv('v%d_%d' % (j, i), 8)
                ctx.assume(z3.And(z3.ULT(b, 0x80), b != 0x26))
                es.append(Int('u8', b))
    return es


def run_code(m, es):
    r = m.call('query_string_to_normalized_map', [mk_str(es)], None)
    if r.variant == 'Err':
        return ('err', r.fields[0].variant)
    hm = r.fields[0]
    s = m.call('canonicalize_query_to_string', [Ptr(Cell(hm), ())], None)
    return ('ok', s.elems)


def run_shape(prog, shape, tier, seed, res):
    def body(m, ctx):
        m.hash_order = 'all'
        es = build_query(ctx, shape)
        r = run_code(m, es)
        try:
            ref = ('ok', R.ref_canon_query(ctx, es))
        except R.RefError as e:
            ref = ('err', e.kind)
        return es, r, ref

    def report(ctx, what, es, prop):
        neg = z3.Not(prop) if not isinstance(prop, bool) else z3.BoolVal(not prop)
        sat, model = ctx.satisfiable(neg)
        if not sat:
            return
        res.findings.append(Finding(what, {'query': model_bytes(model, es).decode('latin-1')}, None, None, repr(shape)))

    def on_path(pr):
        ctx = pr.ctx
        res.obligations += 1
        if pr.kind == 'panic':
            res.findings.append(Finding('panic: %s' % pr.value.msg, {'shape': repr(shape)}, None, None, repr(shape)))
            return
        es, r, ref = pr.value
        if len(res.samples) < 1:
            okm, model = ctx.satisfiable()
            if okm:
                res.samples.append({'query': model_bytes(model, es).decode('latin-1'), 'outcome': r[0]})
        if r[0] == 'err':
            res.witnesses.add('err:' + r[1])
            if ref[0] != 'err':
                report(ctx, 'code fails (%s) where the reference succeeds' % r[1], es, False)
            elif r[1] != ref[1]:
                report(ctx, 'wrong error kind %s, expected %s' % (r[1], ref[1]), es, False)
            return
        res.witnesses.add('ok')
        if ref[0] == 'err':
            report(ctx, 'code succeeds where the reference fails (%s)' % ref[1], es, False)
            return
        if len(r[1]) != len(ref[1]):
            report(ctx, 'canonical query has a different length than the reference', es, False)
            return
        prop = zb(bytes_eq(r[1], ref[1]))
        okv, _ = ctx.valid(prop)
        if not okv:
            report(ctx, 'canonical query differs from the reference (sorted, once-encoded multiset)', es, prop)

    engine.explore(prog, body, on_path, stats=res.stats)


# --------------------------------------------------------------------------- concrete side

def ref_concrete(q):
    try:
        out = R.ref_canon_query(RefCtx(), conc_bytes(q.encode('latin-1')))
        return ('ok', bytes(e.v for e in out).decode('latin-1'))
    except R.RefError as e:
        return ('err', e.kind)


def mirse_concrete(prog, q, order='first'):
    out = []

    def body(m, ctx):
        m.hash_order = order
        return run_code(m, conc_bytes(q.encode('latin-1')))
    engine.explore(prog, body, out.append)
    pr = out[0]
    if pr.kind == 'panic':
        return ('panic', pr.value.msg)
    if pr.value[0] == 'ok':
        return ('ok', bytes(e.v for e in pr.value[1]).decode('latin-1'))
    return pr.value


def native(rp, q, repeat=8):
    r = rp.ask({'op': 'canon_query', 'query': q, 'repeat': repeat})
    if 'ok' in r:
        if not r.get('all_equal', True):
            return ('unstable', r['ok'])
        return ('ok', r['ok'])
    if 'err' in r:
        return ('err', r['err']['kind'])
    if 'panic' in r:
        return ('panic', r['panic'])
    return ('bad_input', str(r))


def conformance(prog, rp, seed, tier):
    src = open(REPO + '/src/canonical.rs').read() + open(REPO + '/src/aws4.rs').read()
    cases = re.findall(r'query_string_to_normalized_map\("([^"\\]*)"\)', src)
    cases += ['Param2=value2&Param1=value1', 'Param1=value2&Param1=Value1&Param1=value1', '-._~0123456789=x', 'a=%20&b=+&c=%2b']
    rnd = random.Random(seed)
    alphabet = 'abA=&%+-.2F~ *'
    for _ in range(150 if tier == 'quick' else 1000):
        cases.append(''.join(rnd.choice(alphabet) for _ in range(rnd.randint(0, 10))))
    mism = []
    for q in cases:
        a = mirse_concrete(prog, q)
        b = native(rp, q)
        if a != b:
            # the native map order is random; MIRSE with another order may match
            a2 = mirse_concrete(prog, q, 'rev')
            if a2 != b:
                mism.append({'query': q, 'mirse': a, 'native': b})
    return len(cases), mism


def replay_finding(rp, f):
    if 'query' not in f.inp:
        return False, None
    q = f.inp['query']
    nat = native(rp, q, repeat=64)
    ref = ref_concrete(q)
    return nat != ref and nat[0] != 'bad_input', {'native': nat, 'reference': ref}


def describe(f):
    return 'query %r -> %s' % (f.inp.get('query'), json.dumps(f.detail, default=str))


def bounds(tier):
    if tier == 'quick':
        return ('every ASCII query string made of 1 parameter (name <= 3, value <= 2 bytes), 2 parameters with <= 4 content bytes, '
                '3 parameters with <= 3 content bytes (names <= 3, values <= 2, with and without "="), empty "&&" components, '
                'the X-Amz-Signature parameter and near-misses of its name; all 128 ASCII values per content byte (hence every '
                'spelling incl. %XX/%xx/+ that fits), every HashMap iteration order')
    return ('as quick with 1 parameter (name <= 4, value <= 3), 2 parameters with <= 6 content bytes, 3 with <= 5, 4 with <= 4; '
            'every HashMap iteration order')


OUTSIDE = 'longer names/values, more parameters; non-ASCII literal bytes (all 256 values occur through %XX)'
NEED_WITNESSES = {'ok', 'err:MalformedQueryString'}
ASSUMPTIONS = ['HashMap is modelled as an association list whose iteration order is an arbitrary permutation chosen per path',
               'slice::sort_unstable returns the sorted permutation (insertion sort with symbolic comparisons)']


def main(argv):
    return run_check(sys.modules[__name__], argv)


if __name__ == '__main__':
    sys.exit(main(sys.argv))
