"""C18 — validation is deterministic and reentrant.   PARTLY APPLICABLE: thread interleavings are not decided.

Decided by MIRSE:
 (a) independence from hash seeds: every `HashMap` in the model iterates in an arbitrary order chosen per path,
     so the pipeline is explored under *all* iteration orders of the query-parameter map and the header map; for
     one symbolic request, any two paths with different outcome kinds must have contradictory input conditions
     (z3: PC1 and PC2 unsatisfiable together), i.e. the kind is a function of the input alone; accepted requests
     must return the same request under every order;
 (b) repetition: the pipeline is executed twice in one path (lazy statics initialised by the first run) and must
     yield the same outcome and the same returned request; the lazy-static initialisers are executed from the MIR
     and their values must not mention any input symbol;
 (c) supporting, not deciding: the MIR is scanned for writes to statics outside the lazy-static `Once` cells and
     for interior-mutability types in CanonicalRequest / SigV4Authenticator.
NOT decided: interleavings of threads sharing the library's global state (the executor is sequential and the
regex crate's internal cache pool is out of reach) - stated in MANIFEST level_note.
"""
import itertools
import json
import random
import re
import sys

import z3

from .common import *
from .pipeline import *
from . import refmodel as R
from . import c02
from mirse import engine
from mirse import model_async as A

PROP = 'C18'
TS = c02.TS
SCOPE = c02.SCOPE
AKID = c02.AKID


def shapes(tier, seed):
    out = []
    for carrier in ('header', 'query'):
        out.append(('orders', carrier, 'signed'))
        out.append(('orders', carrier, 'prefix-unsigned'))
        out.append(('orders', carrier, 'wrong-sig'))
        out.append(('orders', carrier, 'dup-name'))       # one parameter name twice with different values (ties for any sort keyed by name)
        out.append(('orders', carrier, 'fold'))           # form folding on: the rebuilt URI that is handed back must not depend on map order either
        out.append(('repeat', carrier, 'dup-name'))
        out.append(('repeat', carrier, 'signed'))
        out.append(('repeat', carrier, 'wrong-sig'))
        out.append(('repeat', carrier, 'bad-date'))
        for first in ('bad-query', 'bad-date', 'wrong-sig', 'prefix-unsigned'):
            out.append(('history', carrier, first))
    # one authenticator object used more than once (and cloned): no call may depend on an earlier one (no interior mutability)
    out.append(('auth-reuse', 'same'))
    out.append(('auth-reuse', 'clone'))
    out.append(('statics',))
    return out


def build(m, ctx, carrier, variant, key):
    """A request with three query parameters and three extra headers whose values are symbolic."""
    vals = [Int('u8', ctx.fresh_bv('qv%d' % i, 8)) for i in range(3)]
    for e in vals:
        ctx.assume(zb(R.unreserved_f(e)))
    third = 'mid'
    if variant == 'dup-name':
        third = 'alpha'
        ctx.assume(vals[1].z() != vals[2].z())
    pairs = [(conc_bytes('zeta'), [vals[0]]), (conc_bytes('alpha'), [vals[1]]), (conc_bytes(third), [vals[2]])]
    wire_q = conc_bytes('zeta=') + [vals[0]] + conc_bytes('&alpha=') + [vals[1]] + conc_bytes('&' + third + '=') + [vals[2]]
    hv = [Int('u8', ctx.fresh_bv('hv%d' % i, 8)) for i in range(2)]
    for e in hv:
        ctx.assume(z3.And(z3.UGE(e.z(), 0x21), z3.ULE(e.z(), 0x7E)))
    headers = [('x-amz-meta-b', [hv[0]]), ('host', conc_bytes('h')), ('x-amz-meta-a', [hv[1]]), ('x-other', conc_bytes('o'))]
    body = []
    method = 'GET'
    if variant == 'fold':
        # lean request (few map entries: the number of explored iteration orders is exponential in the number of map walks)
        fv = [Int('u8', ctx.fresh_bv('fv%d' % i, 8)) for i in range(2)]
        for e in fv:
            ctx.assume(zb(R.unreserved_f(e)))
        pairs = [(conc_bytes('zeta'), [vals[0]]), (conc_bytes('yankee'), [fv[0]]), (conc_bytes('bravo'), [fv[1]])]
        wire_q = conc_bytes('zeta=') + [vals[0]]
        headers = [('host', conc_bytes('h')), ('content-type', conc_bytes('application/x-www-form-urlencoded'))]
        signed = ['host']
        body = conc_bytes('yankee=') + [fv[0]] + conc_bytes('&bravo=') + [fv[1]]
        method = 'POST'
    signed = ['host', 'x-amz-meta-a', 'x-amz-meta-b'] if variant not in ('prefix-unsigned', 'fold') else ['host']
    ts = TS if variant != 'bad-date' else '2015-13-45T99:99:99Z'
    cred = conc_bytes(AKID + '/' + SCOPE)
    if variant == 'bad-query':
        # a malformed escape preceded by ordinary characters, in a value
        wire_q = wire_q + conc_bytes('&mk=abc%zz')
    if carrier == 'header':
        headers.append(('x-amz-date', conc_bytes(ts)))
        signed = sorted(signed + ['x-amz-date'])
        cq = R.ref_canon_query_from_pairs(ctx, pairs)
        sig, _, _ = ref_sign(m, key, ctx, method, conc_bytes('/'), cq, headers, signed, [], conc_bytes(TS), conc_bytes(SCOPE))
        if variant == 'wrong-sig':
            sig = sig[:-1] + [Int('u8', z3.If(sig[-1].z() == 0x30, z3.BitVecVal(0x31, 8), z3.BitVecVal(0x30, 8)))]
        headers.append(('authorization', auth_header(cred, signed, sig)))
    else:
        signed = sorted(signed)
        for n, v in [('X-Amz-Algorithm', 'AWS4-HMAC-SHA256'), ('X-Amz-Credential', AKID + '/' + SCOPE), ('X-Amz-Date', ts),
                     ('X-Amz-SignedHeaders', ';'.join(signed))]:
            pairs.append((conc_bytes(n), conc_bytes(v)))
            wire_q += conc_bytes('&' + n + '=') + R.pct_encode(ctx, conc_bytes(v))
        cq = R.ref_canon_query_from_pairs(ctx, pairs)
        sig, _, _ = ref_sign(m, key, ctx, method, conc_bytes('/'), cq, headers, signed, [], conc_bytes(TS), conc_bytes(SCOPE))
        if variant == 'wrong-sig':
            sig = sig[:-1] + [Int('u8', z3.If(sig[-1].z() == 0x30, z3.BitVecVal(0x31, 8), z3.BitVecVal(0x30, 8)))]
        wire_q += conc_bytes('&X-Amz-Signature=') + sig
    return Req(method, b'/', wire_q, headers, body, 'bytes')


def summary(o):
    """(kind, returned-request terms) of an outcome."""
    if o[0] != 'ok':
        return o[1], None
    parts, rbody, resp = o[1]
    u = parts.fields[1]
    ret = list(u.path) + [Int('u8', 0x3F)] + list(u.query or [])
    for n, v in parts.fields[3].entries:
        ret += conc_bytes('\n' + n.name + ':') + list(v.elems)
    ret += conc_bytes('\n\n') + list(rbody.elems)
    return 'ok', ret


def run_shape(prog, shape, tier, seed, res):
    kind = shape[0]
    collected = []

    def body(m, ctx):
        if kind == 'auth-reuse':
            from mirse import model_chrono as C

            def build_auth():
                b = m.call('SigV4AuthenticatorBuilder::create_empty', [], None)
                b.fields[0] = some(Array([Int('u8', 0xAB)] * 32))
                b.fields[1] = some(mk_string('AKID/' + SCOPE))
                b.fields[3] = some(mk_string('0' * 64))
                b.fields[4] = some(instant(T0))
                r = m.call('SigV4AuthenticatorBuilder::build', [Ptr(Cell(b), ())], None)
                if r.variant != 'Ok':
                    raise Unsupported('SigV4AuthenticatorBuilder::build failed in the harness')
                return r.fields[0]

            def pre(auth, region, delta):
                r = m.call('SigV4Authenticator::prevalidate', [Ptr(Cell(auth), ()) if not isinstance(auth, Ptr) else auth, str_ptr(region), str_ptr('service'),
                                                               instant(T0 + delta), C.TimeDelta(900)], None)
                return 'ok' if r.variant == 'Ok' else r.fields[0].variant
            auth = build_auth()
            cell = Cell(auth)
            first = pre(Ptr(cell, ()), 'us-east-1', 0)
            target = cell.v
            if shape[1] == 'clone':
                target = m.call('<SigV4Authenticator as Clone>::clone', [Ptr(cell, ())], None)
            tcell = Cell(target)
            later = [pre(Ptr(tcell, ()), 'us-east-1', 5000), pre(Ptr(tcell, ()), 'eu-west-1', 0), pre(Ptr(tcell, ()), 'us-east-1', -5000)]
            fresh = [pre(build_auth(), 'us-east-1', 5000), pre(build_auth(), 'eu-west-1', 0), pre(build_auth(), 'us-east-1', -5000)]
            return ('auth-reuse', first, later, fresh)
        if kind == 'statics':
            # run one validation so that every lazy static that the pipeline touches is initialised, then look at the cells
            key = sym_bytes(ctx, 'key', 32)
            rq = build(m, ctx, 'header', 'signed', key)
            r, _ = run(m, rq, 'us-east-1', 'service', provider_ok(key), instant(T0), requirements('slice', prefixes=['x-amz-meta']))
            pd = Req('GET', b'/a//b', None, [('host', b'h'), ('date', b'junk'), ('authorization', b'AWS4-HMAC-SHA256 Credential=a, SignedHeaders=host, Signature=b')])
            run(m, pd, 'us-east-1', 'service', provider_ok(key), instant(T0))
            cells = {k: v.v for k, v in m.static_cells.items() if k.startswith('lazy:')}
            return ('statics', cells)
        _, carrier, variant = shape
        key = sym_bytes(ctx, 'key', 32)
        reqs = requirements('slice', prefixes=['x-amz-meta'])
        opts = options(False, variant == 'fold')
        if kind == 'orders':
            m.hash_order = 'cover' if variant != 'fold' else 'two'
            rq = build(m, ctx, carrier, variant, key)
            r, _ = run(m, rq, 'us-east-1', 'service', provider_ok(key), instant(T0), reqs, opts)
            return ('orders', rq, summary(outcome(r)))
        if kind == 'history':
            # a defective request first, then a correctly signed one on the same thread / in the same process
            m.hash_order = 'first'
            bad = build(m, ctx, carrier, variant, key)
            rb, _ = run(m, bad, 'us-east-1', 'service', provider_ok(key), instant(T0), reqs)
            good = build(m, ctx, carrier, 'signed', key)
            rg, _ = run(m, good, 'us-east-1', 'service', provider_ok(key), instant(T0), reqs)
            return ('history', good, summary(outcome(rb)), summary(outcome(rg)))
        m.hash_order = 'two'
        rq = build(m, ctx, carrier, variant, key)
        r1, _ = run(m, rq, 'us-east-1', 'service', provider_ok(key), instant(T0), reqs, opts)
        r2, _ = run(m, rq, 'us-east-1', 'service', provider_ok(key), instant(T0), reqs, opts)
        return ('repeat', rq, summary(outcome(r1)), summary(outcome(r2)))

    def on_path(pr):
        ctx = pr.ctx
        res.obligations += 1
        if pr.kind == 'panic':
            res.findings.append(Finding('panic: %s' % pr.value.msg, {'shape': repr(shape)}, None, None, repr(shape)))
            return
        v = pr.value
        if v[0] == 'auth-reuse':
            _, first, later, fresh = v
            res.witnesses.add('auth-reuse:' + first)
            if first != 'ok' or later != fresh:
                res.findings.append(Finding('prevalidate on an authenticator that was used before answers %s, a fresh authenticator answers %s for the same arguments' % (later, fresh),
                                            {'shape': list(shape), 'auth_reuse': shape[1]}, None, None, repr(shape)))
            return
        if v[0] == 'statics':
            cells = v[1]
            res.witnesses.add('statics:%d' % len(cells))
            for name, val in cells.items():
                pat = getattr(val, 'pattern', None)
                if pat is None and not isinstance(val, (Opaque, Adt)):
                    res.findings.append(Finding('lazy static %s holds a value that is not a constant' % name, {'shape': list(shape)}, None, None, repr(shape)))
            res.samples.append({'lazy_statics': {k: getattr(val, 'pattern', repr(val))[:60] for k, val in cells.items()}})
            return
        if v[0] == 'orders':
            _, rq, (k, ret) = v
            res.witnesses.add('orders:' + k)
            collected.append((list(ctx.pc), k, ret, rq))
            return
        if v[0] == 'history':
            _, rq, (kb, _rb), (kg, retg) = v
            res.witnesses.add('history:' + kb + '->' + kg)
            if kg != 'ok':
                sat, model = ctx.satisfiable()
                res.findings.append(Finding('a correctly signed request is refused (%s) when it follows a %s request in the same process' % (kg, shape[2]),
                                            {'shape': list(shape), 'request': rq.to_json(model), 'first': shape[2]}, None, None, repr(shape)))
            return
        _, rq, (k1, ret1), (k2, ret2) = v
        res.witnesses.add('repeat:' + k1)
        if k1 != k2:
            sat, model = ctx.satisfiable()
            res.findings.append(Finding('second validation of the same request in the same process gives %s, first gave %s' % (k2, k1),
                                        {'shape': list(shape), 'request': rq.to_json(model)}, None, None, repr(shape)))
        elif ret1 is not None:
            if len(ret1) != len(ret2) or not ctx.valid(zb(bytes_eq(ret1, ret2)))[0]:
                sat, model = ctx.satisfiable()
                res.findings.append(Finding('second validation returns a different request than the first',
                                            {'shape': list(shape), 'request': rq.to_json(model)}, None, None, repr(shape)))

    engine.explore(prog, body, on_path, stats=res.stats)
    # ---- cross-path obligation for hash orders: different kinds => contradictory input conditions
    if kind == 'orders' and collected:
        groups = {}
        for pc, k, ret, rq in collected:
            groups.setdefault(k, []).append((pc, ret, rq))
        kinds = sorted(groups)
        for a, b in itertools.combinations(kinds, 2):
            res.obligations += 1
            s = z3.Solver()
            s.set('timeout', 60000)
            s.add(z3.Or(*[z3.And(*pc) if pc else z3.BoolVal(True) for pc, _, _ in groups[a]]))
            s.add(z3.Or(*[z3.And(*pc) if pc else z3.BoolVal(True) for pc, _, _ in groups[b]]))
            r = s.check()
            res.stats['queries'] = res.stats.get('queries', 0) + 1
            if r == z3.sat:
                model = s.model()
                rq = groups[a][0][2]
                res.findings.append(Finding('the same request is %s under one HashMap iteration order and %s under another' % (a, b),
                                            {'shape': list(shape), 'request': rq.to_json(model)}, None, None, repr(shape)))
            elif r != z3.unsat:
                res.inconclusive.append('%s: cross-order query unknown' % (shape,))
        # accepted requests: returned request identical under every order (same symbols => compare terms under the union of PCs)
        oks = groups.get('ok', [])
        if len(oks) > 1:
            base = oks[0]
            for pc, ret, rq in oks[1:]:
                res.obligations += 1
                s = z3.Solver()
                s.set('timeout', 60000)
                s.add(*base[0])
                s.add(*pc)
                if len(ret) != len(base[1]):
                    res.findings.append(Finding('returned request differs in length between HashMap iteration orders', {'shape': list(shape)}, None, None, repr(shape)))
                    continue
                s.add(z3.Not(zb(bytes_eq(ret, base[1]))))
                if s.check() == z3.sat:
                    res.findings.append(Finding('returned request depends on the HashMap iteration order',
                                                {'shape': list(shape), 'request': rq.to_json(s.model())}, None, None, repr(shape)))
        res.samples.append({'shape': list(shape), 'orders_explored': len(collected), 'kinds': kinds})


# --------------------------------------------------------------------------- concrete side

def static_scan(prog):
    """Supporting evidence: writes to statics and interior mutability, read from the MIR text / sources."""
    text, _ = engine.dump_mir()
    static_mut = re.findall(r'^static mut [^\n]*', text, re.M)
    statics = re.findall(r'^static ([^:\n]+):', text, re.M)
    src = ''
    import glob
    for p in glob.glob(REPO + '/src/*.rs'):
        src += open(p).read()
    interior = sorted(set(re.findall(r'\b(RefCell|Cell|Mutex|RwLock|Atomic\w+|OnceCell|OnceLock|LazyCell|LazyLock|UnsafeCell)\b', src)))
    return {'static_mut_items': static_mut, 'statics': statics, 'interior_mutability_mentions_in_src': interior}


def native_repeat(rp, j, reqs=None, fold=False, with_uri=False):
    nat = native_validate(rp, j, 'us-east-1', 'service', T0, provider={'result': {'signing_key_hex': '00' * 32}}, reqs=reqs,
                          opts={'s3': False, 'url_encode_form': fold})
    res = nat.get('result', {})
    kind = 'ok' if 'ok' in res else res.get('err', {}).get('kind', 'panic')
    if with_uri:
        return kind, (res['ok'].get('uri') if 'ok' in res else None)
    return kind


def sign_fold(base, carrier, signed_names):
    """Concrete signature for a POST whose form body is folded into the query (payload hash of the empty string)."""
    uri = base['uri']
    path, _, q = uri.partition('?')
    body = bytes.fromhex(base['body_hex']).decode('latin-1')
    _, cq = c02.py_canon(path, q + '&' + body)
    headers = [(n, bytes.fromhex(v)) for n, v in base['headers']]
    sig, _, _ = py_sign(bytes(32), 'POST', b'/', cq, headers, signed_names, b'', TS, SCOPE, is_key=True)
    j = json.loads(json.dumps(base))
    if carrier == 'header':
        j['headers'].append(['authorization', ('AWS4-HMAC-SHA256 Credential=%s/%s, SignedHeaders=%s, Signature=%s' % (AKID, SCOPE, ';'.join(signed_names), sig)).encode().hex()])
    else:
        j['uri'] = uri + '&X-Amz-Signature=' + sig
    return j


def replay_finding(rp, f):
    inp = f.inp
    if 'auth_reuse' in inp:
        base = {'op': 'authenticator', 'canonical_request_sha256': 'ab' * 32, 'credential': 'AKID/' + SCOPE, 'session_token': None, 'signature': '0' * 64,
                'timestamp': {'secs': T0, 'nanos': 0}, 'call': 'prevalidate', 'service': 'service', 'mismatch_secs': 900, 'mismatch_nanos': 0,
                'provider': {'result': {'signing_key_hex': '00' * 32}}, 'log_level': 'off'}
        outs = []
        for region, delta in (('us-east-1', 5000), ('eu-west-1', 0), ('us-east-1', -5000)):
            args = dict(base, region=region, server_time={'secs': T0 + delta, 'nanos': 0})
            fresh = rp.ask(args).get('result', {})
            used = rp.ask(dict(args, warmup=[{'region': 'us-east-1', 'service': 'service', 'server_time': {'secs': T0, 'nanos': 0}}],
                               main_on_clone=(inp['auth_reuse'] == 'clone'))).get('result', {})
            k = lambda r: 'ok' if 'ok' in r else r.get('err', {}).get('kind', 'panic')
            outs.append((region, delta, k(fresh), k(used)))
        return any(a != b for _, _, a, b in outs), {'region_delta_fresh_used': outs}
    if 'request' not in inp:
        return False, None
    if inp.get('first'):
        reqs = {'kind': 'slice', 'always': [], 'if_in': [], 'prefixes': ['x-amz-meta']}
        good = inp['request']
        # re-sign the good request concretely (the model's signature comes from the oracle)
        sg = c02.sign_concrete({'carrier': inp['shape'][1], 'request': c02.strip_signature(good, inp['shape'][1]),
                                'signed': sorted(['host', 'x-amz-meta-a', 'x-amz-meta-b'] + (['x-amz-date'] if inp['shape'][1] == 'header' else [])), 's3': False})[0]
        alone = native_repeat(rp, sg, reqs)
        bad = dict(sg)
        if inp['first'] == 'bad-query':
            bad['uri'] = sg['uri'] + '&mk=abc%zz'
        elif inp['first'] == 'bad-date':
            bad['headers'] = [[n, (b'junk'.hex() if n == 'x-amz-date' else v)] for n, v in sg['headers']]
            bad['uri'] = sg['uri'].replace('X-Amz-Date=20150830T123600Z', 'X-Amz-Date=junk')
        else:
            bad['uri'] = sg['uri'][:-1] + ('0' if sg['uri'][-1] != '0' else '1') if inp['shape'][1] == 'query' else sg['uri']
        k_bad = native_repeat(rp, bad, reqs)
        after = native_repeat(rp, sg, reqs)
        return alone == 'ok' and after != 'ok', {'good_alone': alone, 'bad_first': k_bad, 'good_after_bad': after}
    # the native process uses a fresh random hash seed per map: repeat many times and look for differing kinds.  The model's
    # signature is an oracle symbol, so the request is first re-signed with real digests (for the variants that are meant to be valid).
    reqs = {'kind': 'slice', 'always': [], 'if_in': [], 'prefixes': ['x-amz-meta']}
    carrier, variant = inp['shape'][1], inp['shape'][2]
    j = inp['request']
    base = c02.strip_signature(j, carrier)
    signed_names = ['host'] if variant in ('prefix-unsigned', 'fold') else ['host', 'x-amz-meta-a', 'x-amz-meta-b']
    signed_names = sorted(signed_names + (['x-amz-date'] if carrier == 'header' else []))

    def resign(rq):
        sg = c02.sign_concrete({'carrier': carrier, 'request': rq, 'signed': signed_names, 's3': False})[0]
        if variant == 'wrong-sig':
            if carrier == 'query':
                sg['uri'] = sg['uri'][:-1] + ('0' if sg['uri'][-1] != '0' else '1')
            else:
                hv = bytes.fromhex(sg['headers'][-1][1]).decode()
                sg['headers'][-1][1] = (hv[:-1] + ('0' if hv[-1] != '0' else '1')).encode().hex()
        return sg

    def kinds_of(rq, n=64):
        return {native_repeat(rp, rq, reqs) for _ in range(n)}
    if variant == 'fold':
        sg = sign_fold(base, carrier, signed_names)
        seen = {native_repeat(rp, sg, reqs, fold=True, with_uri=True) for _ in range(64)}
        return len(seen) > 1, {'native_outcomes_and_returned_uris_over_64_runs': sorted(map(str, seen))[:4], 'distinct': len(seen)}
    k1 = kinds_of(resign(base))
    if len(k1) > 1:
        return True, {'native_kinds_over_64_runs': sorted(k1)}
    # Same request class scaled up: the model treats the order of equal-key elements after an unstable sort (and the iteration
    # order of a HashMap) as arbitrary; std's unstable sort only reorders ties above its small-sort threshold (32 elements), so
    # the witness is padded with 40 further distinct parameters before it is run natively.
    uri = base['uri']
    path, _, q = uri.partition('?')
    pad = '&'.join('p%02d=%d' % (i, i) for i in range(40))
    if carrier == 'query':
        i = q.find('&X-Amz-Algorithm=')
        q2 = q[:i] + '&' + pad + q[i:]
    else:
        q2 = q + '&' + pad
    padded = dict(base, uri=path + '?' + q2)
    k2 = kinds_of(resign(padded), 96)
    return len(k2) > 1, {'native_kinds_over_64_runs': sorted(k1), 'padded_with_40_parameters_kinds_over_96_runs': sorted(k2),
                         'padded_uri': padded['uri'][:160]}


def conformance(prog, rp, seed, tier):
    """Concrete requests: MIRSE under both extreme orders and the native crate (64 fresh hash seeds) agree on the kind."""
    mism = []
    n = 0
    for carrier in ('header', 'query'):
        for variant in ('signed', 'prefix-unsigned', 'wrong-sig', 'bad-date'):
            n += 1
            outs = []
            for order in ('first', 'rev'):
                o = []

                def body(m, ctx):
                    m.hash_order = order
                    key = conc_bytes(bytes(32))
                    rq = build_concrete(m, ctx, carrier, variant, key)
                    r, _ = run(m, rq, 'us-east-1', 'service', provider_ok(key), instant(T0), requirements('slice', prefixes=['x-amz-meta']))
                    oc = outcome(r)
                    return ('ok' if oc[0] == 'ok' else oc[1]), rq.to_json()
                engine.explore(prog, body, o.append)
                outs.append(o[0].value if o[0].kind == 'ret' else ('panic', None))
            j = outs[0][1]
            nk = {native_repeat(rp, j, {'kind': 'slice', 'always': [], 'if_in': [], 'prefixes': ['x-amz-meta']}) for _ in range(16)}
            if {outs[0][0], outs[1][0]} != nk:
                mism.append({'case': [carrier, variant], 'mirse': [outs[0][0], outs[1][0]], 'native': sorted(nk)})
    return n, mism


def build_concrete(m, ctx, carrier, variant, key):
    class FakeCtx:
        def __init__(self, c):
            self.c = c
            self.k = 0

        def fresh_bv(self, name, bits):
            self.k += 1
            return z3.BitVecVal(0x61 + self.k, bits)

        def assume(self, c):
            pass

        def branch(self, c):
            return self.c.branch(c)
    return build(m, FakeCtx(ctx), carrier, variant, key)


def extra_checks(tier, seed, rp):
    prog, _ = engine.load_program()
    scan = static_scan(prog)
    lines = []
    status = 0
    if scan['static_mut_items']:
        lines.append('NOTE property=C18 `static mut` items present in the crate MIR: %s' % scan['static_mut_items'][:3])
    return {'status': status, 'lines': lines, 'static_scan': scan,
            'not_decided': 'thread interleavings (2-16 threads sharing the lazy-static regexes); see DESIGN.md C18'}


def describe(f):
    return '%s -> %s' % (json.dumps({k: v for k, v in f.inp.items() if k != 'request'}), json.dumps(f.detail, default=str)[:300])


def bounds(tier):
    return ('requests with three query parameters and three extra headers with symbolic one-byte values, on both carriers: for the query-parameter '
            'HashMap and the header HashMap all permutations when a map has <= 3 entries, otherwise the covering family identity / reverse / each '
            'entry first / each entry last (chosen per path, both maps independently) for a correctly signed request, '
            'a request with two unsigned prefix-matching headers and a wrongly signed one; two consecutive validations in one path for signed, '
            'wrongly signed and malformed-date requests; histories: a request with a malformed query escape / malformed date / wrong signature / '
            'unsigned prefixed header followed by a correctly signed request; values of all lazy statics after a run')


OUTSIDE = ('thread schedules (NOT decided by this check); error *messages* (the property fixes outcome, kind and returned request: the message of the '
           'prefix rule names whichever unsigned header the map yields first); process-level state other than hash seeds')
NEED_WITNESSES = {'orders:ok', 'orders:SignatureDoesNotMatch', 'repeat:ok', 'repeat:IncompleteSignature', 'history:MalformedQueryString->ok'}
ASSUMPTIONS = ['std HashMap iteration order is an arbitrary permutation of its entries (this is the hash-seed quantifier)',
               'lazy_static initialisation is executed from its MIR once per path; `Once` itself is trusted']


def main(argv):
    return run_check(sys.modules[__name__], argv)


if __name__ == '__main__':
    sys.exit(main(sys.argv))
