#!/bin/sh
# Build verif-replay against the current /repo working tree and print the path of the binary.
#   build.sh            release profile (what users of the crate get: overflow wraps)
#   build.sh --checked  profile "checked": release + overflow-checks + debug-assertions
# Re-runnable; cargo rebuilds when /repo's sources change (path dependency).
set -eu
HERE="$(cd "$(dirname "$0")" && pwd)"
TARGET_DIR="${VERIF_REPLAY_TARGET:-/verif/.cache/replay-target}"
PROFILE=release
[ "${1:-}" = "--checked" ] && PROFILE=checked
REPO="${VERIF_REPO:-/repo}"
if [ "$REPO" != "/repo" ]; then
    # frozen / scratch copy of the repository (used for long background runs while /repo is being mutated, never by a registered command):
    # a copy of this crate with the path dependency redirected, and its own target dir
    KEY="$(printf %s "$REPO" | md5sum | cut -c1-8)"
    ALT="/verif/.cache/replay-alt-$KEY"
    mkdir -p "$ALT"
    rm -rf "$ALT/src"; cp -r "$HERE/src" "$ALT/src"
    sed "s#path = \"/repo\"#path = \"$REPO\"#" "$HERE/Cargo.toml" > "$ALT/Cargo.toml"
    HERE="$ALT"
    TARGET_DIR="/verif/.cache/replay-target-$KEY"
fi
mkdir -p "$TARGET_DIR"
# Start from /repo's lock so the crate under test is built with its pinned dependency versions;
# cargo adds the few extra crates (serde_json, ...) from the offline registry cache.
cp "$REPO/Cargo.lock" "$HERE/Cargo.lock"
cd "$HERE"
cargo build --profile "$PROFILE" --offline --quiet --target-dir "$TARGET_DIR" >&2
echo "$TARGET_DIR/$PROFILE/verif-replay"
