#!/bin/sh
# Build verif-replay and check its replies on a fixed set of commands. Exit 0 iff everything passes.
set -eu
HERE="$(cd "$(dirname "$0")" && pwd)"
BIN="$("$HERE/build.sh")"
export BIN HERE
# VERIF_REPLAY_SKIP_LEAK_DEMO=1 skips the ct_trace leak demonstration (a ~15 s scratch build under /tmp).
exec python3 - <<'PYEOF'
import hashlib, hmac as pyhmac, json, os, shutil, subprocess, sys, tempfile, time

BIN = os.environ["BIN"]
HERE = os.environ["HERE"]
SECRET = "wJalrXUtnFEMI/K7MDENG+bPxRfiCYEXAMPLEKEY"
T0 = {"secs": 1440938160, "nanos": 0}          # 2015-08-30T12:36:00Z
SIG = "5fa00fa31553b73ebf1942676e86291e8372ff2a2260956d9b8aae1d763fbf31"
SUITE = "/repo/src/aws-sig-v4-test-suite"

def hx(s):
    return (s.encode("latin-1") if isinstance(s, str) else s).hex()

def auth_header(sig=SIG):
    return ("AWS4-HMAC-SHA256 Credential=AKIDEXAMPLE/20150830/us-east-1/service/aws4_request, "
            "SignedHeaders=host;x-amz-date, Signature=" + sig)

def vanilla_request(sig=SIG, **extra):
    r = {"method": "GET", "uri": "/",
         "headers": [["Host", hx("example.amazonaws.com")], ["X-Amz-Date", hx("20150830T123600Z")],
                     ["Authorization", hx(auth_header(sig))]]}
    r.update(extra)
    return r

def validate(sig=SIG, provider=None, req_extra=None, **kw):
    p = {"result": {"secret": SECRET}, "principal_user": "test"}
    p.update(provider or {})
    c = {"op": "validate", "request": vanilla_request(sig, **(req_extra or {})), "region": "us-east-1",
         "service": "service", "server_time": T0, "provider": p}
    c.update(kw)
    return c

tests = []      # (name, command-or-raw-line, check function)
def t(name, cmd, check):
    tests.append((name, cmd, check))

def expect(cond, why):
    if not cond:
        raise AssertionError(why)

def eq(a, b):
    expect(a == b, f"expected {b!r}, got {a!r}")

def is_err(r, kind, status=None):
    e = r.get("err") if "err" in r else r.get("result", {}).get("err")
    expect(isinstance(e, dict), f"expected an err, got {r!r}")
    eq(e["kind"], kind)
    if status is not None:
        eq(e["status"], status)

# --- full pipeline ---------------------------------------------------------------------------
def chk_vanilla(r):
    ok = r["result"].get("ok")
    expect(ok is not None, f"expected ok, got {r['result']!r}")
    eq(ok["method"], "GET"); eq(ok["uri"], "/"); eq(ok["version"], "HTTP/1.1"); eq(ok["body_hex"], "")
    eq([h[0] for h in ok["headers"]], ["host", "x-amz-date", "authorization"])
    expect("test" in ok["principal"], ok["principal"])
    eq(r["provider"]["poll_ready_calls"], 1)
    eq(r["provider"]["calls"], [{"access_key": "AKIDEXAMPLE", "session_token": None, "date": [2015, 8, 30],
                                 "region": "us-east-1", "service": "service"}])
    eq(r["provider"]["events"], ["poll_ready:ready", "call", "future:ready"])
    eq(r["polls"], 1); eq(r["logs"], []); eq(r["repeat_equal"], True)
t("validate get-vanilla", validate(), chk_vanilla)

bad_sig = SIG[:-1] + ("0" if SIG[-1] != "0" else "1")
def chk_bad_sig(r):
    is_err(r, "SignatureDoesNotMatch", 403)
    eq(len(r["provider"]["calls"]), 1)
t("validate wrong signature", validate(bad_sig), chk_bad_sig)

for kind in ("bytes", "vec", "unit"):
    t(f"validate body_kind {kind}", validate(req_extra={"body_kind": kind}), lambda r: expect("ok" in r["result"], r))
t("validate repeat 25", validate(repeat=25), lambda r: (expect("ok" in r["result"], r), eq(r["repeat_equal"], True)))
t("validate S3 options + vec requirements",
  validate(options={"s3": True}, requirements={"kind": "vec", "always": ["Content-Type"]}),
  lambda r: (is_err(r, "SignatureDoesNotMatch", 403),
             expect("'Content-Type' must be a 'SignedHeader'" in r["result"]["err"]["msg"], r),
             eq(r["provider"]["calls"], [])))

def chk_pending(r):
    expect("ok" in r["result"], r["result"])
    eq(r["provider"]["events"], ["poll_ready:pending", "poll_ready:pending", "poll_ready:ready", "call",
                                 "future:pending", "future:pending", "future:ready"])
    eq(r["provider"]["poll_ready_calls"], 3); eq(r["polls"], 5)
t("provider pending 2+2", validate(provider={"ready_pending": 2, "future_pending": 2}), chk_pending)

t("provider err InvalidClientTokenId",
  validate(provider={"result": {"err": {"sig": {"kind": "InvalidClientTokenId", "msg": "no such key"}}}}),
  lambda r: (is_err(r, "InvalidClientTokenId", 403), eq(r["result"]["err"]["msg"], "no such key")))
t("provider err foreign",
  validate(provider={"result": {"err": {"foreign": "db down"}}}),
  lambda r: (is_err(r, "InternalServiceError", 500), eq(r["result"]["err"]["msg"], "db down"),
             eq(r["result"]["err"]["code"], "InternalFailure")))
t("provider err IO", validate(provider={"result": {"err": {"sig": {"kind": "IO", "msg": "disk"}}}}),
  lambda r: is_err(r, "IO", 500))
t("provider ready_err", validate(provider={"ready_pending": 1, "ready_err": {"sig": {"kind": "ExpiredToken", "msg": "old"}}}),
  lambda r: (is_err(r, "ExpiredToken", 403),
             eq(r["provider"]["events"], ["poll_ready:pending", "poll_ready:err"]), eq(r["provider"]["calls"], [])))
t("provider never ready", validate(provider={"ready_pending": 5000}), lambda r: eq(r, {"bad_input": "never ready"}))
t("provider zero signing key", validate(provider={"result": {"signing_key_hex": "00" * 32}}),
  lambda r: is_err(r, "SignatureDoesNotMatch", 403))
t("provider non-zero signing key", validate(provider={"result": {"signing_key_hex": "01" * 32}}),
  lambda r: expect("bad_input" in r and "all-zero" in r["bad_input"], r))
t("provider session data", validate(provider={"session": {"k": "v"}}),
  lambda r: expect('"k"' in r["result"]["ok"]["session_data"] and '"v"' in r["result"]["ok"]["session_data"], r))

def chk_trace(r):
    expect("ok" in r["result"], r["result"])
    expect(len(r["logs"]) > 0, "no logs captured at trace level")
    expect(all(len(l) == 3 and l[0] in ("TRACE", "DEBUG") for l in r["logs"]), r["logs"])
    expect(any("String to sign" in l[2] for l in r["logs"]), r["logs"])
    expect(all(l[1].startswith("scratchstack_aws_signature") for l in r["logs"]), r["logs"])
t("validate log_level trace", validate(log_level="trace"), chk_trace)
t("validate log_level debug (err path)", validate(provider={"result": {"err": {"foreign": "x"}}}, log_level="debug"),
  lambda r: eq([l[0] for l in r["logs"]], ["DEBUG"]))
t("validate after trace: logs off again", validate(), lambda r: eq(r["logs"], []))

# --- canonical path / query / elements ---------------------------------------------------------
t("canon_path dots", {"op": "canon_path", "path": "/a/./b/../c//d"}, lambda r: eq(r, {"ok": "/a/c/d"}))
t("canon_path s3", {"op": "canon_path", "path": "/a/./b/../c//d", "s3": True}, lambda r: eq(r, {"ok": "/a/./b/../c//d"}))
t("canon_path relative", {"op": "canon_path", "path": "a"}, lambda r: is_err(r, "InvalidURIPath", 400))
t("canon_path above root", {"op": "canon_path", "path": "/../x"}, lambda r: is_err(r, "InvalidURIPath", 400))
t("canon_query", {"op": "canon_query", "query": "b=2&a=1", "repeat": 20},
  lambda r: eq(r, {"ok": "a=1&b=2", "all_equal": True, "map": [["a", ["1"]], ["b", ["2"]]]}))
t("canon_query bad escape", {"op": "canon_query", "query": "a=%zz"}, lambda r: is_err(r, "MalformedQueryString", 400))
t("norm_element path", {"op": "norm_element", "s": "a%2f~%7e b", "kind": "path"}, lambda r: eq(r, {"ok": "a%2F~~%20b"}))
t("norm_element query err", {"op": "norm_element", "s": "a%2", "kind": "query"}, lambda r: is_err(r, "MalformedQueryString", 400))
t("unescape", {"op": "unescape", "s": "a%20b"}, lambda r: eq(r, {"ok": "a b"}))
t("unescape panics", {"op": "unescape", "s": "a%2"},
  lambda r: (expect("panic" in r and "canonical.rs" in r["location"], r)))
t("header_value", {"op": "header_value", "hex": hx("  a   b  ")}, lambda r: eq(r, {"ok_hex": hx("a b")}))
t("trim_ascii", {"op": "trim_ascii", "hex": hx(" \ta\n ")},
  lambda r: eq(r, {"ok_hex": hx("a"), "start_hex": hx("a\n "), "end_hex": hx(" \ta")}))
t("latin1", {"op": "latin1", "hex": "e9"}, lambda r: eq(r, {"ok": "é"}))
def chk_kernels(r):
    eq(len(r["unreserved"]), 256); eq(len(r["upper_hex"]), 256)
    want = [chr(b).isalnum() and b < 128 or chr(b) in "-._~" for b in range(256)]
    eq(r["unreserved"], want)
    eq(r["upper_hex"], ["%02X" % b for b in range(256)])
t("bytes_kernels", {"op": "bytes_kernels"}, chk_kernels)

# --- dates ---------------------------------------------------------------------------------
t("parse_iso basic", {"op": "parse_iso", "s": "20150830T123600Z"},
  lambda r: eq(r, {"ok": {"secs": 1440938160, "nanos": 0, "offset": 0}}))
t("parse_iso extended+frac+offset", {"op": "parse_iso", "s": "2015-08-30T12:36:00.5+01:00"},
  lambda r: eq(r, {"ok": {"secs": 1440934560, "nanos": 500000000, "offset": 3600}}))
t("parse_iso Feb 30", {"op": "parse_iso", "s": "2015-02-30T00:00:00Z"},
  lambda r: expect(isinstance(r.get("err"), str), r))

# --- keys ----------------------------------------------------------------------------------
t("from_str 40/44", {"op": "from_str", "secret": SECRET, "m": 44}, lambda r: eq(r, {"ok": {"as_ref_hex": hx(SECRET)}}))
t("from_str too long", {"op": "from_str", "secret": SECRET + "x", "m": 44}, lambda r: eq(r, {"err": "KeyTooLongError"}))
# Known defect in /repo (short secrets panic); accept either, but the process must keep serving.
t("from_str short (ok or panic)", {"op": "from_str", "secret": "abc", "m": 44, "id": "short"},
  lambda r: (eq(r["id"], "short"),
             expect(r.get("ok") == {"as_ref_hex": hx("abc")} or ("panic" in r and "signing_key.rs" in r["location"]), r)))
t("alive after from_str short", {"op": "sha256", "hex": "", "id": 7},
  lambda r: eq(r, {"id": 7, "ok_hex": hashlib.sha256(b"").hexdigest()}))
t("from_str m=64", {"op": "from_str", "secret": "x" * 60, "m": 64}, lambda r: expect(r == {"ok": {}} or "panic" in r, r))
t("from_str bad m", {"op": "from_str", "secret": "x", "m": 7}, lambda r: expect("bad_input" in r, r))
def chk_derive(service, kservice_prefix):
    def chk(r):
        expect(r["kdate"].startswith("0138c7a6cbd60aa7"), r["kdate"])
        expect(r["kregion"].startswith("f33d5808504bf348"), r["kregion"])
        if kservice_prefix:
            expect(r["kservice"].startswith(kservice_prefix), r["kservice"])
        k = pyhmac.new(("AWS4" + SECRET).encode(), b"20150830", hashlib.sha256).digest()
        for part in ("us-east-1", service, "aws4_request"):
            k = pyhmac.new(k, part.encode(), hashlib.sha256).digest()
        eq(r["ksigning"], k.hex())
        eq(r["shortcuts_equal"], True); eq(len(r["shortcuts"]), 6)
    return chk
t("derive service", {"op": "derive", "secret": SECRET, "date": [2015, 8, 30], "region": "us-east-1", "service": "service"},
  chk_derive("service", None))
t("derive example", {"op": "derive", "secret": SECRET, "date": [2015, 8, 30], "region": "us-east-1", "service": "example"},
  chk_derive("example", "c60cc4b1"))
t("derive bad date", {"op": "derive", "secret": SECRET, "date": [2015, 2, 30], "region": "r", "service": "s"},
  lambda r: expect("bad_input" in r, r))
t("derive long secret", {"op": "derive", "secret": "x" * 41, "date": [2015, 1, 1], "region": "r", "service": "s"},
  lambda r: expect("bad_input" in r, r))
t("hmac", {"op": "hmac", "key_hex": hx("key"), "msg_hex": hx("msg")},
  lambda r: eq(r, {"ok_hex": pyhmac.new(b"key", b"msg", hashlib.sha256).hexdigest()}))
t("sha256", {"op": "sha256", "hex": hx("abc")}, lambda r: eq(r, {"ok_hex": hashlib.sha256(b"abc").hexdigest()}))

# --- errors ----------------------------------------------------------------------------------
def chk_table(r):
    rows = r["rows"]
    expect(len(rows) >= 12, f"only {len(rows)} rows")
    status = {"ExpiredToken": 403, "IO": 500, "InternalServiceError": 500, "InvalidBodyEncoding": 400,
              "InvalidClientTokenId": 403, "InvalidContentType": 403, "InvalidRequestMethod": 400,
              "IncompleteSignature": 400, "InvalidURIPath": 400, "MalformedQueryString": 400,
              "MissingAuthenticationToken": 400, "SignatureDoesNotMatch": 403}
    eq(sorted({row["kind"] for row in rows}), sorted(status))
    for row in rows:
        eq(row["status"], status[row["kind"]])
        eq(row["display"], "m" if row["payload"] == "m" else "")
        eq(row["code"], "InternalFailure" if row["status"] == 500 else row["kind"])
    eq(len([row for row in rows if row["kind"] == "SignatureDoesNotMatch"]), 2)
    expect(all(x["same"] for x in r["from_box_sig"]) and len(r["from_box_sig"]) == len(rows), r["from_box_sig"])
    eq(r["from_box_foreign"]["kind"], "InternalServiceError"); eq(r["from_box_foreign"]["status"], 500)
t("error_table", {"op": "error_table"}, chk_table)

# --- requirements ------------------------------------------------------------------------------
t("requirements none", {"op": "requirements", "requirements": {"kind": "none"}},
  lambda r: eq(r, {"always": [], "if_in": [], "prefixes": []}))
t("requirements slice", {"op": "requirements", "requirements": {"kind": "slice", "always": ["A", "b"], "prefixes": ["x-"]}},
  lambda r: eq(r, {"always": ["A", "b"], "if_in": [], "prefixes": ["x-"]}))
t("requirements vec+ops", {"op": "requirements", "requirements": {
      "kind": "vec", "always": ["Content-Type", "Qwerty"], "if_in": ["Foo"], "prefixes": ["x-amz"],
      "ops": [["remove_always_present", "QWERTY"], ["add_prefix", "a-am2"], ["add_if_in_request", "Bar"], ["remove_if_in_request", "foo"]]}},
  lambda r: eq(r, {"always": ["Content-Type"], "if_in": ["Bar"], "prefixes": ["x-amz", "a-am2"]}))
t("requirements bad op", {"op": "requirements", "requirements": {"kind": "vec", "ops": [["frobnicate", "x"]]}},
  lambda r: expect("bad_input" in r, r))

# --- canonical ---------------------------------------------------------------------------------
creq = open(f"{SUITE}/get-vanilla/get-vanilla.creq", "rb").read().replace(b"\r", b"")
sts = open(f"{SUITE}/get-vanilla/get-vanilla.sts", "rb").read().replace(b"\r", b"")
def chk_canonical(r):
    ok = r["ok"]
    eq(ok["method"], "GET"); eq(ok["canonical_path"], "/"); eq(ok["canonical_query"], "")
    eq(ok["body_sha256"], hashlib.sha256(b"").hexdigest())
    eq(bytes.fromhex(ok["canonical_request_hex"]), creq)
    eq(ok["canonical_request_sha256"], hashlib.sha256(creq).hexdigest())
    eq([h[0] for h in ok["headers"]], ["authorization", "host", "x-amz-date"])
    ap = ok["auth_params"]["ok"]
    eq(ap["credential"], "AKIDEXAMPLE/20150830/us-east-1/service/aws4_request"); eq(ap["signature"], SIG)
    eq(ap["signed_headers"], ["host", "x-amz-date"]); eq(ap["timestamp_str"], "20150830T123600Z"); eq(ap["session_token"], None)
    au = ok["authenticator"]["ok"]
    eq(au["timestamp"], T0); eq(bytes.fromhex(au["string_to_sign_hex"]), sts)
    eq(au["canonical_request_sha256"], hashlib.sha256(creq).hexdigest())
    expect(SIG in au["debug"], au["debug"])
t("canonical get-vanilla vs AWS .creq/.sts",
  {"op": "canonical", "request": vanilla_request(), "signed_headers": ["host", "x-amz-date"], "requirements": {"kind": "none"}},
  chk_canonical)
t("canonical form folding",
  {"op": "canonical", "options": {"url_encode_form": True},
   "request": {"method": "POST", "uri": "/p?z=1", "body_hex": hx("a=b c&d=%2f"),
               "headers": [["Content-Type", hx("application/x-www-form-urlencoded; charset=utf-8")]]},
   "requirements": {"kind": "none"}},
  lambda r: (eq(r["ok"]["canonical_query"], "a=b%20c&d=%2F&z=1"), eq(r["ok"]["returned_uri"], "/p?a=b%20c&d=%2F&z=1"),
             eq(r["ok"]["returned_body_hex"], ""), is_err(r["ok"]["auth_params"], "MissingAuthenticationToken", 400),
             is_err(r["ok"]["authenticator"], "MissingAuthenticationToken", 400)))
t("canonical bad path escape", {"op": "canonical", "request": {"uri": "/a%zz"}}, lambda r: is_err(r, "InvalidURIPath", 400))
t("canonical uri_hex", {"op": "canonical", "request": {"uri_hex": hx("/x?q=1")}}, lambda r: eq(r["ok"]["canonical_query"], "q=1"))

# --- authenticator -------------------------------------------------------------------------------
A = {"op": "authenticator", "canonical_request_sha256": hashlib.sha256(creq).hexdigest(),
     "credential": "AKIDEXAMPLE/20150830/us-east-1/service/aws4_request", "session_token": None, "signature": SIG,
     "timestamp": T0, "region": "us-east-1", "service": "service", "server_time": T0}
t("authenticator prevalidate", dict(A, call="prevalidate"), lambda r: eq(r["result"], {"ok": None}))
t("authenticator prevalidate expired", dict(A, call="prevalidate", mismatch_secs=60, server_time={"secs": T0["secs"] + 61}),
  lambda r: (is_err(r, "SignatureDoesNotMatch", 403), expect("Signature expired" in r["result"]["err"]["msg"], r)))
t("authenticator validate_signature", dict(A, call="validate_signature", session_token="tok",
                                           provider={"result": {"secret": SECRET}, "future_pending": 1}),
  lambda r: (expect("ok" in r["result"], r), eq(r["provider"]["calls"][0]["session_token"], "tok"), eq(r["polls"], 2)))
t("authenticator string_to_sign", dict(A, call="string_to_sign"), lambda r: eq(bytes.fromhex(r["result"]["ok"]["hex"]), sts))
t("authenticator string_to_sign w/o slash panics", dict(A, call="string_to_sign", credential="AKID"),
  lambda r: expect("panic" in r["result"] and "auth.rs" in r["result"]["location"], r))
t("authenticator debug", dict(A, call="debug"), lambda r: expect("SigV4Authenticator" in r["result"]["ok"]["debug"], r))

# --- fmt ---------------------------------------------------------------------------------------
def chk_fmt(r):
    items = {i["what"]: i["text"] for i in r["items"]}
    for k in ("KSecretKey", "KDateKey", "KRegionKey", "KServiceKey", "KSigningKey"):
        eq(items[k + " Debug"], k); eq(items[k + " Display"], k)
    for need in ("GetSigningKeyRequest Debug", "GetSigningKeyResponse Debug", "SigV4AuthenticatorResponse Debug",
                 "KeyTooLongError Debug", "KeyTooLongError Display"):
        expect(need in items, f"missing {need}")
    expect(all(SECRET not in text for text in items.values()), "secret leaked")
t("fmt", {"op": "fmt", "secret": SECRET, "date": [2015, 8, 30], "region": "us-east-1", "service": "service"}, chk_fmt)

# --- malformed input ---------------------------------------------------------------------------
t("invalid JSON", "this is not json", lambda r: expect("bad_input" in r, r))
t("invalid UTF-8", b'{"op":"latin1","hex":"\xff"}', lambda r: expect("bad_input" in r, r))
t("not an object", "[1,2]", lambda r: expect("bad_input" in r, r))
t("unknown op", {"op": "nope", "id": [1, "a"]}, lambda r: (expect("bad_input" in r, r), eq(r["id"], [1, "a"])))
t("missing field", {"op": "canon_path"}, lambda r: expect("bad_input" in r, r))
t("bad hex", {"op": "latin1", "hex": "zz"}, lambda r: expect("bad_input" in r, r))
t("http rejects uri", validate(req_extra={"uri": "/a b"}), lambda r: expect("bad_input" in r and "uri" in r["bad_input"], r))
t("http rejects header value", {"op": "canonical", "request": {"uri": "/", "headers": [["x", "0a"]]}},
  lambda r: expect("bad_input" in r, r))
t("http rejects header name", {"op": "canonical", "request": {"uri": "/", "headers": [["a b", "00"]]}},
  lambda r: expect("bad_input" in r, r))
t("instant out of range", validate(server_time={"secs": 2**62}), lambda r: expect("bad_input" in r, r))

# --- ct_trace / memcmp_probe ---------------------------------------------------------------------
CT = {"op": "ct_trace", "canonical_request_sha256": hashlib.sha256(creq).hexdigest(),
      "credential": "AKIDEXAMPLE/20150830/us-east-1/service/aws4_request", "session_token": None,
      "timestamp": T0, "region": "us-east-1", "service": "service", "server_time": T0, "mismatch_secs": 900,
      "provider": {"result": {"secret": SECRET}}}
MISMATCH_MSG = "The request signature we calculated does not match the signature you provided."
def ct_runs_ok(r, n):
    expect("runs" in r, r)
    eq(len(r["runs"]), n)
    for x in r["runs"]:
        expect("error" not in x, x)
        expect(isinstance(x["steps"], int) and 1000 < x["steps"] < 5000000, x)
        eq(len(x["trace_hash"]), 64)
    eq(r["expected_signature"], SIG)
def chk_ct_const_time(r):
    # The property as it holds for the unmodified crate (subtle's ct_eq): the executed instruction
    # sequence does not depend on where the presented signature first differs from the expected one.
    ct_runs_ok(r, 4)
    eq([x["relative"][0] for x in r["runs"]], [0, 1, 31, 63])
    for x in r["runs"]:
        eq(x["outcome"], "SignatureDoesNotMatch"); expect(x["msg"].startswith(MISMATCH_MSG), x["msg"])
        eq(x["first_divergence"], None); eq(x["polls"], 1)
        eq(sum(a != b for a, b in zip(x["signature"], SIG)), 1)
        expect(x["signature"][x["relative"][0]] == x["relative"][1] != SIG[x["relative"][0]], x)
    eq(len({x["steps"] for x in r["runs"]}), 1); eq(len({x["trace_hash"] for x in r["runs"]}), 1)
    eq(len({x["cmp_bytes"] for x in r["runs"]}), 1)
    eq(r["all_equal"], True)
t("ct_trace positions 0/1/31/63: identical traces",
  dict(CT, relative_to_expected=[[0, "0"], [1, "0"], [31, "0"], [63, "0"]]), chk_ct_const_time)
def chk_ct_ok(r):
    ct_runs_ok(r, 3)
    ok, wrong_a, wrong_b = r["runs"]
    eq(ok["signature"], SIG); eq(ok["outcome"], "ok"); eq(ok["msg"], None); eq(ok["first_divergence"], None)
    eq(wrong_a["outcome"], "SignatureDoesNotMatch"); eq(wrong_b["outcome"], "SignatureDoesNotMatch")
    eq(wrong_a["relative"], [5, "a"])        # SIG[5] is 'f', so "f" had to be replaced by another letter
    eq(wrong_b["relative"], [6, "b"])        # SIG[6] is 'a', so "a" had to be replaced by another letter
    eq(wrong_a["trace_hash"], wrong_b["trace_hash"])
    # accept and reject take different paths after the comparison: the tracer must see that
    expect(ok["trace_hash"] != wrong_a["trace_hash"], "ok and mismatch traces are identical")
    expect(isinstance(wrong_a["first_divergence"], int) and wrong_a["first_divergence"] > 1000, wrong_a)
    expect(wrong_a["divergence_at"]["rip"] != wrong_a["divergence_at"]["ref_rip"], wrong_a)
    eq(r["all_equal"], False)
t("ct_trace correct signature is accepted (signatures + relative_to_expected)",
  dict(CT, signatures=[SIG], relative_to_expected=[[5, "f"], [6, "a"]]), chk_ct_ok)
t("ct_trace expired request (fails in prevalidate, provider untouched)",
  dict(CT, signatures=[SIG], server_time={"secs": T0["secs"] + 901}),
  lambda r: (ct_runs_ok(r, 1), eq(r["runs"][0]["outcome"], "SignatureDoesNotMatch"),
             expect("Signature expired" in r["runs"][0]["msg"], r), eq(r["runs"][0]["polls"], 1), eq(r["all_equal"], True)))
t("ct_trace provider error", dict(CT, signatures=[SIG], provider={"result": {"err": {"foreign": "db down"}}}),
  lambda r: (eq(r["runs"][0]["outcome"], "InternalServiceError"), eq(r["expected_signature"], None)))
t("ct_trace never ready", dict(CT, signatures=[SIG], provider={"result": {"secret": SECRET}, "future_pending": 5000}),
  lambda r: (eq(r["runs"][0]["outcome"], "never ready"), eq(r["runs"][0]["polls"], 1000)))
def chk_ct_cap(r):
    eq(r["all_equal"], False); eq(r["max_steps"], 2000); eq(len(r["runs"]), 2)
    for x in r["runs"]:
        expect("step cap of 2000" in x["error"], x)
        eq((x["outcome"], x["steps"], x["trace_hash"], x["first_divergence"]), (None, None, None, None))
t("ct_trace step cap: child killed, per-run error", dict(CT, signatures=[SIG, bad_sig], max_steps=2000), chk_ct_cap)
t("ct_trace bad max_steps", dict(CT, signatures=[SIG], max_steps=5000001), lambda r: expect("bad_input" in r, r))
t("ct_trace without signatures", CT, lambda r: expect("bad_input" in r, r))
t("ct_trace empty list", dict(CT, signatures=[]), lambda r: eq(r["runs"], []))
t("ct_trace position out of range", dict(CT, relative_to_expected=[[64, "0"]]), lambda r: expect("bad_input" in r, r))
t("ct_trace relative without expected", dict(CT, relative_to_expected=[[0, "0"]], provider={"result": {"err": {"foreign": "x"}}}),
  lambda r: expect("bad_input" in r, r))
t("alive and logging after ct_trace", validate(log_level="debug", provider={"result": {"err": {"foreign": "x"}}}),
  lambda r: eq([l[0] for l in r["logs"]], ["DEBUG"]))
def chk_probe(pos, looked_at):
    def chk(r):
        # `==` on byte slices is lowered to bcmp, `cmp` to memcmp; both must land in the byte-wise,
        # early-exit replacements defined in this binary (not in libc's vectorised routines).
        eq(r["eq"], {"bcmp_calls": 1, "memcmp_calls": 0, "bytes_compared": looked_at, "result": pos is None})
        eq(r["cmp"], {"bcmp_calls": 0, "memcmp_calls": 1, "bytes_compared": looked_at,
                      "result": "Equal" if pos is None else "Greater"})
    return chk
for pos, looked_at in ((None, 64), (0, 1), (31, 32), (63, 64)):
    t(f"memcmp_probe pos={pos}", {"op": "memcmp_probe", "len": 64, "pos": pos}, chk_probe(pos, looked_at))
t("still alive at the end", {"op": "canon_path", "path": "/", "id": "end"}, lambda r: eq(r, {"ok": "/", "id": "end"}))

# ---------------------------------------------------------------------------------------------
def raw(cmd):
    if isinstance(cmd, bytes):
        return cmd
    return (cmd if isinstance(cmd, str) else json.dumps(cmd)).encode()

# Batch mode: everything in one go; stdout must hold exactly one reply line per command, stderr nothing.
p = subprocess.run([BIN], input=b"\n".join(raw(c) for _, c, _ in tests) + b"\n\n", capture_output=True, timeout=600)
failures = []
if p.returncode != 0:
    failures.append(f"exit status {p.returncode}")
if p.stderr:
    failures.append(f"stderr not empty: {p.stderr[:300]!r}")
lines = p.stdout.decode().splitlines()
if len(lines) != len(tests):
    failures.append(f"{len(tests)} commands but {len(lines)} reply lines")
passed = 0
for (name, _, check), line in zip(tests, lines):
    try:
        check(json.loads(line))
        passed += 1
    except Exception as e:          # noqa: BLE001 - report every kind of failure
        failures.append(f"{name}: {type(e).__name__}: {e}\n      reply: {line[:400]}")

# Interactive mode: a reply must arrive (flushed) before the next command is sent, also after a panic.
ip = subprocess.Popen([BIN], stdin=subprocess.PIPE, stdout=subprocess.PIPE, stderr=subprocess.PIPE)
try:
    for cmd, key in (({"op": "unescape", "s": "%"}, "panic"), ({"op": "canon_path", "path": "/x/"}, "ok"),
                     ({"op": "from_str", "secret": "", "m": 0}, None), ({"op": "canon_path", "path": "/y"}, "ok")):
        ip.stdin.write(raw(cmd) + b"\n"); ip.stdin.flush()
        reply = json.loads(ip.stdout.readline())
        if key and key not in reply:
            failures.append(f"interactive: expected {key} in {reply}")
    ip.stdin.close()
    if ip.wait(timeout=10) != 0 or ip.stderr.read():
        failures.append("interactive: non-zero exit or stderr output")
    else:
        passed += 1
finally:
    if ip.poll() is None:
        ip.kill()

# --one mode
one = subprocess.run([BIN, "--one", json.dumps({"op": "canon_path", "path": "/a/../b", "id": 1})], capture_output=True, timeout=10)
if one.returncode == 0 and json.loads(one.stdout) == {"ok": "/b", "id": 1} and one.stdout.count(b"\n") == 1:
    passed += 1
else:
    failures.append(f"--one: {one.returncode} {one.stdout!r} {one.stderr!r}")

# Throughput (line mode, canon_path).
N = 100000
blob = b"".join(raw({"op": "canon_path", "path": f"/a/./b{i}/../c//d", "id": i}) + b"\n" for i in range(N))
t0 = time.time()
tp = subprocess.run([BIN], input=blob, capture_output=True, timeout=300)
dt = time.time() - t0
n_replies = tp.stdout.count(b"\n")
if n_replies != N:
    failures.append(f"throughput run: {n_replies} replies for {N} commands")
print(f"throughput: {N} canon_path commands in {dt:.2f}s = {N / dt:.0f} commands/s (line mode, one process)")

# ct_trace must be able to SEE a leak: build verif-replay against a scratch copy of /repo whose signature
# comparison is `==` (-> bcmp -> this binary's byte-wise early-exit loop) instead of subtle's ct_eq.
extra = 0
if os.environ.get("VERIF_REPLAY_SKIP_LEAK_DEMO") == "1":
    print("ct_trace leak demonstration: skipped (VERIF_REPLAY_SKIP_LEAK_DEMO=1)")
else:
    extra = 1
    scratch = tempfile.mkdtemp(prefix="verif-ct-", dir="/tmp")
    try:
        shutil.copytree("/repo", scratch + "/repo", ignore=shutil.ignore_patterns("target", ".git", ".idea"))
        auth_rs = scratch + "/repo/src/auth.rs"
        src = open(auth_rs).read()
        CT_EQ = "signature_bytes.ct_eq(expected_signature_bytes).into()"
        if src.count(CT_EQ) != 1:
            raise AssertionError(f"/repo/src/auth.rs: expected exactly one {CT_EQ!r}")
        open(auth_rs, "w").write(src.replace(CT_EQ, "signature_bytes == expected_signature_bytes"))
        shutil.copytree(HERE, scratch + "/replay", ignore=shutil.ignore_patterns("target"))
        toml = open(scratch + "/replay/Cargo.toml").read()
        if toml.count('path = "/repo"') != 1:
            raise AssertionError("Cargo.toml: path dependency on /repo not found")
        open(scratch + "/replay/Cargo.toml", "w").write(toml.replace('path = "/repo"', f'path = "{scratch}/repo"'))
        b = subprocess.run(["cargo", "build", "--release", "--offline", "--quiet", "--target-dir", scratch + "/target"],
                           cwd=scratch + "/replay", capture_output=True, timeout=1200)
        if b.returncode != 0:
            raise AssertionError("scratch build failed: " + b.stderr.decode()[-600:])
        positions = [0, 31, 63]
        def steps_by_position(binary):
            out = subprocess.run([binary, "--one", json.dumps(dict(CT, relative_to_expected=[[p, "0"] for p in positions]))],
                                 capture_output=True, timeout=600)
            return json.loads(out.stdout)
        leaky, sound = steps_by_position(scratch + "/target/release/verif-replay"), steps_by_position(BIN)
        for name, r in (("== variant", leaky), ("ct_eq (unmodified /repo)", sound)):
            print(f"ct_trace {name}: " + ", ".join(
                f"pos {x['relative'][0]}: steps={x['steps']} bcmp_calls={x['bcmp_calls']} memcmp_calls={x['memcmp_calls']} "
                f"cmp_bytes={x['cmp_bytes']}" for x in r["runs"]) + f"; all_equal={r['all_equal']}")
        ls, ss = [x["steps"] for x in leaky["runs"]], [x["steps"] for x in sound["runs"]]
        expect(all(x["outcome"] == "SignatureDoesNotMatch" and "error" not in x for x in leaky["runs"] + sound["runs"]), leaky)
        expect(ls[0] < ls[1] < ls[2], f"== variant: steps do not grow with the position: {ls}")
        eq(leaky["all_equal"], False); eq(len({x["trace_hash"] for x in leaky["runs"]}), 3)
        expect(all(isinstance(x["first_divergence"], int) for x in leaky["runs"][1:]), leaky["runs"])
        # one more bcmp call than the sound build, and it looks at pos+1 bytes
        eq([x["bcmp_calls"] - y["bcmp_calls"] for x, y in zip(leaky["runs"], sound["runs"])], [1, 1, 1])
        eq([x["cmp_bytes"] - y["cmp_bytes"] for x, y in zip(leaky["runs"], sound["runs"])], [p + 1 for p in positions])
        # constant cost per additional byte compared
        eq((ls[2] - ls[1]) * (positions[1] - positions[0]), (ls[1] - ls[0]) * (positions[2] - positions[1]))
        # where do the traces part? Resolve the address with nm: it must be inside this binary's `bcmp`.
        at = leaky["runs"][1]["divergence_at"]
        obj, off = at["last_common_rip"].split("+")
        syms = sorted((int(a, 16), n) for a, k, n in
                      (l.split()[:3] for l in subprocess.run(["nm", "--defined-only", scratch + "/target/release/verif-replay"],
                                                             capture_output=True, text=True).stdout.splitlines() if len(l.split()) >= 3)
                      if k in "tTwW")
        inside = [n for a, n in syms if a <= int(off, 16)][-1]
        print(f"ct_trace == variant: traces part after the instruction at {at['last_common_rip']}, i.e. inside `{inside}`")
        eq((obj, inside), ("exe", "bcmp"))
        expect(ss[0] == ss[1] == ss[2] and sound["all_equal"] is True, f"unmodified crate: {ss}")
        passed += 1
    except Exception as e:          # noqa: BLE001
        failures.append(f"ct_trace leak demonstration: {type(e).__name__}: {e}")
    finally:
        shutil.rmtree(scratch, ignore_errors=True)

total = len(tests) + 2 + extra
print(f"selftest: {passed}/{total} checks passed")
for f in failures:
    print("FAIL " + f)
sys.exit(1 if failures or passed != total else 0)
PYEOF
