#!/bin/sh
# Build verif-replay against the current /repo working tree and print the path of the binary.
#   build.sh            release profile (what users of the crate get: overflow wraps)
#   build.sh --checked  profile "checked": release + overflow-checks + debug-assertions
# Re-runnable; cargo rebuilds when /repo's sources change (path dependency).
set -eu
HERE="$(cd "$(dirname "$0")" && pwd)"
TARGET_DIR="${VERIF_REPLAY_TARGET:-/verif/.cache/replay-target}"
PROFILE=release
[ "${1:-}" = "--checked" ] && PROFILE=checked
mkdir -p "$TARGET_DIR"
# Start from /repo's lock so the crate under test is built with its pinned dependency versions;
# cargo adds the few extra crates (serde_json, ...) from the offline registry cache.
cp /repo/Cargo.lock "$HERE/Cargo.lock"
cd "$HERE"
cargo build --profile "$PROFILE" --offline --quiet --target-dir "$TARGET_DIR" >&2
echo "$TARGET_DIR/$PROFILE/verif-replay"
