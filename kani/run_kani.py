#!/usr/bin/env python3
"""Run selected Kani proof harnesses of /verif/kani and write a JSON result file.

    python3 /verif/kani/run_kani.py --out result.json [--jobs N] [--timeout SECS] HARNESS|GROUP ...
    python3 /verif/kani/run_kani.py --list

* every harness is its own `cargo kani --exact --harness <mod>::<name>` process;
* at most N processes run concurrently, each worker owns one target dir
  (<cache>/kani-target/slot<i>) that it reuses sequentially, so the dependency build is paid
  once per slot and two cargo processes never share a target dir;
* each process runs under a wall-clock timeout and a 12 GB address-space limit;
* full logs go to <cache>/kani-logs/<name>.log and are parsed afterwards (never piped);
* a harness is SUCCESSFUL only if its log says `VERIFICATION:- SUCCESSFUL`; a timeout,
  a crash, an out-of-memory abort or a missing verdict is never a success;
* a FAILED harness is re-run once with concrete playback and the generated unit test is
  stored under `playback`.

The exit code is 0 unless the runner itself crashed; callers interpret the verdicts.
Only the Python standard library is used.
"""

import argparse
import json
import os
import queue
import re
import resource
import shutil
import signal
import subprocess
import sys
import threading
import time

HERE = os.path.dirname(os.path.abspath(__file__))

# name -> module, grouped. Keep in sync with src/*.rs (checked by --list --check-sources).
GROUPS = {
    "K1": ("k1_secret_key", [
        "k1_from_str_m44", "k1_from_str_m44_utf8", "k1_from_str_m8", "k1_from_str_m5",
        "k1_from_str_m4", "k1_from_str_m3", "k1_from_str_m0",
    ]),
    "K2": ("k2_ct_eq", ["k2_ct_eq_64", "k2_ct_eq_len"]),
    "K3": ("k3_chrono", [
        "k3_window_ordinary", "k3_window_yearend", "k3_window_leapday",
        "k3_window_y2100", "k3_window_y2k", "k3_window_epoch",
        "k3_date_ordinary", "k3_date_yearend", "k3_date_leapday",
        "k3_date_y2100", "k3_date_y2k", "k3_date_epoch",
        "k3_ctor_date", "k3_ctor_time", "k3_ctor_offset",
        "k3_local_pos", "k3_local_neg",
    ]),
    "K4": ("k4_bytes", ["k4_unreserved", "k4_upper_hex", "k4_trim_ascii"]),
    "K5": ("k5_errors", ["k5_error_table"]),
}
MODULE_OF = {h: mod for (mod, hs) in GROUPS.values() for h in hs}
ALL = [h for (_mod, hs) in GROUPS.values() for h in hs]

MEM_LIMIT_BYTES = 12 * 1024 ** 3
UNSTABLE_FLAGS = []  # e.g. ["-Z", "stubbing"]; no harness needs it at present


# --------------------------------------------------------------------------- sources

def declared_unwinds(crate_dir):
    """{harness: unwind bound} read from the `#[kani::unwind(n)]` attributes in src/*.rs."""
    out = {}
    src = os.path.join(crate_dir, "src")
    pat = re.compile(
        r"#\[kani::proof\]\s*(?:#\[[^\]]*\]\s*)*?#\[kani::unwind\((\d+)\)\]\s*(?:#\[[^\]]*\]\s*)*fn\s+(\w+)"
        r"|#\[kani::unwind\((\d+)\)\]\s*(?:#\[[^\]]*\]\s*)*?#\[kani::proof\]\s*(?:#\[[^\]]*\]\s*)*fn\s+(\w+)")
    for fn in sorted(os.listdir(src)):
        if not fn.endswith(".rs"):
            continue
        with open(os.path.join(src, fn), encoding="utf-8") as f:
            text = f.read()
        for m in pat.finditer(text):
            n, name = (m.group(1), m.group(2)) if m.group(1) else (m.group(3), m.group(4))
            out[name] = int(n)
    return out


def proof_names(crate_dir):
    names = []
    src = os.path.join(crate_dir, "src")
    for fn in sorted(os.listdir(src)):
        if fn.endswith(".rs"):
            with open(os.path.join(src, fn), encoding="utf-8") as f:
                names += re.findall(r"#\[kani::proof\](?:\s*#\[[^\]]*\])*\s*fn\s+(\w+)", f.read())
    return names


# --------------------------------------------------------------------------- log parsing

CHECK_RE = re.compile(r"^Check (\d+): (\S.*)$")
FIELD_RE = re.compile(r"^\s*- (Status|Description|Location): (.*)$")


def parse_log(text):
    """Parse a cargo-kani log (regular output format)."""
    checks = []
    cur = None
    for line in text.splitlines():
        m = CHECK_RE.match(line)
        if m:
            cur = {"n": int(m.group(1)), "id": m.group(2).strip(), "status": None,
                   "description": None, "location": None}
            checks.append(cur)
            continue
        if cur is not None:
            f = FIELD_RE.match(line)
            if f:
                key, val = f.group(1).lower(), f.group(2).strip()
                if key == "description":
                    # `"msg"`; assert!(c, "msg") is printed as `""msg""`
                    while len(val) >= 2 and val[0] == '"' and val[-1] == '"':
                        val = val[1:-1]
                cur[key] = val
            elif line.strip() != "":
                cur = None  # any other text ends the check block

    res = {}
    has_ok = re.search(r"^VERIFICATION:- SUCCESSFUL\b", text, re.M) is not None
    has_fail = re.search(r"^VERIFICATION:- FAILED\b", text, re.M) is not None
    if has_fail:
        res["verdict"] = "FAILED"
    elif has_ok:
        res["verdict"] = "SUCCESSFUL"
    else:
        res["verdict"] = "ERROR"

    failed, unwind_fail, covers = [], [], {}
    undetermined = 0
    error_status = 0
    for c in checks:
        is_cover = ".cover." in c["id"] or c["status"] in ("SATISFIED", "UNSATISFIABLE")
        if is_cover and c["status"] in ("SATISFIED", "UNSATISFIABLE", "UNREACHABLE", "UNDETERMINED"):
            key = c["description"] or c["id"]
            if key in covers:  # same message at two sites: keep them apart
                key = "%s [%s]" % (key, c["id"])
            covers[key] = c["status"]
            continue
        if c["status"] == "FAILURE":
            entry = {"check": c["id"], "description": c["description"], "location": c["location"]}
            if c["description"] and "unwinding assertion" in c["description"]:
                unwind_fail.append(entry)
            else:
                failed.append(entry)
        elif c["status"] == "UNDETERMINED":
            undetermined += 1
        elif c["status"] == "ERROR":
            error_status += 1
    res["failed_checks"] = failed
    res["unwinding_failures"] = unwind_fail
    res["covers"] = covers
    res["vacuous"] = any(v != "SATISFIED" for v in covers.values())
    res["undetermined_checks"] = undetermined
    res["n_checks"] = len(checks)
    m = re.search(r"^Verification Time: ([0-9.]+)s", text, re.M)
    res["verification_s"] = float(m.group(1)) if m else None

    # Anything that smells like an abnormal end overrides a success verdict.
    abnormal = []
    if error_status:
        abnormal.append("%d check(s) with Status: ERROR" % error_status)
    if re.search(r"CBMC failed|CBMC timed out|out of memory|std::bad_alloc|SIGKILL|SIGSEGV|"
                 r"error: could not compile|internal compiler error|Kani panicked|thread '.*' panicked",
                 text):
        abnormal.append("abnormal termination marker in log")
    if res["verdict"] == "SUCCESSFUL":
        if abnormal or undetermined or unwind_fail or failed:
            res["verdict"] = "ERROR"
            abnormal.append("success verdict contradicted by the log")
        m2 = re.search(r"(\d+) successfully verified harnesses, (\d+) failures, (\d+) total", text)
        if m2 and (m2.group(1), m2.group(2), m2.group(3)) != ("1", "0", "1"):
            res["verdict"] = "ERROR"
            abnormal.append("harness summary is not 1/0/1: " + m2.group(0))
    if abnormal:
        res["abnormal"] = abnormal
    return res


PLAYBACK_RE = re.compile(r"^#\[test\]\s*\nfn kani_concrete_playback_\w+\(\) \{.*?^\}", re.M | re.S)


def extract_playback(text):
    """Source text of the generated `#[test] fn kani_concrete_playback_*` functions.

    Kani prints one test per failed check and one per satisfied cover, without saying which is
    which; all of them are kept."""
    tests = []
    for t in PLAYBACK_RE.findall(text):
        if t not in tests:  # Kani sometimes prints the same test twice
            tests.append(t)
    return "\n\n".join(tests) if tests else None


def playback_values(playback):
    """[{test, values}]: the `// <value>` comments of each generated test, i.e. the concrete
    value of every `kani::any()` in call order (arrays element by element)."""
    if not playback:
        return []
    out = []
    for test in playback.split("\n\n#[test]"):
        name = re.search(r"fn (kani_concrete_playback_\w+)", test)
        vals = re.findall(r"^\s*// (.*)$", test, re.M)
        out.append({"test": name.group(1) if name else None, "values": vals})
    return out


# --------------------------------------------------------------------------- processes

def _preexec():
    # own session => own process group, so a timeout can kill cargo, kani-driver and cbmc
    os.setsid()
    resource.setrlimit(resource.RLIMIT_AS, (MEM_LIMIT_BYTES, MEM_LIMIT_BYTES))


def run_process(cmd, cwd, env, log_path, timeout):
    """Run cmd with output redirected to log_path. Returns (returncode|None, timed_out, wall_s)."""
    t0 = time.time()
    with open(log_path, "wb") as log:
        log.write(("$ " + " ".join(cmd) + "\n").encode())
        log.flush()
        proc = subprocess.Popen(cmd, cwd=cwd, env=env, stdin=subprocess.DEVNULL, stdout=log,
                                stderr=subprocess.STDOUT, preexec_fn=_preexec)
        timed_out = False
        try:
            rc = proc.wait(timeout=timeout)
        except subprocess.TimeoutExpired:
            timed_out = True
            rc = None
        finally:
            # kill whatever is left of the process group (by pgid == pid of the child)
            try:
                os.killpg(proc.pid, signal.SIGKILL)
            except (ProcessLookupError, PermissionError):
                pass
            try:
                proc.wait(timeout=30)
            except Exception:
                pass
    return rc, timed_out, time.time() - t0


def kani_cmd(name, target_dir, extra):
    return (["cargo", "kani"] + UNSTABLE_FLAGS + extra +
            ["--exact", "--harness", "%s::%s" % (MODULE_OF[name], name), "--target-dir", target_dir])


def run_harness(name, slot, cfg):
    target_dir = os.path.join(cfg["cache"], "kani-target", "slot%d" % slot)
    os.makedirs(target_dir, exist_ok=True)
    log_path = os.path.join(cfg["cache"], "kani-logs", name + ".log")

    rc, timed_out, wall = run_process(kani_cmd(name, target_dir, []), cfg["crate"], cfg["env"],
                                      log_path, cfg["timeout"])
    with open(log_path, "r", encoding="utf-8", errors="replace") as f:
        text = f.read()
    res = parse_log(text)
    if timed_out:
        res["verdict"] = "TIMEOUT"
    elif res["verdict"] == "SUCCESSFUL" and rc != 0:
        res["verdict"] = "ERROR"
        res.setdefault("abnormal", []).append("cargo kani exit code %r despite success line" % rc)
    res["exit_code"] = rc
    res["wall_s"] = round(wall, 2)
    res["log"] = log_path
    res["unwind"] = cfg["unwinds"].get(name)
    res["slot"] = slot
    res["playback"] = None

    if res["verdict"] == "FAILED" and not cfg["no_playback"]:
        pb_log = os.path.join(cfg["cache"], "kani-logs", name + ".playback.log")
        extra = ["-Z", "concrete-playback", "--concrete-playback=print"]
        _rc, pb_timeout, pb_wall = run_process(kani_cmd(name, target_dir, extra), cfg["crate"],
                                               cfg["env"], pb_log, cfg["timeout"])
        with open(pb_log, "r", encoding="utf-8", errors="replace") as f:
            res["playback"] = extract_playback(f.read())
        res["playback_values"] = playback_values(res["playback"])
        res["playback_log"] = pb_log
        res["playback_wall_s"] = round(pb_wall, 2)
        if pb_timeout:
            res["playback_timeout"] = True
    return res


def worker(slot, jobs, results, cfg, lock):
    while True:
        try:
            name = jobs.get_nowait()
        except queue.Empty:
            return
        try:
            res = run_harness(name, slot, cfg)
        except Exception as e:  # runner-side problem for this harness: report, never "success"
            res = {"verdict": "ERROR", "failed_checks": [], "unwinding_failures": [], "covers": {},
                   "vacuous": False, "unwind": cfg["unwinds"].get(name), "verification_s": None,
                   "wall_s": None, "log": None, "playback": None, "abnormal": ["runner: %r" % (e,)]}
        with lock:
            results[name] = res
            sys.stderr.write("[run_kani] %-24s %-10s verif %-8s wall %-7s%s\n" % (
                name, res["verdict"], res.get("verification_s"), res.get("wall_s"),
                "  VACUOUS" if res.get("vacuous") else ""))
            sys.stderr.flush()


# --------------------------------------------------------------------------- main

def expand(names):
    out = []
    for n in names:
        if n in GROUPS:
            out += GROUPS[n][1]
        elif n.upper() in GROUPS:
            out += GROUPS[n.upper()][1]
        elif n.lower() == "all":
            out += ALL
        elif n in MODULE_OF:
            out.append(n)
        else:
            raise SystemExit("unknown harness or group: %s (try --list)" % n)
    seen, uniq = set(), []
    for n in out:
        if n not in seen:
            seen.add(n)
            uniq.append(n)
    return uniq


def kani_version(env):
    try:
        p = subprocess.run(["cargo", "kani", "--version"], env=env, stdin=subprocess.DEVNULL,
                           stdout=subprocess.PIPE, stderr=subprocess.STDOUT, timeout=120)
        return " / ".join(l.strip() for l in p.stdout.decode(errors="replace").splitlines() if l.strip())
    except Exception as e:
        return "unknown (%r)" % (e,)


def main():
    ap = argparse.ArgumentParser(description=__doc__, formatter_class=argparse.RawDescriptionHelpFormatter)
    ap.add_argument("--out", help="JSON result file")
    ap.add_argument("--jobs", type=int, default=6, help="concurrent cargo-kani processes (default 6)")
    ap.add_argument("--timeout", type=float, default=900.0, help="wall-clock seconds per harness process (default 900)")
    ap.add_argument("--list", action="store_true", help="print the harness names grouped K1..K5 and exit")
    ap.add_argument("--mem-gb", type=float, default=12.0, help="address-space limit per process in GiB (default 12)")
    ap.add_argument("--no-playback", action="store_true", help="do not re-run FAILED harnesses with concrete playback")
    ap.add_argument("--crate-dir", default=HERE, help="harness crate (default: directory of this script)")
    ap.add_argument("--lock-from", default="/repo/Cargo.lock", help="Cargo.lock to copy into the crate before running")
    ap.add_argument("--cache-dir", default="/verif/.cache", help="where kani-target/ and kani-logs/ live")
    ap.add_argument("harnesses", nargs="*", metavar="HARNESS", help="harness names, group names (K1..K5) or 'all'")
    args = ap.parse_args()

    crate = os.path.abspath(args.crate_dir)
    if args.list:
        unw = declared_unwinds(crate)
        for g, (mod, hs) in GROUPS.items():
            print("%s (%s)" % (g, mod))
            for h in hs:
                print("  %-24s unwind %s" % (h, unw.get(h, "?")))
        in_src = set(proof_names(crate))
        if in_src != set(ALL):
            print("WARNING: harness table and sources differ: only in sources %s, only in table %s" % (
                sorted(in_src - set(ALL)), sorted(set(ALL) - in_src)))
        return 0

    if not args.out:
        ap.error("--out is required")
    names = expand(args.harnesses)
    if not names:
        ap.error("no harness given")

    global MEM_LIMIT_BYTES
    MEM_LIMIT_BYTES = int(args.mem_gb * 1024 ** 3)
    t0 = time.time()
    cache = os.path.abspath(args.cache_dir)
    os.makedirs(os.path.join(cache, "kani-target"), exist_ok=True)
    os.makedirs(os.path.join(cache, "kani-logs"), exist_ok=True)
    shutil.copyfile(args.lock_from, os.path.join(crate, "Cargo.lock"))

    env = dict(os.environ)
    env["CARGO_NET_OFFLINE"] = "true"
    env.pop("CARGO_TARGET_DIR", None)

    cfg = {"crate": crate, "cache": cache, "env": env, "timeout": args.timeout,
           "unwinds": declared_unwinds(crate), "no_playback": args.no_playback}

    jobs = queue.Queue()
    for n in names:
        jobs.put(n)
    results, lock = {}, threading.Lock()
    nworkers = max(1, min(args.jobs, len(names)))
    threads = [threading.Thread(target=worker, args=(i, jobs, results, cfg, lock), daemon=True)
               for i in range(nworkers)]
    for t in threads:
        t.start()
    for t in threads:
        t.join()

    doc = {
        "harnesses": {n: results[n] for n in names if n in results},
        "kani_version": kani_version(env),
        "wall_s": round(time.time() - t0, 2),
        "crate_dir": crate,
        "jobs": nworkers,
        "timeout_s": args.timeout,
        "mem_limit_bytes": MEM_LIMIT_BYTES,
    }
    for n in names:  # a harness that produced no result at all is an error, never a success
        if n not in doc["harnesses"]:
            doc["harnesses"][n] = {"verdict": "ERROR", "abnormal": ["no result recorded"]}
    tmp = args.out + ".tmp"
    os.makedirs(os.path.dirname(os.path.abspath(args.out)), exist_ok=True)
    with open(tmp, "w", encoding="utf-8") as f:
        json.dump(doc, f, indent=2, sort_keys=False)
        f.write("\n")
    os.replace(tmp, args.out)
    return 0


if __name__ == "__main__":
    sys.exit(main())
