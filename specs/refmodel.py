"""Reference models written from the property statements and the SigV4 specification.

They work on lists of `Int` bytes (concrete or symbolic) and take decisions through
`ctx.branch`, so on a path whose decisions already determine the answer they add no
forks, and on concrete data (`RefCtx`) they are ordinary functions.
"""
import z3

from mirse.values import Int, Unsupported
from mirse.interp import zand, zor, znot


class RefError(Exception):
    def __init__(self, kind, why=''):
        Exception.__init__(self, kind + ': ' + why)
        self.kind = kind
        self.why = why


def _eq(e, c):
    return (e.v == c) if not e.sym else (e.v == z3.BitVecVal(c, 8))


def _rng(e, lo, hi):
    if not e.sym:
        return lo <= e.v <= hi
    return z3.And(z3.UGE(e.v, lo), z3.ULE(e.v, hi))


def unreserved_f(e):
    """RFC 3986 unreserved: A-Z a-z 0-9 - . _ ~"""
    return zor(_rng(e, 0x41, 0x5A), _rng(e, 0x61, 0x7A), _rng(e, 0x30, 0x39),
               _eq(e, 0x2D), _eq(e, 0x2E), _eq(e, 0x5F), _eq(e, 0x7E))


def hex_f(e):
    return zor(_rng(e, 0x30, 0x39), _rng(e, 0x41, 0x46), _rng(e, 0x61, 0x66))


def hexval(e):
    if not e.sym:
        return Int('u8', int(chr(e.v), 16))
    z = e.v
    return Int('u8', z3.If(z3.ULE(z, 0x39), z - 0x30, z3.If(z3.UGE(z, 0x61), z - 0x57, z - 0x37)))


def upper_hex(b):
    """Two upper-case hex digits of byte b."""
    out = []
    for nib in ((b.v >> 4) if not b.sym else z3.LShR(b.v, 4), (b.v & 15) if not b.sym else (b.v & 15)):
        if isinstance(nib, int):
            out.append(Int('u8', ord('%X' % nib)))
        else:
            out.append(Int('u8', z3.simplify(z3.If(z3.ULT(nib, 10), nib + 0x30, nib + 0x37))))
    return out


def split_on(ctx, es, ch):
    segs = [[]]
    for e in es:
        if ctx.branch(_eq(e, ch)):
            segs.append([])
        else:
            segs[-1].append(e)
    return segs


def pct_decode(ctx, es, plus_is_space, errkind):
    """Decode %XX (either hex case) once; `+` -> space when plus_is_space."""
    out = []
    i = 0
    n = len(es)
    while i < n:
        e = es[i]
        if ctx.branch(_eq(e, 0x25)):
            if not (i + 2 < n):
                raise RefError(errkind, 'truncated escape')
            if not ctx.branch(zand(hex_f(es[i + 1]), hex_f(es[i + 2]))):
                raise RefError(errkind, 'bad hex in escape')
            h, l = hexval(es[i + 1]), hexval(es[i + 2])
            if not h.sym and not l.sym:
                out.append(Int('u8', h.v * 16 + l.v))
            else:
                out.append(Int('u8', z3.simplify((h.z() << 4) | l.z())))
            i += 3
        elif plus_is_space and ctx.branch(_eq(e, 0x2B)):
            out.append(Int('u8', 0x20))
            i += 1
        else:
            out.append(e)
            i += 1
    return out


def pct_encode(ctx, dec):
    out = []
    for b in dec:
        if ctx.branch(unreserved_f(b)):
            out.append(b)
        else:
            out.append(Int('u8', 0x25))
            out.extend(upper_hex(b))
    return out


def is_lit(ctx, seg, data):
    if len(seg) != len(data):
        return False
    return ctx.branch(zand(*[_eq(e, c) for e, c in zip(seg, data)]))


def ref_canon_path(ctx, es, s3, plus_is_space=False):
    """Reference canonical path.  Returns a list of acceptable outputs (each a list of Ints);
    raises RefError('InvalidURIPath') for relative paths, malformed escapes, and (standard
    mode) paths that climb above the root.
    plus_is_space=True gives the *F6 variant* (a literal '+' in a path segment read as a space): it is never the
    expectation, only the yardstick that tells whether a deviation is exactly the known finding F6 or something else."""
    SL = Int('u8', 0x2F)
    if not es:
        return [[SL]]
    if not ctx.branch(_eq(es[0], 0x2F)):
        raise RefError('InvalidURIPath', 'relative path')
    segs = split_on(ctx, es, 0x2F)[1:]
    dec = [pct_decode(ctx, s, plus_is_space, 'InvalidURIPath') for s in segs]
    if s3:
        out = []
        for s in dec:
            out.append(SL)
            out.extend(pct_encode(ctx, s))
        return [out]
    stack = []
    last_kind = None
    for s in dec:
        if not s:
            last_kind = 'empty'
            continue
        if is_lit(ctx, s, b'.'):
            last_kind = 'dot'
            continue
        if is_lit(ctx, s, b'..'):
            if not stack:
                raise RefError('InvalidURIPath', 'above root')
            stack.pop()
            last_kind = 'dot'
            continue
        stack.append(s)
        last_kind = 'seg'
    if not stack:
        return [[SL]]
    out = []
    for s in stack:
        out.append(SL)
        out.extend(pct_encode(ctx, s))
    if last_kind == 'empty':
        return [out + [SL]]
    if last_kind == 'dot':
        # the statement does not fix whether a trailing dot-segment leaves a trailing slash
        return [out, out + [SL]]
    return [out]


# ------------------------------------------------------------------ query

def ref_query_pairs(ctx, es):
    """Parse a raw query string into decoded (name, value) pairs (lists of Int bytes)."""
    pairs = []
    if not es:
        return pairs
    for comp in split_on(ctx, es, 0x26):
        if not comp:
            continue
        # split at first '='
        name, value = comp, []
        for i, e in enumerate(comp):
            if ctx.branch(_eq(e, 0x3D)):
                name, value = comp[:i], comp[i + 1:]
                break
        dn = pct_decode(ctx, name, True, 'MalformedQueryString')
        dv = pct_decode(ctx, value, True, 'MalformedQueryString')
        pairs.append((dn, dv))
    return pairs


def lex_lt(a, b):
    from mirse.lib_std import bytes_lt
    return bytes_lt(a, b)


def lex_eq(a, b):
    from mirse.lib_std import bytes_eq
    return bytes_eq(a, b)


def ref_canon_query_from_pairs(ctx, pairs, drop_signature=True):
    """Canonical query string of decoded pairs: encode once, sort by (encoded name, encoded value)
    in byte order, join with '&'; the X-Amz-Signature parameter is excluded."""
    enc = []
    for dn, dv in pairs:
        if drop_signature and is_lit(ctx, dn, b'X-Amz-Signature'):
            continue
        enc.append((pct_encode(ctx, dn), pct_encode(ctx, dv)))
    # insertion sort with symbolic comparisons
    out = []
    for it in enc:
        pos = len(out)
        while pos > 0:
            o = out[pos - 1]
            less = zor(lex_lt(it[0], o[0]), zand(lex_eq(it[0], o[0]), lex_lt(it[1], o[1])))
            if ctx.branch(less):
                pos -= 1
            else:
                break
        out.insert(pos, it)
    res = []
    for i, (n, v) in enumerate(out):
        if i:
            res.append(Int('u8', 0x26))
        res.extend(n)
        res.append(Int('u8', 0x3D))
        res.extend(v)
    return res


def ref_canon_query(ctx, es):
    return ref_canon_query_from_pairs(ctx, ref_query_pairs(ctx, es))


# ------------------------------------------------------------------ headers

def ref_header_value(ctx, es):
    """Trim leading/trailing spaces, collapse inner runs of spaces (only 0x20 is a space)."""
    out = []
    pending_space = False
    for e in es:
        if ctx.branch(_eq(e, 0x20)):
            if out:
                pending_space = True
        else:
            if pending_space:
                out.append(Int('u8', 0x20))
                pending_space = False
            out.append(e)
    return out
