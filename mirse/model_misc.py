"""Models of small dependency APIs: hex, log, encoding, bytes."""
import z3

from .values import *
from .lib_std import elems_of, deref, concrete_bytes, new_string, fmt_arguments, utf8_valid
from .interp import zand


def hexval(e):
    """(valid formula, 4-bit value as 8-bit bv) of an ASCII hex digit byte."""
    if not e.sym:
        ch = chr(e.v)
        if ch in '0123456789abcdefABCDEF':
            return True, Int('u8', int(ch, 16))
        return False, None
    z = e.v
    dig = z3.And(z3.UGE(z, 0x30), z3.ULE(z, 0x39))
    lo = z3.And(z3.UGE(z, 0x61), z3.ULE(z, 0x66))
    up = z3.And(z3.UGE(z, 0x41), z3.ULE(z, 0x46))
    val = z3.If(dig, z - 0x30, z3.If(lo, z - 0x61 + 10, z - 0x41 + 10))
    return z3.Or(dig, lo, up), Int('u8', val)


def hexdigit(nib, upper=False):
    """ASCII hex digit of a 4-bit value held in a u8 Int."""
    if not nib.sym:
        return Int('u8', ord(('%X' if upper else '%x') % nib.v))
    z = nib.v
    return Int('u8', z3.If(z3.ULT(z, 10), z + 0x30, z + (0x37 if upper else 0x57)))


def hex_encode_elems(es, upper=False):
    out = []
    for e in es:
        if not e.sym:
            hi, lo = Int('u8', e.v >> 4), Int('u8', e.v & 15)
        else:
            hi = Int('u8', z3.simplify(z3.LShR(e.v, 4)))
            lo = Int('u8', z3.simplify(e.v & 15))
        out.append(hexdigit(hi, upper))
        out.append(hexdigit(lo, upper))
    return out


LEVELS = ['Off', 'Error', 'Warn', 'Info', 'Debug', 'Trace']


def install(m):
    L = m.lib

    def hex_decode(m, a, c, rt):
        es = elems_of(m, a[0])
        if len(es) % 2:
            return err(Adt('FromHexError', 'OddLength', []))
        vals = []
        conds = []
        for e in es:
            okc, v = hexval(e)
            if okc is False:
                return err(Adt('FromHexError', 'InvalidHexCharacter', []))
            conds.append(okc)
            vals.append(v)
        if not m.ctx.branch(zand(*conds)):
            return err(Adt('FromHexError', 'InvalidHexCharacter', []))
        out = []
        for i in range(0, len(vals), 2):
            h, l = vals[i], vals[i + 1]
            if not h.sym and not l.sym:
                out.append(Int('u8', h.v * 16 + l.v))
            else:
                out.append(Int('u8', z3.simplify((h.z() << 4) | l.z())))
        return ok(VecObj(out))
    L['hex::decode'] = hex_decode

    def hex_encode(m, a, c, rt):
        return new_string(hex_encode_elems(elems_of(m, a[0])))
    L['hex::encode'] = hex_encode
    L['encode_upper'] = lambda m, a, c, rt: new_string(hex_encode_elems(elems_of(m, a[0]), True))

    # ---- log
    L['const:STATIC_MAX_LEVEL'] = lambda m: Adt('LevelFilter', 'Trace', [])
    L['max_level'] = lambda m, a, c, rt: Adt('LevelFilter', LEVELS[m.log_max_level], [])
    L['loc'] = lambda m, a, c, rt: Opaque('Location')
    L['Location::caller'] = lambda m, a, c, rt: Opaque('Location')

    def log_log(m, a, c, rt):
        # log::__private_api::log(logger, args, level, &(target, module_path, loc), kvs)
        out = []
        fmt_arguments(m, a[1], out)
        m.log_records.append((a[2].variant, out))
        return unit()
    L['__private_api::log'] = log_log
    L['log'] = log_log
    L['enabled'] = lambda m, a, c, rt: True

    # ---- bytes::Bytes
    L['Bytes::new'] = lambda m, a, c, rt: VecObj([], 'bytes')
    L['Bytes::from_static'] = lambda m, a, c, rt: VecObj(list(elems_of(m, a[0])), 'bytes')
    L['copy_from_slice:Bytes'] = L['Bytes::from_static']

    # ---- derive_builder / scratchstack-aws-principal values
    L['convert:UninitializedFieldError'] = lambda m, v: Adt('UninitializedFieldError', None, [v])
    L['UninitializedFieldError::field_name'] = lambda m, a, c, rt: deref(m, a[0]).fields[0]
    L['UninitializedFieldError::new'] = lambda m, a, c, rt: Adt('UninitializedFieldError', None, [a[0]])
    L['default:Principal'] = lambda m: Opaque('Principal', 'default')
    L['default:SessionData'] = lambda m: Opaque('SessionData', 'default')
    L['Principal::new'] = lambda m, a, c, rt: Opaque('Principal', 'new')
    L['SessionData::new'] = lambda m, a, c, rt: Opaque('SessionData', 'new')

    # ---- encoding crate
    install_encoding(m)


# WHATWG labels understood by encoding 0.2.33's `encoding_from_whatwg_label` that map to UTF-8
UTF8_LABELS = ('unicode-1-1-utf-8', 'utf-8', 'utf8')


def whatwg_labels():
    """All labels known to the encoding crate, read from its source (label -> canonical name)."""
    import glob
    import re
    labels = {}
    for p in glob.glob('/root/.cargo/registry/src/*/encoding-0.2.33/src/label.rs'):
        txt = open(p).read()
        # match arms:  "a" | "b" | ... => Some(all::NAME as EncodingRef),
        for arm in re.finditer(r'((?:"[^"]*"\s*\|?\s*)+)=>\s*Some\(all::(\w+)', txt):
            for lab in re.findall(r'"([^"]*)"', arm.group(1)):
                labels[lab] = arm.group(2)
    return labels


_LABELS = None


class EncodingRef:
    rust_type = 'EncodingRef'

    def __init__(self, name):
        self.name = name          # e.g. 'UTF_8'


def install_encoding(m):
    L = m.lib
    global _LABELS
    if _LABELS is None:
        _LABELS = whatwg_labels()

    L['const:UTF_8'] = lambda m: EncodingRef('UTF_8')

    def from_label(m, a, c, rt):
        es = elems_of(m, a[0])
        cb = concrete_bytes(es)
        if cb is None:
            # symbolic label: fork over the labels of the same length
            cands = [l for l in _LABELS if len(l.encode()) == len(es)]
            from .lib_std import bytes_eq
            for lab in cands:
                # the crate lower-cases / trims the label itself (label.rs: trim + to_lowercase)
                if m.ctx.branch(bytes_eq(es, [Int('u8', b) for b in lab.encode()])):
                    return some(EncodingRef(_LABELS[lab]))
            # any other spelling (incl. case variants / surrounding whitespace) is left nondeterministic
            m.ctx.events.append(('label_symbolic_other',))
            k = m.ctx.pick(2, 'label-other')
            if k == 0:
                return none()
            return some(EncodingRef('OTHER'))
        lab = cb.decode('utf-8', 'replace').strip(' \t\n\x0c\r').lower()
        name = _LABELS.get(lab)
        if name is None:
            return none()
        return some(EncodingRef(name))
    L['encoding_from_whatwg_label'] = from_label

    def utf16_decode(m, es, big):
        """Strict UTF-16 decoding of symbolic bytes -> Ok(String as UTF-8 elems) | Err."""
        pass
        import z3 as _z3
        bad = lambda: err(Adt('Cow', 'Borrowed', [str_ptr(b'invalid sequence')]))
        if len(es) % 2:
            # decoding proceeds unit by unit; an incomplete trailing unit is an error in strict mode (after the complete ones were checked)
            es_full = es[:-1]
        else:
            es_full = es
        units = []
        for i in range(0, len(es_full), 2):
            hi, lo = (es_full[i], es_full[i + 1]) if big else (es_full[i + 1], es_full[i])
            units.append(_z3.simplify(_z3.Concat(hi.z(), lo.z())))
        out = []
        i = 0
        while i < len(units):
            u = units[i]
            is_hi = _z3.And(_z3.UGE(u, 0xD800), _z3.ULE(u, 0xDBFF))
            is_lo = _z3.And(_z3.UGE(u, 0xDC00), _z3.ULE(u, 0xDFFF))
            if m.ctx.branch(is_lo):
                return bad()
            if m.ctx.branch(is_hi):
                if i + 1 >= len(units):
                    return bad()
                v = units[i + 1]
                if not m.ctx.branch(_z3.And(_z3.UGE(v, 0xDC00), _z3.ULE(v, 0xDFFF))):
                    return bad()
                cp = _z3.ZeroExt(16, u - 0xD800) * 0x400 + _z3.ZeroExt(16, v - 0xDC00) + 0x10000
                i += 2
            else:
                cp = _z3.ZeroExt(16, u)
                i += 1
            cp = _z3.simplify(cp)
            b = lambda x: Int('u8', _z3.simplify(_z3.Extract(7, 0, x)))
            if m.ctx.branch(_z3.ULT(cp, 0x80)):
                out.append(b(cp))
            elif m.ctx.branch(_z3.ULT(cp, 0x800)):
                out += [b(0xC0 | _z3.LShR(cp, 6)), b(0x80 | (cp & 0x3F))]
            elif m.ctx.branch(_z3.ULT(cp, 0x10000)):
                out += [b(0xE0 | _z3.LShR(cp, 12)), b(0x80 | (_z3.LShR(cp, 6) & 0x3F)), b(0x80 | (cp & 0x3F))]
            else:
                out += [b(0xF0 | _z3.LShR(cp, 18)), b(0x80 | (_z3.LShR(cp, 12) & 0x3F)), b(0x80 | (_z3.LShR(cp, 6) & 0x3F)), b(0x80 | (cp & 0x3F))]
        if len(es) % 2:
            return bad()
        return ok(new_string(out))

    def decode_free(m, a, c, rt):
        """encoding::decode(input, trap, fallback): BOM sniffing, then the designated decoder."""
        from .lib_std import bytes_eq
        es = elems_of(m, a[0])
        fallback = a[2]
        fb = deref(m, fallback) if not isinstance(fallback, EncodingRef) else fallback
        def starts(prefix):
            if len(es) < len(prefix):
                return False
            return m.ctx.branch(bytes_eq(es[:len(prefix)], [Int('u8', x) for x in prefix]))
        if starts([0xEF, 0xBB, 0xBF]):
            r = decode(m, [EncodingRef('UTF_8'), new_slice_of(es[3:])], c, rt)
            return Tuple([r, EncodingRef('UTF_8')])
        if starts([0xFE, 0xFF]):
            return Tuple([utf16_decode(m, es[2:], True), EncodingRef('UTF_16BE')])
        if starts([0xFF, 0xFE]):
            return Tuple([utf16_decode(m, es[2:], False), EncodingRef('UTF_16LE')])
        return Tuple([decode(m, [fb, new_slice_of(es)], c, rt), fb])

    def new_slice_of(es):
        from .values import Array
        arr = Array(list(es))
        return Ptr(Cell(arr), (), ('slice', 0, len(es)))

    def decode(m, a, c, rt):
        first = a[0] if isinstance(a[0], EncodingRef) else deref(m, a[0])
        if not isinstance(first, EncodingRef):
            return decode_free(m, a, c, rt)
        enc = first
        es = elems_of(m, a[1])
        if enc.name == 'UTF_8':
            if utf8_valid(m, es):
                return ok(new_string(es))
            return err(Adt('Cow', 'Borrowed', [str_ptr(b'invalid sequence')]))
        # other decoders are not modelled: the result is some string or an error
        m.ctx.events.append(('decode_other', enc.name))
        raise Unsupported('decoder %s not modelled' % enc.name)
    L['decode'] = decode

    def whatwg_name(m, a, c, rt):
        enc = deref(m, a[0])
        if enc.name == 'UTF_8':
            return some(str_ptr(b'utf-8'))
        return some(str_ptr(enc.name.lower().encode()))
    L['whatwg_name'] = whatwg_name
    L['name'] = lambda m, a, c, rt: str_ptr(deref(m, a[0]).name.lower().encode())
