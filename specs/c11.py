"""C11 — header canonicalisation: signed headers bound, unsigned ones without influence.

Decided by MIRSE on `normalize_header_value`, and on `CanonicalRequest::from_request_parts`
+ `canonical_request` (which run `normalize_headers`): for a symbolic header multiset and a
signed subset, the canonical request emitted by the crate's MIR is proved byte-equal (z3
validity, per path) to the reference assembly, which reads only the signed headers:
lower-case names in the order of the signed list, values trimmed / inner runs of spaces
collapsed, multiple values comma-joined in arrival order.  Unsigned headers are present in
the shapes with symbolic values, so equality with the reference is also their non-influence.
"""
import itertools
import json
import random
import sys

import z3

from .common import *
from . import refmodel as R
from mirse import engine
from mirse import model_http as H
from mirse.model_misc import hex_encode_elems

PROP = 'C11'
FORM = 'application/x-www-form-urlencoded'

NAMES = ['host', 'x-amz-date', 'a-hdr', 'b-hdr', 'zz-unsigned']


def shapes(tier, seed):
    out = []
    q = tier == 'quick'
    # (1) header value normalisation alone
    for n in range(0, (6 if q else 8) + 1):
        out.append(('value', n))
    # (2) canonical request: entries = ((name, value_len), ...) in arrival order; signed = tuple of names
    vals = (0, 1, 2) if q else (0, 1, 2, 3)
    layouts = []
    base = [('host', 1)]
    two = [n for n in NAMES[1:]]
    for extra_n in (0, 1, 2, 3):
        for names in itertools.product(NAMES[1:], repeat=extra_n):
            if any(names.count(x) > 2 for x in names):
                continue
            layouts.append(names)
    rnd = random.Random(seed)
    for names in layouts:
        # host placed first, last or in the middle
        for hostpos in sorted({0, len(names)}):
            arr = list(names)
            arr.insert(hostpos, 'host')
            present = sorted(set(arr))
            signable = [n for n in present if n != 'zz-unsigned']
            # signed subsets: all signable, host only, every subset for small layouts
            subsets = [tuple(signable), ('host',)]
            if len(signable) <= 3:
                for r in range(1, len(signable) + 1):
                    subsets += list(itertools.combinations(signable, r))
            for signed in sorted(set(subsets)):
                if q and len(arr) >= 4:
                    # quick: sample the value-length assignment
                    vl = tuple(rnd.choice(vals) for _ in arr)
                    out.append(('creq', tuple(zip(arr, vl)), tuple(sorted(signed))))
                elif len(arr) <= 2 or not q:
                    for vl in itertools.product(vals if len(arr) <= 2 else (0, 2), repeat=len(arr)):
                        out.append(('creq', tuple(zip(arr, vl)), tuple(sorted(signed))))
                else:
                    for _ in range(2):
                        vl = tuple(rnd.choice(vals) for _ in arr)
                        out.append(('creq', tuple(zip(arr, vl)), tuple(sorted(signed))))
    # names related by prefix whose next byte sorts below / above ':' and ',' (order is by NAME, not by rendered line)
    for n1, n2 in (('a-hdr', 'a-hdr-x'), ('a-hdr', 'a-hdr2'), ('a-hdr', 'a-hdr.v'), ('a-hdr', 'a-hdrz'), ('a-hdr', 'a-hdr_')):
        for first, second in ((n1, n2), (n2, n1)):
            for vl in ((1, 1), (0, 2), (2, 0)) if q else itertools.product((0, 1, 2), repeat=2):
                out.append(('creq', (('host', 1), (first, vl[0]), (second, vl[1])), tuple(sorted(['host', n1, n2]))))
                out.append(('creq', ((first, vl[0]), (second, vl[1]), ('host', 1)), tuple(sorted([n1, n2]) + ['host']) if False else tuple(sorted(['host', n1, n2]))))
    # header names the crate's own code mentions (string constants of its MIR, regenerated from the current tree): as UNSIGNED extra headers
    # they must not influence the canonical request any more than any other unsigned header does
    for name in code_header_names():
        out.append(('creq', (('host', 1), (name, 1)), ('host',)))
        out.append(('creq', ((name, 2), ('host', 1)), ('host',)))
    # form folding on: the headers of the request as received are what is signed (content-length / content-type included), although
    # the body is folded away
    for signed in (('content-length', 'content-type', 'host'), ('content-length', 'host'), ('host',)):
        for vl in ((1,), (2,)) if q else ((0,), (1,), (2,), (3,)):
            out.append(('creq-fold', (('host', 1), ('content-length', vl[0])), signed))
            out.append(('creq-fold', (('content-length', vl[0]), ('host', 1), ('content-length', 1)), signed))
    return sorted(set(out), key=repr)


def code_header_names(limit=40):
    import re as _re
    try:
        text, _ = engine.dump_mir()
    except Exception:
        return []
    names = sorted(set(_re.findall(r'const "([a-z][a-z0-9]*(?:-[a-z0-9]+)+)"', text)))
    return [n for n in names if n not in NAMES and n not in ('host', 'authorization')][:limit]


def header_byte(ctx, name):
    """A byte http admits in a header value: HTAB, 0x20-0x7E, 0x80-0xFF."""
    b = ctx.fresh_bv(name, 8)
    ctx.assume(z3.Or(b == 0x09, z3.And(z3.UGE(b, 0x20), b != 0x7F)))
    return Int('u8', b)


def run_shape(prog, shape, tier, seed, res):
    kind = shape[0]

    def body(m, ctx):
        if kind == 'value':
            es = [Int('u8', ctx.fresh_bv('h%d' % i, 8)) for i in range(shape[1])]
            out = m.call('normalize_header_value', [mk_slice(es)], None)
            return ('value', es, out.elems, R.ref_header_value(ctx, es))
        _, entries, signed = shape
        fold = kind == 'creq-fold'
        hdrs = H.HeaderMap()
        vals = []
        for j, (name, vl) in enumerate(entries):
            v = [header_byte(ctx, 'v%d_%d' % (j, i)) for i in range(vl)]
            vals.append((name, v))
            hdrs.append(name, v)
        if fold:
            ctv = conc_bytes(FORM)
            vals.append(('content-type', ctv))
            hdrs.append('content-type', ctv)
        bodyb = sym_bytes(ctx, 'body', 2) if not fold else conc_bytes('c=3')
        parts = H.mk_parts(H.Method('POST'), H.Uri(conc_bytes('/p'), conc_bytes('b=2&a=1')), hdrs)
        opts = Adt('SignatureOptions', None, [False, fold], ['s3', 'url_encode_form'])
        r = m.call('CanonicalRequest::from_request_parts', [parts, VecObj(bodyb, 'bytes'), opts], None)
        if r.variant != 'Ok':
            return ('creq-err', vals, r.fields[0].variant)
        cr = r.fields[0].fields[0]
        sh = VecObj([mk_string(n) for n in signed])
        out = m.call('CanonicalRequest::canonical_request', [Ptr(Cell(cr), ()), Ptr(Cell(sh), ())], None)
        # reference
        calls = [c for c in m.x_oracle.calls if c.kind == 'sha256']
        bh = None
        hashed = bodyb if not fold else []        # a folded form is hashed as the empty payload
        for c in calls:
            if len(c.msg) == len(hashed) and all(x is y or (not x.sym and not y.sym and x.v == y.v) or
                                                 (x.sym and y.sym and x.v.eq(y.v)) for x, y in zip(c.msg, hashed)):
                bh = c
        ref = conc_bytes('POST\n/p\na=1&b=2\n' if not fold else 'POST\n/p\na=1&b=2&c=3\n')
        for n in signed:
            vs = [v for nm, v in vals if nm == n]
            if not vs:
                continue
            ref += conc_bytes(n + ':')
            for k, v in enumerate(vs):
                if k:
                    ref += conc_bytes(',')
                ref += R.ref_header_value(ctx, v)
            ref += conc_bytes('\n')
        ref += conc_bytes('\n' + ';'.join(signed) + '\n')
        if bh is None:
            return ('creq-nohash', vals, None)
        ref += hex_encode_elems(bh.out)
        return ('creq', vals, out.elems, ref)

    def report(ctx, what, vals, prop):
        neg = z3.Not(prop) if not isinstance(prop, bool) else z3.BoolVal(not prop)
        sat, model = ctx.satisfiable(neg)
        if not sat:
            return
        if kind == 'value':
            inp = {'value_hex': model_bytes(model, vals).hex()}
        else:
            inp = {'headers': [[n, model_bytes(model, v).hex()] for n, v in vals], 'signed': list(shape[2]),
                   'body_hex': '0000' if kind != 'creq-fold' else b'c=3'.hex(), 'fold': kind == 'creq-fold'}
        res.findings.append(Finding(what, inp, None, None, repr(shape)))

    def on_path(pr):
        ctx = pr.ctx
        res.obligations += 1
        if pr.kind == 'panic':
            res.findings.append(Finding('panic: %s' % pr.value.msg, {'shape': repr(shape)}, None, None, repr(shape)))
            return
        v = pr.value
        if v[0] == 'value':
            _, es, out, ref = v
            res.witnesses.add('value')
            if len(out) != len(ref):
                report(ctx, 'normalised header value has the wrong length', es, False)
                return
            prop = zb(bytes_eq(out, ref))
            okv, _ = ctx.valid(prop)
            if not okv:
                report(ctx, 'normalised header value differs from trim+collapse reference', es, prop)
            if len(res.samples) < 1:
                okm, model = ctx.satisfiable()
                res.samples.append({'header_value_hex': model_bytes(model, es).hex()})
            return
        if v[0] != 'creq':
            res.findings.append(Finding('unexpected outcome %s' % (v[0],), {'shape': repr(shape)}, None, None, repr(shape)))
            return
        _, vals, out, ref = v
        res.witnesses.add('creq')
        if any(len([1 for nm, _ in vals if nm == n]) > 1 for n in shape[2]):
            res.witnesses.add('creq-multivalue')
        if len(out) != len(ref):
            report(ctx, 'canonical request has a different length than the reference', vals, False)
            return
        prop = zb(bytes_eq(out, ref))
        okv, _ = ctx.valid(prop)
        if not okv:
            report(ctx, 'canonical request differs from the reference assembly', vals, prop)
        if len(res.samples) < 1:
            okm, model = ctx.satisfiable()
            res.samples.append({'headers': [[n, model_bytes(model, x).hex()] for n, x in vals], 'signed': list(shape[2])})

    engine.explore(prog, body, on_path, stats=res.stats)


# --------------------------------------------------------------------------- concrete side

import hashlib


def ref_creq_concrete(headers, signed, body, fold=False):
    ctx = RefCtx()
    ref = b'POST\n/p\na=1&b=2\n' if not fold else b'POST\n/p\na=1&b=2&' + body + b'\n'
    if fold:
        body = b''
    for n in signed:
        vs = [bytes.fromhex(v) for nm, v in headers if nm == n]
        if not vs:
            continue
        ref += n.encode() + b':' + b','.join(bytes(e.v for e in R.ref_header_value(ctx, conc_bytes(v))) for v in vs) + b'\n'
    ref += b'\n' + ';'.join(signed).encode() + b'\n' + hashlib.sha256(body).hexdigest().encode()
    return ref


def native_creq(rp, headers, signed, body, fold=False):
    r = rp.ask({'op': 'canonical', 'request': {'method': 'POST', 'uri': '/p?b=2&a=1', 'headers': headers,
                                               'body_hex': body.hex()},
                'options': {'s3': False, 'url_encode_form': fold}, 'signed_headers': signed})
    if 'ok' in r:
        return ('ok', r['ok'].get('canonical_request_hex'))
    return ('other', json.dumps(r)[:300])


def mirse_creq(prog, headers, signed, body):
    out = []

    def bodyf(m, ctx):
        hdrs = H.HeaderMap()
        for n, v in headers:
            hdrs.append(n, conc_bytes(bytes.fromhex(v)))
        parts = H.mk_parts(H.Method('POST'), H.Uri(conc_bytes('/p'), conc_bytes('b=2&a=1')), hdrs)
        opts = Adt('SignatureOptions', None, [False, False], ['s3', 'url_encode_form'])
        r = m.call('CanonicalRequest::from_request_parts', [parts, VecObj(conc_bytes(body), 'bytes'), opts], None)
        cr = r.fields[0].fields[0]
        sh = VecObj([mk_string(n) for n in signed])
        o = m.call('CanonicalRequest::canonical_request', [Ptr(Cell(cr), ()), Ptr(Cell(sh), ())], None)
        return bytes(e.v for e in o.elems).hex()
    engine.explore(prog, bodyf, out.append)
    pr = out[0]
    return ('ok', pr.value) if pr.kind == 'ret' else ('panic', pr.value.msg)


def conformance(prog, rp, seed, tier):
    rnd = random.Random(seed)
    mism = []
    n = 0
    # header values
    vals = [b'', b' ', b'a', b'  a  b   c ', b'\ta\t', b'a\xe9 ', b'    ', b'x  ,  y']
    for _ in range(60 if tier == 'quick' else 400):
        vals.append(bytes(rnd.choice(b' \tab,\xe9') for _ in range(rnd.randint(0, 9))))
    for v in vals:
        n += 1
        nat = rp.ask({'op': 'header_value', 'hex': v.hex()}).get('ok_hex')
        out = []

        def bodyf(m, ctx):
            return m.call('normalize_header_value', [mk_slice(conc_bytes(v))], None)
        engine.explore(prog, bodyf, out.append)
        mine = bytes(e.v for e in out[0].value.elems).hex()
        if mine != nat:
            mism.append({'value': v.hex(), 'mirse': mine, 'native': nat})
    # canonical requests
    for _ in range(25 if tier == 'quick' else 150):
        n += 1
        hs = [['host', b'example.com'.hex()]]
        for _k in range(rnd.randint(0, 3)):
            hs.insert(rnd.randint(0, len(hs)), [rnd.choice(NAMES[1:]), bytes(rnd.choice(b' ab,') for _ in range(rnd.randint(0, 5))).hex()])
        present = sorted({h[0] for h in hs})
        signed = sorted(rnd.sample(present, rnd.randint(1, len(present))))
        body = bytes(rnd.randrange(256) for _ in range(rnd.randint(0, 4)))
        a = mirse_creq(prog, hs, signed, body)
        b = native_creq(rp, hs, signed, body)
        if a != b:
            mism.append({'headers': hs, 'signed': signed, 'mirse': a, 'native': b})
    return n, mism


def replay_finding(rp, f):
    if 'value_hex' in f.inp:
        v = bytes.fromhex(f.inp['value_hex'])
        nat = rp.ask({'op': 'header_value', 'hex': v.hex()}).get('ok_hex')
        ref = bytes(e.v for e in R.ref_header_value(RefCtx(), conc_bytes(v))).hex()
        return nat != ref, {'native': nat, 'reference': ref}
    if 'headers' in f.inp:
        body = bytes.fromhex(f.inp['body_hex'])
        nat = native_creq(rp, f.inp['headers'], f.inp['signed'], body, f.inp.get('fold', False))
        ref = ref_creq_concrete(f.inp['headers'], f.inp['signed'], body, f.inp.get('fold', False)).hex()
        return nat != ('ok', ref), {'native': nat, 'reference': ref}
    return False, None


def describe(f):
    return '%s -> %s' % (json.dumps(f.inp), json.dumps(f.detail, default=str)[:600])


def bounds(tier):
    q = tier == 'quick'
    return ('normalize_header_value on every byte string of length <= %d (all 256 values per byte); canonical request of requests with '
            'host plus <= 3 further headers drawn from {x-amz-date, a-hdr, b-hdr, zz-unsigned} (<= 2 values per name, every arrival '
            'order), value lengths in %s with every http-admitted byte value per position, every signed subset of small layouts, a '
            '2-byte symbolic body' % (6 if q else 8, '{0,1,2}' if q else '{0,1,2,3}'))


OUTSIDE = ('longer header values / more headers; header-name letter case (normalised by the http crate before the crate sees it); '
           'signed names that are absent from the request (not fixed by the property)')
NEED_WITNESSES = {'value', 'creq', 'creq-multivalue'}
ASSUMPTIONS = ['http::HeaderMap iteration: distinct names in first-insertion order, values of a name in arrival order (documented)',
               'SHA-256 modelled as an ideal hash (fresh output per distinct input, functional consistency asserted)']


def main(argv):
    return run_check(sys.modules[__name__], argv)


if __name__ == '__main__':
    sys.exit(main(sys.argv))
