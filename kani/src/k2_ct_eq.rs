//! K2 — `subtle::ConstantTimeEq for [u8]` is functionally `==` (compiled `subtle` 2.6.1).
//!
//! The signature comparison in `/repo/src/auth.rs` relies on `ct_eq`; these harnesses show
//! that it decides exactly byte-wise equality (including the unequal-length case).
//!
//! Unwind bound: `ct_eq` iterates `zip(self, rhs)` over `len` elements, the specification
//! loop iterates `len` times, `kani::any::<[u8; N]>()` `N` times: `unwind = N + 1`.

use subtle::ConstantTimeEq;

/// Two symbolic 64-byte arrays (the size of a hex SHA-256 signature). Unwind 64 + 1.
#[kani::proof]
#[kani::unwind(65)]
fn k2_ct_eq_64() {
    let a: [u8; 64] = kani::any();
    let b: [u8; 64] = kani::any();

    let mut equal = true;
    let mut i = 0;
    while i < 64 {
        if a[i] != b[i] {
            equal = false;
        }
        i += 1;
    }

    let got = bool::from(a[..].ct_eq(&b[..]));
    assert!(got == equal, "k2: ct_eq differs from byte-wise equality");

    kani::cover!(got, "k2: equal arrays");
    kani::cover!(!got, "k2: unequal arrays");
    kani::cover!(!got && a[63] != b[63] && a[0] == b[0], "k2: arrays differing in the last byte");
}

/// Two symbolic slices of symbolic lengths `la, lb <= 66`: true iff same length and same
/// bytes. Unwind 66 + 1.
#[kani::proof]
#[kani::unwind(67)]
fn k2_ct_eq_len() {
    let a: [u8; 66] = kani::any();
    let b: [u8; 66] = kani::any();
    let la: usize = kani::any();
    let lb: usize = kani::any();
    kani::assume(la <= 66 && lb <= 66);

    let mut equal = la == lb;
    if equal {
        let mut i = 0;
        while i < la {
            if a[i] != b[i] {
                equal = false;
            }
            i += 1;
        }
    }

    let got = bool::from(a[..la].ct_eq(&b[..lb]));
    assert!(got == equal, "k2: ct_eq differs from (len equal && bytes equal)");

    kani::cover!(got && la == 66, "k2: equal 66 byte slices");
    kani::cover!(got && la == 0, "k2: equal empty slices");
    kani::cover!(!got && la != lb, "k2: different lengths");
    kani::cover!(!got && la == lb, "k2: same length, different bytes");
}
