"""C15 — what is verified is what is returned: parts, body and identity pass through.

Decided by MIRSE on the whole pipeline, accepting paths only.  Requests are signed by the reference signer
through the ideal-hash oracle with symbolic path byte, header values and body bytes; methods, versions, body
kinds (`()`, `Vec<u8>`, `Bytes`), carriers and folding vary per shape.  On every accepting path the returned
`Parts` must carry the submitted method, version, extensions object and header map (same names, values,
multiplicity and per-name order; z3 proves byte equality of every value), the returned body must equal the
submitted bytes and the URI must be unchanged - except for folded requests, where the body must be empty and
the returned URI's query must parse (reference parser) to exactly URL pairs (+) body pairs.  The principal
and session data returned are the provider's objects.
"""
import itertools
import json
import random
import sys

import z3

from .common import *
from .pipeline import *
from . import refmodel as R
from . import c02
from mirse import engine
from mirse.model_misc import hex_encode_elems

PROP = 'C15'
TS = c02.TS
SCOPE = c02.SCOPE
AKID = c02.AKID
FORM = 'application/x-www-form-urlencoded'


def shapes(tier, seed):
    out = []
    methods = ['GET', 'POST', 'PUT', 'DELETE', 'PROPFIND']
    versions = ['HTTP/1.0', 'HTTP/1.1', 'HTTP/2.0']
    i = 0
    for carrier in ('header', 'query'):
        for method in methods:
            for bk in ('bytes', 'vec', 'unit'):
                out.append(('plain', carrier, method, versions[i % 3], bk, False))
                i += 1
        out.append(('plain', carrier, 'POST', 'HTTP/1.1', 'bytes', True))      # folding on, non-form body
        out.append(('form', carrier, 'POST', 'HTTP/1.1', 'bytes', True))       # folded
        out.append(('form', carrier, 'POST', 'HTTP/2.0', 'vec', True))
        out.append(('form-samenames', carrier, 'POST', 'HTTP/1.1', 'bytes', True))
        out.append(('form', carrier, 'POST', 'HTTP/1.1', 'bytes', False))      # form body, folding off
    return out


def run_shape(prog, shape, tier, seed, res):
    kind, carrier, method, version, bk, fold = shape

    def body(m, ctx):
        key = sym_bytes(ctx, 'key', 32)
        pb = Int('u8', ctx.fresh_bv('pb', 8))
        ctx.assume(zb(R.unreserved_f(pb)))
        path = conc_bytes('/r') + [pb]
        hv1 = [Int('u8', ctx.fresh_bv('h1_%d' % i, 8)) for i in range(2)]
        hv2 = [Int('u8', ctx.fresh_bv('h2_%d' % i, 8)) for i in range(2)]
        for e in hv1 + hv2:
            ctx.assume(z3.And(z3.UGE(e.v, 0x21), z3.ULE(e.v, 0x7E)))
        headers = [('x-multi', hv1), ('host', conc_bytes('h')), ('x-unsigned', conc_bytes('  keep  me ')), ('x-multi', hv2)]
        signed = ['host', 'x-multi']
        if kind in ('form', 'form-samenames'):
            headers.append(('content-type', conc_bytes(FORM)))
            bv = Int('u8', ctx.fresh_bv('bv', 8))
            ctx.assume(zb(R.unreserved_f(bv)))
            if kind == 'form':
                bodyb = conc_bytes('b=') + [bv] + conc_bytes('&a=2')
                body_pairs = [(conc_bytes('b'), [bv]), (conc_bytes('a'), conc_bytes('2'))]
            else:
                # the body only repeats a name that the URL query already has
                bodyb = conc_bytes('a=') + [bv]
                body_pairs = [(conc_bytes('a'), [bv])]
        else:
            bodyb = sym_bytes(ctx, 'body', 3) if bk != 'unit' else []
            body_pairs = []
        url_pairs = [(conc_bytes('a'), conc_bytes('1'))]
        wire_q = conc_bytes('a=1')
        folded = fold and kind in ('form', 'form-samenames')
        cpath = conc_bytes('/r') + [pb]
        cred = conc_bytes(AKID + '/' + SCOPE)
        hash_body = [] if folded else bodyb
        if carrier == 'header':
            headers.append(('x-amz-date', conc_bytes(TS)))
            signed = sorted(signed + ['x-amz-date'])
            cq = R.ref_canon_query_from_pairs(ctx, url_pairs + (body_pairs if folded else []))
            sig, creq, sts = ref_sign(m, key, ctx, method, cpath, cq, headers, signed, hash_body, conc_bytes(TS), conc_bytes(SCOPE))
            headers.append(('authorization', auth_header(cred, signed, sig)))
        else:
            signed = sorted(signed)
            pairs = list(url_pairs)
            for n, v in [('X-Amz-Algorithm', 'AWS4-HMAC-SHA256'), ('X-Amz-Credential', AKID + '/' + SCOPE), ('X-Amz-Date', TS),
                         ('X-Amz-SignedHeaders', ';'.join(signed))]:
                pairs.append((conc_bytes(n), conc_bytes(v)))
                wire_q += conc_bytes('&' + n + '=') + R.pct_encode(ctx, conc_bytes(v))
            cq = R.ref_canon_query_from_pairs(ctx, pairs + (body_pairs if folded else []))
            sig, creq, sts = ref_sign(m, key, ctx, method, cpath, cq, headers, signed, hash_body, conc_bytes(TS), conc_bytes(SCOPE))
            wire_q += conc_bytes('&X-Amz-Signature=') + sig
            url_pairs = pairs
        rq = Req(method, path, wire_q, headers, bodyb, bk, version)
        request = rq.build()
        submitted = dict(method=request.parts.fields[0], uri=request.parts.fields[1], version=request.parts.fields[2],
                         headers=request.parts.fields[3], ext=request.parts.fields[4],
                         entries=[(n.name, list(v.elems)) for n, v in request.parts.fields[3].entries],
                         path=list(path), query=list(wire_q), body=list(bodyb))
        prov = provider_ok(key)
        r, polls = run(m, request, 'us-east-1', 'service', prov, instant(T0), None, options(False, fold))
        return rq, submitted, r, folded, url_pairs, body_pairs

    def on_path(pr):
        ctx = pr.ctx
        res.obligations += 1
        if pr.kind == 'panic':
            res.findings.append(Finding('panic: %s' % pr.value.msg, {'shape': repr(shape)}, None, None, repr(shape)))
            return
        rq, sub, r, folded, url_pairs, body_pairs = pr.value
        o = outcome(r)
        if o[0] != 'ok':
            res.witnesses.add('rejected:' + o[1])
            res.findings.append(Finding('reference-signed request refused (%s) - cannot observe pass-through' % o[1],
                                        {'shape': repr(shape)}, None, None, repr(shape)))
            return
        res.witnesses.add('ok-folded' if folded else 'ok')
        parts, rbody, resp = o[1]

        def fail(what, prop=None):
            sat, model = ctx.satisfiable(None if prop is None else z3.Not(prop))
            if sat:
                res.findings.append(Finding(what, {'request': rq.to_json(model), 'fold': shape[5], 'shape': list(shape)}, None, None, repr(shape)))
        pm, pu, pv, ph, pe = parts.fields[:5]
        if bytes(e.v for e in pm.elems) != method.encode():
            fail('returned method differs')
        if pv.data != version:
            fail('returned HTTP version differs')
        if pe is not sub['ext']:
            fail('returned extensions object is not the submitted one')
        got = [(n.name, list(v.elems)) for n, v in ph.entries]
        if [g[0] for g in got] != [s[0] for s in sub['entries']]:
            fail('returned header names / multiplicity / order differ: %s vs %s' % ([g[0] for g in got], [s[0] for s in sub['entries']]))
        else:
            for (n, gv), (_, sv) in zip(got, sub['entries']):
                if len(gv) != len(sv) or not ctx.valid(zb(bytes_eq(gv, sv)))[0]:
                    fail('returned value of header %s differs from the submitted one' % n)
        # principal / session data
        if resp.fields[0] is not PRINCIPAL or resp.fields[1] is not SESSION:
            fail('returned principal / session data are not the provider\'s objects')
        if folded:
            if rbody.elems:
                fail('returned body of a folded request is not empty')
            rq_ = pu.query or []
            try:
                got_pairs = R.ref_query_pairs(ctx, rq_)
                want = R.ref_canon_query_from_pairs(ctx, url_pairs + body_pairs)
                gotc = R.ref_canon_query_from_pairs(ctx, got_pairs)
                if len(want) != len(gotc) or not ctx.valid(zb(bytes_eq(want, gotc)))[0]:
                    fail('returned URI query of a folded request is not the multiset union of URL and body parameters')
            except R.RefError:
                fail('returned URI query of a folded request does not parse')
            if len(pu.path) != len(sub['path']) or not ctx.valid(zb(bytes_eq(pu.path, sub['path'])))[0]:
                # the rebuilt URI uses the canonical path; for this shape it equals the submitted path
                fail('returned URI path of a folded request differs from the (already canonical) submitted path')
        else:
            if len(rbody.elems) != len(sub['body']) or not ctx.valid(zb(bytes_eq(rbody.elems, sub['body'])))[0]:
                fail('returned body differs from the submitted bytes')
            if pu is not sub['uri'] and (len(pu.path) != len(sub['path']) or (pu.query or []) != sub['query']):
                fail('returned URI differs from the submitted one')
            else:
                okp = ctx.valid(zb(zand(bytes_eq(pu.path, sub['path']), bytes_eq(pu.query or [], sub['query']))))[0] \
                    if len(pu.path) == len(sub['path']) and len(pu.query or []) == len(sub['query']) else False
                if not okp:
                    fail('returned URI differs from the submitted one')
        if len(res.samples) < 1:
            sat, model = ctx.satisfiable()
            res.samples.append({'shape': list(shape), 'uri': rq.to_json(model)['uri'][:80]})

    engine.explore(prog, body, on_path, stats=res.stats)


# --------------------------------------------------------------------------- concrete side

def concrete_request(shape, rnd):
    kind, carrier, method, version, bk, fold = shape
    headers = [['x-multi', b'v1'.hex()], ['host', b'h'.hex()], ['x-unsigned', b'  keep  me '.hex()], ['x-multi', b'v2'.hex()]]
    signed = ['host', 'x-multi']
    if kind in ('form', 'form-samenames'):
        headers.append(['content-type', FORM.encode().hex()])
        body = b'b=Q&a=2' if kind == 'form' else b'a=Q'
    else:
        body = bytes(rnd.randrange(256) for _ in range(3)) if bk != 'unit' else b''
    folded = fold and kind in ('form', 'form-samenames')
    uri = '/rX?a=1'
    if carrier == 'header':
        headers.append(['x-amz-date', TS.encode().hex()])
        signed = sorted(signed + ['x-amz-date'])
    else:
        uri += '&X-Amz-Algorithm=AWS4-HMAC-SHA256&X-Amz-Credential=%s&X-Amz-Date=%s&X-Amz-SignedHeaders=%s' % (
            (AKID + '/' + SCOPE).replace('/', '%2F'), TS, '%3B'.join(sorted(signed)))
        signed = sorted(signed)
    path, _, query = uri.partition('?')
    cp, cq = c02.py_canon(path, query + ('&' + body.decode() if folded else ''))
    hl = [(n, bytes.fromhex(v)) for n, v in headers]
    sig, _, _ = py_sign(bytes(32), method, cp, cq, hl, signed, b'' if folded else body, TS, SCOPE, is_key=True)
    if carrier == 'header':
        authz = 'AWS4-HMAC-SHA256 Credential=%s/%s, SignedHeaders=%s, Signature=%s' % (AKID, SCOPE, ';'.join(signed), sig)
        headers.append(['authorization', authz.encode().hex()])
    else:
        uri += '&X-Amz-Signature=' + sig
    return {'method': method, 'uri': uri, 'version': version, 'headers': headers, 'body_hex': body.hex(), 'body_kind': bk}, folded


NATIVE_IDENT = [(True, True)]      # (principal returned, session data returned) of the last native_passthrough call


def native_passthrough(rp, j, fold):
    nat = native_validate(rp, j, 'us-east-1', 'service', T0, provider={'result': {'signing_key_hex': '00' * 32}, 'principal_user': 'test',
                                                                         'session': {'k1': 'v1', 'k2': 'v2'}},
                          opts={'s3': False, 'url_encode_form': fold})
    res = nat.get('result', {})
    if 'ok' not in res:
        return ('err', res.get('err', res))
    o = res['ok']
    # what the provider supplied must come back: the principal (user "test") and both session variables
    ident = ('user_name: "test"' in o.get('principal', ''), all(x in o.get('session_data', '') for x in ('"k1": String("v1")', '"k2": String("v2")')))
    NATIVE_IDENT[0] = ident
    return ('ok', o['method'], o['uri'], o['version'], sorted(map(tuple, o['headers'])), o['body_hex'])


def check_native(j, folded, nat):
    if nat[0] != 'ok':
        return 'refused'
    _, method, uri, version, headers, body_hex = nat
    if not NATIVE_IDENT[0][0]:
        return 'principal supplied by the provider not returned'
    if not NATIVE_IDENT[0][1]:
        return 'session data supplied by the provider not returned'
    if method != j['method'] or version != j['version']:
        return 'method/version'
    if headers != sorted((n.lower(), v) for n, v in j['headers']):
        return 'headers'
    if folded:
        if body_hex != '':
            return 'body not empty'
        ctx = RefCtx()
        sub_q = j['uri'].partition('?')[2]
        want = R.ref_canon_query(ctx, conc_bytes((sub_q + '&' + bytes.fromhex(j['body_hex']).decode()).encode()))
        got = R.ref_canon_query(ctx, conc_bytes(uri.partition('?')[2].encode()))
        if bytes(e.v for e in want) != bytes(e.v for e in got):
            return 'folded query'
    else:
        if body_hex != (j['body_hex'] if j['body_kind'] != 'unit' else ''):
            return 'body'
        if uri != j['uri']:
            return 'uri'
    return None


def replay_finding(rp, f):
    inp = f.inp
    if 'request' not in inp:
        return False, None
    # re-sign a concrete instance of the same shape and look at what the native code returns
    rnd = random.Random(0)
    j, folded = concrete_request(tuple(inp['shape']), rnd)
    nat = native_passthrough(rp, j, inp['fold'])
    why = check_native(j, folded, nat)
    return why is not None, {'native_deviation': why, 'native': nat if why else 'pass-through ok'}


def conformance(prog, rp, seed, tier):
    rnd = random.Random(seed)
    mism = []
    n = 0
    for shape in shapes(tier, seed):
        n += 1
        j, folded = concrete_request(shape, rnd)
        nat = native_passthrough(rp, j, shape[5])
        out = []

        def body(m, ctx):
            uri = j['uri']
            path, sep, query = uri.partition('?')
            rq = Req(j['method'], path.encode(), query.encode() if sep else None, [(a, bytes.fromhex(b)) for a, b in j['headers']],
                     bytes.fromhex(j['body_hex']), j['body_kind'], j['version'])
            r, _ = run(m, rq, 'us-east-1', 'service', provider_ok(conc_bytes(bytes(32))), instant(T0), None, options(False, shape[5]))
            o = outcome(r)
            if o[0] != 'ok':
                return ('err', o[1])
            parts, rbody, resp = o[1]
            u = parts.fields[1]
            return ('ok', bytes(e.v for e in parts.fields[0].elems).decode(), bytes(e.v for e in u.render()).decode('latin-1'), parts.fields[2].data,
                    sorted((nm.name, bytes(e.v for e in v.elems).hex()) for nm, v in parts.fields[3].entries), bytes(e.v for e in rbody.elems).hex())
        engine.explore(prog, body, out.append)
        pr = out[0]
        mine = pr.value if pr.kind == 'ret' else ('panic', pr.value.msg)
        natc = nat if nat[0] == 'ok' else ('err', nat[1].get('kind') if isinstance(nat[1], dict) else nat[1])
        if tuple(mine) != tuple(natc):
            mism.append({'shape': shape, 'mirse': mine, 'native': natc})
    return n, mism


def describe(f):
    return '%s -> %s' % (json.dumps({k: v for k, v in f.inp.items() if k != 'request'}), json.dumps(f.detail, default=str)[:400])


def bounds(tier):
    return ('both carriers x methods {GET, POST, PUT, DELETE, PROPFIND} x versions {1.0, 1.1, 2.0} x body kinds {Bytes, Vec<u8>, ()}; a repeated '
            'header name with two symbolic 2-byte values around other headers, an unsigned header with redundant spaces, a symbolic path byte, '
            '3 symbolic body bytes; form bodies with folding on (folded) and off, non-form body with folding on; provider response objects')


OUTSIDE = 'larger requests; extensions content (opaque object identity only); HTTP/0.9 and HTTP/3'
NEED_WITNESSES = {'ok', 'ok-folded'}
ASSUMPTIONS = ['http::request::Parts has the public fields method, uri, version, headers, extensions in this order (http 1.x)']


def main(argv):
    return run_check(sys.modules[__name__], argv)


if __name__ == '__main__':
    sys.exit(main(sys.argv))
