#!/bin/bash
# Build everything the checks need, offline, from files on disk. Re-runnable.
set -e
cd "$(dirname "$0")"
export CARGO_NET_OFFLINE=true
mkdir -p .cache evidence
bash replay/build.sh >/dev/null
python3-vt - <<'PY'
import sys
sys.path.insert(0, '/verif')
from mirse import engine
prog, info = engine.load_program()
print('MIR dump ok:', info)
PY
echo "setup done"
