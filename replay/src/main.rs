//! verif-replay: native replay / conformance binary. See ../PROTOCOL.md.
//!
//! One JSON command per stdin line -> one JSON reply per stdout line. Every call into the crate
//! under test happens inside `run()` (catch_unwind + silent panic hook); the process keeps serving
//! after a panic. Malformed input is answered with {"bad_input": ...}.

// The private `chronoutil` module of the crate under test, compiled from the same source file.
#[path = "/repo/src/chronoutil.rs"]
mod chronoutil;

use {
    bytes::Bytes,
    chrono::{DateTime, Datelike, FixedOffset, NaiveDate, TimeDelta, Utc},
    chronoutil::ParseISO8601,
    hmac::{Hmac, Mac},
    http::{
        header::{HeaderMap, HeaderName, HeaderValue},
        Method, Request, Uri, Version,
    },
    scratchstack_aws_signature::{
        auth::{SigV4Authenticator, SigV4AuthenticatorResponse},
        canonical::{self, CanonicalRequest},
        errors::ServiceError,
        principal::{Principal, SessionData, SessionValue, User},
        sigv4_validate_request, ConstSignedHeaderRequirements, GetSigningKeyRequest, GetSigningKeyResponse,
        IntoRequestBytes, KSecretKey, KeyTooLongError, SignatureError, SignatureOptions, SignedHeaderRequirements,
        SliceSignedHeaderRequirements, VecSignedHeaderRequirements, NO_ADDITIONAL_SIGNED_HEADERS,
    },
    serde_json::{json, Value},
    sha2::{Digest, Sha256},
    std::{
        any::Any,
        borrow::Cow,
        cell::{Cell, RefCell},
        collections::HashMap,
        error::Error,
        fmt,
        future::Future,
        io::{self, BufRead, Write},
        panic::{self, AssertUnwindSafe},
        pin::Pin,
        str::FromStr,
        sync::{Arc, Mutex},
        task::{Context, Poll, RawWaker, RawWakerVTable, Waker},
    },
    tower::{BoxError, Service},
};

/// Reply of an op: Ok(reply object) or Err(reason) which becomes {"bad_input": reason}.
type R = Result<Value, String>;

const MAX_POLLS: u64 = 1000;
const STD_SECRET_CAPACITY: usize = 40; // KSecretKey<44> holds "AWS4" + 40 bytes

// ------------------------------------------------------------------------------------------------
// Panic capture
// ------------------------------------------------------------------------------------------------

thread_local! {
    static LAST_PANIC: RefCell<Option<(String, String)>> = const { RefCell::new(None) };
}

fn payload_msg(p: &(dyn Any + Send)) -> String {
    if let Some(s) = p.downcast_ref::<&str>() {
        (*s).to_string()
    } else if let Some(s) = p.downcast_ref::<String>() {
        s.clone()
    } else {
        "<non-string panic payload>".to_string()
    }
}

fn install_panic_hook() {
    panic::set_hook(Box::new(|info| {
        let msg = payload_msg(info.payload());
        let loc = match info.location() {
            Some(l) => format!("{}:{}", l.file(), l.line()),
            None => "<unknown>".to_string(),
        };
        LAST_PANIC.with(|c| {
            if let Ok(mut slot) = c.try_borrow_mut() {
                *slot = Some((msg, loc));
            }
        });
    }));
}

/// Run `f`, converting a panic into the protocol's panic object.
fn run<T>(f: impl FnOnce() -> T) -> Result<T, Value> {
    match panic::catch_unwind(AssertUnwindSafe(f)) {
        Ok(v) => Ok(v),
        Err(p) => {
            let recorded = LAST_PANIC.with(|c| c.try_borrow_mut().ok().and_then(|mut s| s.take()));
            let (msg, loc) = recorded.unwrap_or_else(|| (payload_msg(&*p), "<unknown>".to_string()));
            // A payload whose Drop panics must not take the process down.
            let _ = panic::catch_unwind(AssertUnwindSafe(move || drop(p)));
            Err(json!({"panic": msg, "location": loc}))
        }
    }
}

/// `run` for closures that already produce a reply value: a panic object replaces the value.
fn run_flat(f: impl FnOnce() -> Value) -> Value {
    run(f).unwrap_or_else(|p| p)
}

// ------------------------------------------------------------------------------------------------
// Log capture
// ------------------------------------------------------------------------------------------------

struct CaptureLogger;

static LOGGER: CaptureLogger = CaptureLogger;
static LOGS: Mutex<Vec<(log::Level, String, String)>> = Mutex::new(Vec::new());

impl log::Log for CaptureLogger {
    fn enabled(&self, _: &log::Metadata) -> bool {
        true
    }

    fn log(&self, record: &log::Record) {
        // Format outside the lock: a panicking Display impl must not poison it mid-push.
        let msg = format!("{}", record.args());
        let target = record.target().to_string();
        LOGS.lock().unwrap_or_else(|e| e.into_inner()).push((record.level(), target, msg));
    }

    fn flush(&self) {}
}

fn set_log_level(level: &str) -> Result<(), String> {
    let filter = match level {
        "off" => log::LevelFilter::Off,
        "error" => log::LevelFilter::Error,
        "warn" => log::LevelFilter::Warn,
        "info" => log::LevelFilter::Info,
        "debug" => log::LevelFilter::Debug,
        "trace" => log::LevelFilter::Trace,
        other => return Err(format!("unknown log_level {other:?}")),
    };
    log::set_max_level(filter);
    Ok(())
}

fn drain_logs() -> Value {
    let logs: Vec<_> = LOGS.lock().unwrap_or_else(|e| e.into_inner()).drain(..).collect();
    Value::Array(logs.into_iter().map(|(l, t, m)| json!([l.to_string(), t, m])).collect())
}

// ------------------------------------------------------------------------------------------------
// JSON input helpers (never panic)
// ------------------------------------------------------------------------------------------------

fn field<'a>(c: &'a Value, k: &str) -> Option<&'a Value> {
    match c.get(k) {
        None | Some(Value::Null) => None,
        Some(v) => Some(v),
    }
}

fn opt_str<'a>(c: &'a Value, k: &str) -> Result<Option<&'a str>, String> {
    match field(c, k) {
        None => Ok(None),
        Some(Value::String(s)) => Ok(Some(s)),
        Some(_) => Err(format!("field {k:?} must be a string")),
    }
}

fn req_str<'a>(c: &'a Value, k: &str) -> Result<&'a str, String> {
    opt_str(c, k)?.ok_or_else(|| format!("missing string field {k:?}"))
}

fn str_or<'a>(c: &'a Value, k: &str, default: &'a str) -> Result<&'a str, String> {
    Ok(opt_str(c, k)?.unwrap_or(default))
}

fn bool_or(c: &Value, k: &str, default: bool) -> Result<bool, String> {
    match field(c, k) {
        None => Ok(default),
        Some(Value::Bool(b)) => Ok(*b),
        Some(_) => Err(format!("field {k:?} must be a boolean")),
    }
}

fn u64_or(c: &Value, k: &str, default: u64) -> Result<u64, String> {
    match field(c, k) {
        None => Ok(default),
        Some(v) => v.as_u64().ok_or_else(|| format!("field {k:?} must be a non-negative integer")),
    }
}

fn i64_or(c: &Value, k: &str, default: i64) -> Result<i64, String> {
    match field(c, k) {
        None => Ok(default),
        Some(v) => v.as_i64().ok_or_else(|| format!("field {k:?} must be an integer")),
    }
}

fn unhex(s: &str, what: &str) -> Result<Vec<u8>, String> {
    hex::decode(s).map_err(|e| format!("{what}: invalid hex: {e}"))
}

fn req_hex(c: &Value, k: &str) -> Result<Vec<u8>, String> {
    unhex(req_str(c, k)?, k)
}

fn str_list<'a>(v: Option<&'a Value>, what: &str) -> Result<Vec<&'a str>, String> {
    match v {
        None | Some(Value::Null) => Ok(Vec::new()),
        Some(Value::Array(a)) => {
            a.iter().map(|x| x.as_str().ok_or_else(|| format!("{what} must be a list of strings"))).collect()
        }
        Some(_) => Err(format!("{what} must be a list of strings")),
    }
}

fn instant(v: Option<&Value>, what: &str) -> Result<DateTime<Utc>, String> {
    let v = v.ok_or_else(|| format!("missing instant {what:?}"))?;
    if !v.is_object() {
        return Err(format!("{what} must be {{\"secs\":..,\"nanos\":..}}"));
    }
    let secs = v.get("secs").and_then(Value::as_i64).ok_or_else(|| format!("{what}.secs must be an i64"))?;
    let nanos = u64_or(v, "nanos", 0)?;
    let nanos = u32::try_from(nanos).map_err(|_| format!("{what}.nanos does not fit u32"))?;
    DateTime::<Utc>::from_timestamp(secs, nanos).ok_or_else(|| format!("{what} is out of chrono's range"))
}

fn instant_json(t: DateTime<Utc>) -> Value {
    json!({"secs": t.timestamp(), "nanos": t.timestamp_subsec_nanos()})
}

fn date(v: Option<&Value>) -> Result<NaiveDate, String> {
    let bad = || "date must be [year, month, day]".to_string();
    let a = v.and_then(Value::as_array).ok_or_else(bad)?;
    if a.len() != 3 {
        return Err(bad());
    }
    let y = a[0].as_i64().and_then(|y| i32::try_from(y).ok()).ok_or_else(bad)?;
    let m = a[1].as_u64().and_then(|m| u32::try_from(m).ok()).ok_or_else(bad)?;
    let d = a[2].as_u64().and_then(|d| u32::try_from(d).ok()).ok_or_else(bad)?;
    NaiveDate::from_ymd_opt(y, m, d).ok_or_else(|| format!("invalid date {y}-{m}-{d}"))
}

fn options(c: &Value) -> Result<SignatureOptions, String> {
    match field(c, "options") {
        None => Ok(SignatureOptions::default()),
        Some(o) if o.is_object() => Ok(SignatureOptions {
            s3: bool_or(o, "s3", false)?,
            url_encode_form: bool_or(o, "url_encode_form", false)?,
        }),
        Some(_) => Err("options must be an object".to_string()),
    }
}

// ------------------------------------------------------------------------------------------------
// Rendering of errors and common values
// ------------------------------------------------------------------------------------------------

fn sig_kind(e: &SignatureError) -> &'static str {
    match e {
        SignatureError::ExpiredToken(_) => "ExpiredToken",
        SignatureError::IO(_) => "IO",
        SignatureError::InternalServiceError(_) => "InternalServiceError",
        SignatureError::InvalidBodyEncoding(_) => "InvalidBodyEncoding",
        SignatureError::InvalidClientTokenId(_) => "InvalidClientTokenId",
        SignatureError::InvalidContentType(_) => "InvalidContentType",
        SignatureError::InvalidRequestMethod(_) => "InvalidRequestMethod",
        SignatureError::IncompleteSignature(_) => "IncompleteSignature",
        SignatureError::InvalidURIPath(_) => "InvalidURIPath",
        SignatureError::MalformedQueryString(_) => "MalformedQueryString",
        SignatureError::MissingAuthenticationToken(_) => "MissingAuthenticationToken",
        SignatureError::SignatureDoesNotMatch(_) => "SignatureDoesNotMatch",
        _ => "<unknown variant>",
    }
}

fn sig_err(e: &SignatureError) -> Value {
    json!({
        "kind": sig_kind(e),
        "msg": e.to_string(),
        "code": e.error_code(),
        "status": e.http_status().as_u16(),
        "debug": format!("{e:?}"),
    })
}

fn box_err(e: BoxError) -> Value {
    match e.downcast::<SignatureError>() {
        Ok(se) => sig_err(&se),
        Err(e) => json!({"kind": "<foreign>", "msg": e.to_string()}),
    }
}

fn sig_result_str(r: Result<String, SignatureError>) -> Value {
    match r {
        Ok(s) => json!({"ok": s}),
        Err(e) => json!({"err": sig_err(&e)}),
    }
}

fn sorted_string_map(m: &HashMap<String, Vec<String>>) -> Value {
    let mut keys: Vec<&String> = m.keys().collect();
    keys.sort();
    Value::Array(keys.into_iter().map(|k| json!([k, m[k]])).collect())
}

fn sorted_bytes_map(m: &HashMap<String, Vec<Vec<u8>>>) -> Value {
    let mut keys: Vec<&String> = m.keys().collect();
    keys.sort();
    Value::Array(
        keys.into_iter().map(|k| json!([k, m[k].iter().map(hex::encode).collect::<Vec<String>>()])).collect(),
    )
}

fn header_map_json(h: &HeaderMap) -> Value {
    Value::Array(h.iter().map(|(k, v)| json!([k.as_str(), hex::encode(v.as_bytes())])).collect())
}

fn version_str(v: Version) -> String {
    format!("{v:?}")
}

// ------------------------------------------------------------------------------------------------
// SignatureError construction (provider scripts, error table)
// ------------------------------------------------------------------------------------------------

#[derive(Debug)]
struct ForeignError(String);

impl fmt::Display for ForeignError {
    fn fmt(&self, f: &mut fmt::Formatter<'_>) -> fmt::Result {
        f.write_str(&self.0)
    }
}

impl Error for ForeignError {}

const STRING_KINDS: [&str; 9] = [
    "ExpiredToken",
    "InvalidBodyEncoding",
    "InvalidClientTokenId",
    "InvalidContentType",
    "InvalidRequestMethod",
    "IncompleteSignature",
    "InvalidURIPath",
    "MalformedQueryString",
    "MissingAuthenticationToken",
];

fn known_sig_kind(kind: &str) -> bool {
    STRING_KINDS.contains(&kind) || matches!(kind, "IO" | "InternalServiceError" | "SignatureDoesNotMatch")
}

/// Build a SignatureError of the named kind. `msg == None` is only meaningful for
/// SignatureDoesNotMatch (-> `None` payload); other kinds use "" then.
fn make_sig_err(kind: &str, msg: Option<&str>) -> Option<SignatureError> {
    let m = msg.unwrap_or("").to_string();
    Some(match kind {
        "ExpiredToken" => SignatureError::ExpiredToken(m),
        "IO" => SignatureError::IO(io::Error::new(io::ErrorKind::Other, m)),
        "InternalServiceError" => SignatureError::InternalServiceError(m.into()),
        "InvalidBodyEncoding" => SignatureError::InvalidBodyEncoding(m),
        "InvalidClientTokenId" => SignatureError::InvalidClientTokenId(m),
        "InvalidContentType" => SignatureError::InvalidContentType(m),
        "InvalidRequestMethod" => SignatureError::InvalidRequestMethod(m),
        "IncompleteSignature" => SignatureError::IncompleteSignature(m),
        "InvalidURIPath" => SignatureError::InvalidURIPath(m),
        "MalformedQueryString" => SignatureError::MalformedQueryString(m),
        "MissingAuthenticationToken" => SignatureError::MissingAuthenticationToken(m),
        "SignatureDoesNotMatch" => SignatureError::SignatureDoesNotMatch(msg.map(str::to_string)),
        _ => return None,
    })
}

// ------------------------------------------------------------------------------------------------
// Request description
// ------------------------------------------------------------------------------------------------

#[derive(Clone, Copy, PartialEq)]
enum BodyKind {
    Bytes,
    Vec,
    Unit,
}

#[derive(Clone)]
struct ReqSpec {
    method: Method,
    uri: Uri,
    version: Version,
    headers: HeaderMap,
    body: Vec<u8>,
    body_kind: BodyKind,
}

impl ReqSpec {
    fn build<B>(&self, body: B) -> Request<B> {
        let mut r = Request::new(body);
        *r.method_mut() = self.method.clone();
        *r.uri_mut() = self.uri.clone();
        *r.version_mut() = self.version;
        *r.headers_mut() = self.headers.clone();
        r
    }
}

fn parse_request(c: &Value) -> Result<ReqSpec, String> {
    let r = field(c, "request").ok_or("missing \"request\"")?;
    if !r.is_object() {
        return Err("\"request\" must be an object".to_string());
    }
    let method = str_or(r, "method", "GET")?;
    let uri_bytes: Vec<u8> = match (opt_str(r, "uri")?, opt_str(r, "uri_hex")?) {
        (Some(_), Some(_)) => return Err("give only one of request.uri / request.uri_hex".to_string()),
        (Some(u), None) => u.as_bytes().to_vec(),
        (None, Some(h)) => unhex(h, "request.uri_hex")?,
        (None, None) => return Err("missing request.uri".to_string()),
    };
    let version = match str_or(r, "version", "HTTP/1.1")? {
        "HTTP/0.9" => Version::HTTP_09,
        "HTTP/1.0" => Version::HTTP_10,
        "HTTP/1.1" => Version::HTTP_11,
        "HTTP/2.0" => Version::HTTP_2,
        "HTTP/3.0" => Version::HTTP_3,
        other => return Err(format!("unknown HTTP version {other:?}")),
    };
    let mut raw_headers: Vec<(&str, Vec<u8>)> = Vec::new();
    match field(r, "headers") {
        None => (),
        Some(Value::Array(hs)) => {
            for h in hs {
                match h.as_array().map(Vec::as_slice) {
                    Some([Value::String(n), Value::String(v)]) => {
                        raw_headers.push((n, unhex(v, "request.headers value")?))
                    }
                    _ => return Err("request.headers entries must be [name, value_hex]".to_string()),
                }
            }
        }
        Some(_) => return Err("request.headers must be a list".to_string()),
    }
    let body = unhex(str_or(r, "body_hex", "")?, "request.body_hex")?;
    let body_kind = match str_or(r, "body_kind", "bytes")? {
        "bytes" => BodyKind::Bytes,
        "vec" => BodyKind::Vec,
        "unit" => BodyKind::Unit,
        other => return Err(format!("unknown body_kind {other:?}")),
    };

    // Everything below goes through the http crate; whatever it rejects (or panics on) is bad input.
    let built = run(|| -> Result<ReqSpec, String> {
        let method =
            Method::from_bytes(method.as_bytes()).map_err(|e| format!("http rejects method {method:?}: {e}"))?;
        let uri = Uri::from_maybe_shared(Bytes::from(uri_bytes)).map_err(|e| format!("http rejects uri: {e}"))?;
        let mut headers = HeaderMap::new();
        for (n, v) in &raw_headers {
            let name = HeaderName::from_bytes(n.as_bytes())
                .map_err(|e| format!("http rejects header name {n:?}: {e}"))?;
            let value = HeaderValue::from_bytes(v)
                .map_err(|e| format!("http rejects value of header {n:?}: {e}"))?;
            headers.try_append(name, value).map_err(|e| format!("http rejects header set: {e}"))?;
        }
        Ok(ReqSpec {
            method,
            uri,
            version,
            headers,
            body,
            body_kind,
        })
    });
    match built {
        Ok(r) => r,
        Err(p) => Err(format!("http crate panicked building the request: {p}")),
    }
}

// ------------------------------------------------------------------------------------------------
// Signed header requirements
// ------------------------------------------------------------------------------------------------

const VEC_OPS: [&str; 6] = [
    "add_always_present",
    "add_if_in_request",
    "add_prefix",
    "remove_always_present",
    "remove_if_in_request",
    "remove_prefix",
];

/// Parsed (pure data) requirements description; the crate types are built inside `run`.
struct ReqsSpec<'a> {
    kind: &'a str,
    always: Vec<&'a str>,
    if_in: Vec<&'a str>,
    prefixes: Vec<&'a str>,
    ops: Vec<(&'a str, &'a str)>,
}

/// Backing storage for the `slice` kind: even positions are `Cow::Borrowed`, odd ones `Cow::Owned`.
struct SliceStore<'a>(Vec<Cow<'a, str>>, Vec<Cow<'a, str>>, Vec<Cow<'a, str>>);

/// Dispatches to the three concrete implementations (the crate's entry points are generic over
/// `S: SignedHeaderRequirements`, which must be `Sized`).
enum Reqs<'a> {
    Const(ConstSignedHeaderRequirements),
    Slice(SliceSignedHeaderRequirements<'a, 'a, 'a>),
    Vec(VecSignedHeaderRequirements),
}

impl SignedHeaderRequirements for Reqs<'_> {
    fn always_present(&self) -> &[Cow<'_, str>] {
        match self {
            Reqs::Const(r) => r.always_present(),
            Reqs::Slice(r) => r.always_present(),
            Reqs::Vec(r) => r.always_present(),
        }
    }

    fn if_in_request(&self) -> &[Cow<'_, str>] {
        match self {
            Reqs::Const(r) => r.if_in_request(),
            Reqs::Slice(r) => r.if_in_request(),
            Reqs::Vec(r) => r.if_in_request(),
        }
    }

    fn prefixes(&self) -> &[Cow<'_, str>] {
        match self {
            Reqs::Const(r) => r.prefixes(),
            Reqs::Slice(r) => r.prefixes(),
            Reqs::Vec(r) => r.prefixes(),
        }
    }
}

fn parse_reqs(v: Option<&Value>) -> Result<ReqsSpec<'_>, String> {
    let Some(v) = v else {
        return Ok(ReqsSpec {
            kind: "none",
            always: vec![],
            if_in: vec![],
            prefixes: vec![],
            ops: vec![],
        });
    };
    if !v.is_object() {
        return Err("requirements must be an object".to_string());
    }
    let kind = req_str(v, "kind")?;
    if !matches!(kind, "none" | "slice" | "vec") {
        return Err(format!("unknown requirements kind {kind:?}"));
    }
    let mut ops = Vec::new();
    match field(v, "ops") {
        None => (),
        Some(Value::Array(a)) => {
            for o in a {
                match o.as_array().map(Vec::as_slice) {
                    Some([Value::String(name), Value::String(arg)]) if VEC_OPS.contains(&name.as_str()) => {
                        ops.push((name.as_str(), arg.as_str()))
                    }
                    _ => return Err(format!("requirements.ops entries must be [method, arg] with method in {VEC_OPS:?}")),
                }
            }
        }
        Some(_) => return Err("requirements.ops must be a list".to_string()),
    }
    if kind != "vec" && !ops.is_empty() {
        return Err("requirements.ops is only valid for kind \"vec\"".to_string());
    }
    Ok(ReqsSpec {
        kind,
        always: str_list(v.get("always"), "requirements.always")?,
        if_in: str_list(v.get("if_in"), "requirements.if_in")?,
        prefixes: str_list(v.get("prefixes"), "requirements.prefixes")?,
        ops,
    })
}

impl<'a> ReqsSpec<'a> {
    fn store(&self) -> SliceStore<'a> {
        fn cows<'x>(v: &[&'x str]) -> Vec<Cow<'x, str>> {
            v.iter()
                .enumerate()
                .map(|(i, s)| {
                    if i % 2 == 0 {
                        Cow::Borrowed(*s)
                    } else {
                        Cow::Owned((*s).to_string())
                    }
                })
                .collect()
        }
        SliceStore(cows(&self.always), cows(&self.if_in), cows(&self.prefixes))
    }

    /// Build the crate's requirement object. Calls into the crate: use inside `run`.
    fn make<'s>(&self, st: &'s SliceStore<'s>) -> Reqs<'s> {
        match self.kind {
            "slice" => Reqs::Slice(SliceSignedHeaderRequirements::new(&st.0, &st.1, &st.2)),
            "vec" => {
                let mut v = VecSignedHeaderRequirements::new(&self.always, &self.if_in, &self.prefixes);
                for (op, arg) in &self.ops {
                    match *op {
                        "add_always_present" => v.add_always_present(arg),
                        "add_if_in_request" => v.add_if_in_request(arg),
                        "add_prefix" => v.add_prefix(arg),
                        "remove_always_present" => v.remove_always_present(arg),
                        "remove_if_in_request" => v.remove_if_in_request(arg),
                        _ => v.remove_prefix(arg),
                    }
                }
                Reqs::Vec(v)
            }
            _ => Reqs::Const(NO_ADDITIONAL_SIGNED_HEADERS),
        }
    }
}

fn cow_list(l: &[Cow<'_, str>]) -> Value {
    Value::Array(l.iter().map(|c| Value::String(c.to_string())).collect())
}

// ------------------------------------------------------------------------------------------------
// Scripted signing-key provider (hand-written tower::Service) and block_on
// ------------------------------------------------------------------------------------------------

#[derive(Clone)]
enum ErrSpec {
    Sig { kind: String, msg: Option<String> },
    Foreign(String),
}

impl ErrSpec {
    fn build(&self) -> BoxError {
        match self {
            ErrSpec::Sig {
                kind,
                msg,
            } => match make_sig_err(kind, msg.as_deref()) {
                Some(e) => Box::new(e),
                None => Box::new(ForeignError(format!("unknown kind {kind}"))), // unreachable: validated at parse time
            },
            ErrSpec::Foreign(m) => Box::new(ForeignError(m.clone())),
        }
    }
}

enum ResultSpec {
    Secret(String),
    ZeroKey,
    Err(ErrSpec),
}

struct Script {
    ready_pending: u64,
    ready_err: Option<ErrSpec>,
    future_pending: u64,
    result: ResultSpec,
    principal: Principal,
    session: SessionData,
}

#[derive(Default)]
struct ProviderLog {
    poll_ready_calls: u64,
    calls: Vec<Value>,
    events: Vec<&'static str>,
}

type SharedLog = Arc<Mutex<ProviderLog>>;

fn with_log<T>(log: &SharedLog, f: impl FnOnce(&mut ProviderLog) -> T) -> T {
    f(&mut log.lock().unwrap_or_else(|e| e.into_inner()))
}

fn provider_log_json(log: &SharedLog) -> Value {
    with_log(log, |l| json!({"poll_ready_calls": l.poll_ready_calls, "calls": l.calls, "events": l.events}))
}

fn parse_err_spec(v: &Value, what: &str) -> Result<ErrSpec, String> {
    if let Some(s) = field(v, "sig") {
        let kind = req_str(s, "kind")?;
        if !known_sig_kind(kind) {
            return Err(format!("{what}: unknown SignatureError kind {kind:?}"));
        }
        let msg = opt_str(s, "msg")?;
        if msg.is_none() && kind != "SignatureDoesNotMatch" {
            return Err(format!("{what}: kind {kind} needs a \"msg\""));
        }
        Ok(ErrSpec::Sig {
            kind: kind.to_string(),
            msg: msg.map(str::to_string),
        })
    } else if let Some(f) = opt_str(v, "foreign")? {
        Ok(ErrSpec::Foreign(f.to_string()))
    } else {
        Err(format!("{what} must be {{\"sig\":{{\"kind\",\"msg\"}}}} or {{\"foreign\":\"..\"}}"))
    }
}

fn parse_provider(c: &Value) -> Result<Script, String> {
    let p = field(c, "provider").ok_or("missing \"provider\"")?;
    if !p.is_object() {
        return Err("\"provider\" must be an object".to_string());
    }
    let res = field(p, "result").ok_or("missing provider.result")?;
    let result = if let Some(secret) = opt_str(res, "secret")? {
        if secret.len() > STD_SECRET_CAPACITY {
            return Err(format!("provider.result.secret does not fit KSecretKey<44> ({} > 40 bytes)", secret.len()));
        }
        ResultSpec::Secret(secret.to_string())
    } else if let Some(h) = opt_str(res, "signing_key_hex")? {
        let key = unhex(h, "provider.result.signing_key_hex")?;
        if key.len() != 32 {
            return Err("provider.result.signing_key_hex must be 64 hex digits".to_string());
        }
        if key.iter().any(|b| *b != 0) {
            // KSigningKey has no public constructor from bytes; only the all-zero key of
            // GetSigningKeyResponse::default() is reachable without unsafe code.
            return Err("signing_key_hex: only the all-zero key can be constructed (KSigningKey has no public \
                        constructor from bytes)"
                .to_string());
        }
        ResultSpec::ZeroKey
    } else if let Some(e) = field(res, "err") {
        ResultSpec::Err(parse_err_spec(e, "provider.result.err")?)
    } else {
        return Err("provider.result must have \"secret\", \"signing_key_hex\" or \"err\"".to_string());
    };
    let ready_err = match field(p, "ready_err") {
        None => None,
        Some(e) => Some(parse_err_spec(e, "provider.ready_err")?),
    };
    let user = opt_str(p, "principal_user")?;
    let mut session_pairs: Vec<(&str, &str)> = Vec::new();
    match field(p, "session") {
        None => (),
        Some(Value::Object(m)) => {
            for (k, v) in m {
                session_pairs.push((k, v.as_str().ok_or("provider.session values must be strings")?));
            }
        }
        Some(_) => return Err("provider.session must be an object of strings".to_string()),
    }
    // Principal/session come from the scratchstack-aws-principal crate (not under test); anything it
    // rejects is bad input.
    let built = run(|| -> Result<(Principal, SessionData), String> {
        let principal = match user {
            Some(name) => {
                let u = User::new("aws", "123456789012", "/", name)
                    .map_err(|e| format!("principal_user {name:?} rejected: {e}"))?;
                Principal::from(vec![u.into()])
            }
            None => Principal::new(vec![]),
        };
        let mut session = SessionData::new();
        for (k, v) in &session_pairs {
            session.insert(k, SessionValue::String((*v).to_string()));
        }
        Ok((principal, session))
    });
    let (principal, session) = match built {
        Ok(r) => r?,
        Err(p) => return Err(format!("principal crate panicked: {p}")),
    };
    Ok(Script {
        ready_pending: u64_or(p, "ready_pending", 0)?,
        ready_err,
        future_pending: u64_or(p, "future_pending", 0)?,
        result,
        principal,
        session,
    })
}

struct Provider {
    script: Arc<Script>,
    log: SharedLog,
    ready_left: u64,
}

impl Provider {
    fn new(script: &Arc<Script>, log: &SharedLog) -> Self {
        Provider {
            script: script.clone(),
            log: log.clone(),
            ready_left: script.ready_pending,
        }
    }
}

struct ProviderFuture {
    script: Arc<Script>,
    log: SharedLog,
    pending_left: u64,
    req: GetSigningKeyRequest,
}

impl Service<GetSigningKeyRequest> for Provider {
    type Response = GetSigningKeyResponse;
    type Error = BoxError;
    type Future = ProviderFuture;

    fn poll_ready(&mut self, cx: &mut Context<'_>) -> Poll<Result<(), BoxError>> {
        with_log(&self.log, |l| l.poll_ready_calls += 1);
        if self.ready_left > 0 {
            self.ready_left -= 1;
            with_log(&self.log, |l| l.events.push("poll_ready:pending"));
            cx.waker().wake_by_ref();
            return Poll::Pending;
        }
        if let Some(e) = &self.script.ready_err {
            with_log(&self.log, |l| l.events.push("poll_ready:err"));
            return Poll::Ready(Err(e.build()));
        }
        with_log(&self.log, |l| l.events.push("poll_ready:ready"));
        Poll::Ready(Ok(()))
    }

    fn call(&mut self, req: GetSigningKeyRequest) -> ProviderFuture {
        let d = req.request_date();
        let call = json!({
            "access_key": req.access_key(),
            "session_token": req.session_token(),
            "date": [d.year(), d.month(), d.day()],
            "region": req.region(),
            "service": req.service(),
        });
        with_log(&self.log, |l| {
            l.events.push("call");
            l.calls.push(call);
        });
        ProviderFuture {
            script: self.script.clone(),
            log: self.log.clone(),
            pending_left: self.script.future_pending,
            req,
        }
    }
}

impl Future for ProviderFuture {
    type Output = Result<GetSigningKeyResponse, BoxError>;

    fn poll(self: Pin<&mut Self>, cx: &mut Context<'_>) -> Poll<Self::Output> {
        let this = self.get_mut(); // all fields are Unpin
        if this.pending_left > 0 {
            this.pending_left -= 1;
            with_log(&this.log, |l| l.events.push("future:pending"));
            cx.waker().wake_by_ref();
            return Poll::Pending;
        }
        with_log(&this.log, |l| l.events.push("future:ready"));
        let key = match &this.script.result {
            ResultSpec::Secret(s) => match KSecretKey::<44>::from_str(s) {
                Ok(k) => k.to_ksigning(this.req.request_date(), this.req.region(), this.req.service()),
                Err(e) => return Poll::Ready(Err(Box::new(e))),
            },
            ResultSpec::ZeroKey => *GetSigningKeyResponse::default().signing_key(),
            ResultSpec::Err(e) => return Poll::Ready(Err(e.build())),
        };
        let resp = GetSigningKeyResponse::builder()
            .principal(this.script.principal.clone())
            .session_data(this.script.session.clone())
            .signing_key(key)
            .build();
        Poll::Ready(resp.map_err(|e| Box::new(e) as BoxError))
    }
}

/// Compile-time check that the provider and its future are `Send`, as the crate's bounds demand.
#[allow(dead_code)]
fn assert_send() {
    fn is_send<T: Send>() {}
    is_send::<Provider>();
    is_send::<ProviderFuture>();
}

fn noop_waker() -> Waker {
    fn clone(_: *const ()) -> RawWaker {
        RawWaker::new(std::ptr::null(), &VTABLE)
    }
    fn noop(_: *const ()) {}
    static VTABLE: RawWakerVTable = RawWakerVTable::new(clone, noop, noop, noop);
    // SAFETY: the vtable functions ignore the (null) data pointer and have no effects, which
    // trivially upholds the RawWaker contract.
    unsafe { Waker::from_raw(RawWaker::new(std::ptr::null(), &VTABLE)) }
}

/// Poll `fut` with a no-op waker until it is ready; `polls` counts top-level polls (and stays
/// readable if a poll panics). `None` after MAX_POLLS polls.
fn block_on<F: Future>(fut: F, polls: &Cell<u64>) -> Option<F::Output> {
    let mut fut = std::pin::pin!(fut);
    let waker = noop_waker();
    let mut cx = Context::from_waker(&waker);
    while polls.get() < MAX_POLLS {
        polls.set(polls.get() + 1);
        if let Poll::Ready(v) = fut.as_mut().poll(&mut cx) {
            return Some(v);
        }
    }
    None
}

const NEVER_READY: &str = "never ready";

// ------------------------------------------------------------------------------------------------
// Simple ops
// ------------------------------------------------------------------------------------------------

fn op_canon_path(c: &Value) -> R {
    let path = req_str(c, "path")?;
    let s3 = bool_or(c, "s3", false)?;
    Ok(run_flat(|| sig_result_str(canonical::canonicalize_uri_path(path, s3))))
}

fn op_norm_element(c: &Value) -> R {
    let s = req_str(c, "s")?;
    match req_str(c, "kind")? {
        "path" => Ok(run_flat(|| sig_result_str(canonical::normalize_uri_path_component(s)))),
        "query" => Ok(run_flat(|| sig_result_str(canonical::normalize_query_string_element(s)))),
        other => Err(format!("norm_element kind must be \"path\" or \"query\", got {other:?}")),
    }
}

fn op_canon_query(c: &Value) -> R {
    let q = req_str(c, "query")?;
    let repeat = u64_or(c, "repeat", 1)?;
    if repeat == 0 || repeat > 1_000_000 {
        return Err("repeat must be in 1..=1000000".to_string());
    }
    Ok(run_flat(|| {
        let mut first: Option<(String, Value)> = None;
        let mut all_equal = true;
        for _ in 0..repeat {
            let map = match canonical::query_string_to_normalized_map(q) {
                Ok(m) => m,
                Err(e) => return json!({"err": sig_err(&e)}),
            };
            let s = canonical::canonicalize_query_to_string(&map);
            match &first {
                None => first = Some((s, sorted_string_map(&map))),
                Some((f, _)) => all_equal &= *f == s,
            }
        }
        let (ok, map) = first.unwrap_or_default();
        json!({"ok": ok, "all_equal": all_equal, "map": map})
    }))
}

fn op_unescape(c: &Value) -> R {
    let s = req_str(c, "s")?;
    Ok(run_flat(|| json!({"ok": canonical::unescape_uri_encoding(s)})))
}

fn op_header_value(c: &Value) -> R {
    let b = req_hex(c, "hex")?;
    Ok(run_flat(|| json!({"ok_hex": hex::encode(canonical::normalize_header_value(&b))})))
}

fn op_trim_ascii(c: &Value) -> R {
    let b = req_hex(c, "hex")?;
    Ok(run_flat(|| {
        json!({
            "ok_hex": hex::encode(canonical::trim_ascii(&b)),
            "start_hex": hex::encode(canonical::trim_ascii_start(&b)),
            "end_hex": hex::encode(canonical::trim_ascii_end(&b)),
        })
    }))
}

fn op_latin1(c: &Value) -> R {
    let b = req_hex(c, "hex")?;
    Ok(run_flat(|| json!({"ok": canonical::latin1_to_string(&b)})))
}

fn op_bytes_kernels(_: &Value) -> R {
    Ok(run_flat(|| {
        let unreserved: Vec<bool> = (0..=255u8).map(canonical::is_rfc3986_unreserved).collect();
        let upper_hex: Vec<String> =
            (0..=255u8).map(|b| canonical::u8_to_upper_hex(b).iter().map(|c| *c as char).collect()).collect();
        json!({"unreserved": unreserved, "upper_hex": upper_hex})
    }))
}

fn op_parse_iso(c: &Value) -> R {
    let s = req_str(c, "s")?;
    Ok(run_flat(|| match DateTime::<FixedOffset>::parse_from_iso8601(s) {
        Ok(dt) => json!({"ok": {
            "secs": dt.timestamp(),
            "nanos": dt.timestamp_subsec_nanos(),
            "offset": dt.offset().local_minus_utc(),
        }}),
        Err(e) => json!({"err": e.to_string()}),
    }))
}

fn from_str_m<const M: usize>(s: &str) -> Result<(), KeyTooLongError> {
    KSecretKey::<M>::from_str(s).map(|_| ())
}

fn op_from_str(c: &Value) -> R {
    let s = req_str(c, "secret")?;
    let m = u64_or(c, "m", 44)?;
    if ![0, 3, 4, 5, 8, 44, 64].contains(&m) {
        return Err("m must be one of 0,3,4,5,8,44,64".to_string());
    }
    Ok(run_flat(|| {
        let r = match m {
            0 => from_str_m::<0>(s).map(|_| json!({})),
            3 => from_str_m::<3>(s).map(|_| json!({})),
            4 => from_str_m::<4>(s).map(|_| json!({})),
            5 => from_str_m::<5>(s).map(|_| json!({})),
            8 => from_str_m::<8>(s).map(|_| json!({})),
            64 => from_str_m::<64>(s).map(|_| json!({})),
            _ => KSecretKey::<44>::from_str(s).map(|k| json!({"as_ref_hex": hex::encode(k.as_ref())})),
        };
        match r {
            Ok(v) => json!({"ok": v}),
            Err(e) => json!({"err": format!("{e:?}")}),
        }
    }))
}

/// Parse the standard-size secret used by derive/fmt: Ok(Ok(key)) | Ok(Err(panic object)) | Err(bad input).
fn std_secret(secret: &str) -> Result<Result<KSecretKey, Value>, String> {
    if secret.len() > STD_SECRET_CAPACITY {
        return Err(format!("secret does not fit KSecretKey<44> ({} > 40 bytes)", secret.len()));
    }
    match run(|| KSecretKey::<44>::from_str(secret)) {
        Ok(Ok(k)) => Ok(Ok(k)),
        Ok(Err(e)) => Err(format!("secret rejected: {e}")),
        Err(p) => Ok(Err(p)),
    }
}

fn op_derive(c: &Value) -> R {
    let secret = req_str(c, "secret")?;
    let d = date(field(c, "date"))?;
    let region = req_str(c, "region")?;
    let service = req_str(c, "service")?;
    let ks = match std_secret(secret)? {
        Ok(k) => k,
        Err(p) => return Ok(p),
    };
    Ok(run_flat(|| {
        let kdate = ks.to_kdate(d);
        let kregion = kdate.to_kregion(region);
        let kservice = kregion.to_kservice(service);
        let ksigning = kservice.to_ksigning();
        let s_kregion = ks.to_kregion(d, region);
        let s_kservice = ks.to_kservice(d, region, service);
        let s_ksigning = ks.to_ksigning(d, region, service);
        let d_kservice = kdate.to_kservice(region, service);
        let d_ksigning = kdate.to_ksigning(region, service);
        let r_ksigning = kregion.to_ksigning(service);
        let shortcuts_equal = s_kregion == kregion
            && s_kservice == kservice
            && s_ksigning == ksigning
            && d_kservice == kservice
            && d_ksigning == ksigning
            && r_ksigning == ksigning;
        fn h<T: AsRef<[u8; 32]>>(k: &T) -> String {
            hex::encode(k.as_ref())
        }
        json!({
            "kdate": h(&kdate), "kregion": h(&kregion), "kservice": h(&kservice), "ksigning": h(&ksigning),
            "shortcuts_equal": shortcuts_equal,
            "shortcuts": {
                "secret.to_kregion": h(&s_kregion),
                "secret.to_kservice": h(&s_kservice),
                "secret.to_ksigning": h(&s_ksigning),
                "kdate.to_kservice": h(&d_kservice),
                "kdate.to_ksigning": h(&d_ksigning),
                "kregion.to_ksigning": h(&r_ksigning),
            },
        })
    }))
}

fn op_hmac(c: &Value) -> R {
    let key = req_hex(c, "key_hex")?;
    let msg = req_hex(c, "msg_hex")?;
    Ok(run_flat(|| match Hmac::<Sha256>::new_from_slice(&key) {
        Ok(mut mac) => {
            mac.update(&msg);
            json!({"ok_hex": hex::encode(mac.finalize().into_bytes())})
        }
        Err(e) => json!({"bad_input": format!("hmac key rejected: {e}")}),
    }))
}

fn op_sha256(c: &Value) -> R {
    let b = req_hex(c, "hex")?;
    Ok(run_flat(|| json!({"ok_hex": hex::encode(Sha256::digest(&b))})))
}

fn op_error_table(_: &Value) -> R {
    Ok(run_flat(|| {
        // (kind, payload); payload None only for the SignatureDoesNotMatch(None) row.
        let mut specs: Vec<(&str, Option<&str>)> = vec![("ExpiredToken", Some("m")), ("IO", Some("m")), ("InternalServiceError", Some("m"))];
        specs.extend(STRING_KINDS.iter().filter(|k| **k != "ExpiredToken").map(|k| (*k, Some("m"))));
        specs.push(("SignatureDoesNotMatch", Some("m")));
        specs.push(("SignatureDoesNotMatch", None));

        let mut rows = Vec::new();
        let mut from_box_sig = Vec::new();
        for (kind, payload) in &specs {
            let Some(e) = make_sig_err(kind, *payload) else { continue };
            rows.push(json!({
                "kind": sig_kind(&e),
                "payload": payload,
                "code": e.error_code(),
                "status": e.http_status().as_u16(),
                "display": e.to_string(),
                "debug": format!("{e:?}"),
                "has_source": e.source().is_some(),
            }));
            let msg_in = e.to_string();
            let boxed: Box<dyn Error + Send + Sync> = Box::new(e);
            let back = SignatureError::from(boxed);
            from_box_sig.push(json!({
                "kind_in": kind,
                "payload": payload,
                "kind": sig_kind(&back),
                "msg": back.to_string(),
                "same": sig_kind(&back) == *kind && back.to_string() == msg_in,
            }));
        }
        let foreign: Box<dyn Error + Send + Sync> = Box::new(ForeignError("m".to_string()));
        let back = SignatureError::from(foreign);
        json!({
            "rows": rows,
            "from_box_sig": from_box_sig,
            "from_box_foreign": {
                "kind": sig_kind(&back), "msg": back.to_string(), "code": back.error_code(),
                "status": back.http_status().as_u16(),
            },
        })
    }))
}

fn op_requirements(c: &Value) -> R {
    let spec = parse_reqs(Some(field(c, "requirements").ok_or("missing \"requirements\"")?))?;
    Ok(run_flat(|| {
        let store = spec.store();
        let reqs = spec.make(&store);
        json!({
            "always": cow_list(reqs.always_present()),
            "if_in": cow_list(reqs.if_in_request()),
            "prefixes": cow_list(reqs.prefixes()),
        })
    }))
}

fn op_fmt(c: &Value) -> R {
    let secret = req_str(c, "secret")?;
    let d = date(field(c, "date"))?;
    let region = req_str(c, "region")?;
    let service = req_str(c, "service")?;
    let ks = match std_secret(secret)? {
        Ok(k) => k,
        Err(p) => return Ok(p),
    };
    Ok(run_flat(|| {
        let mut items: Vec<Value> = Vec::new();
        let mut add = |what: &str, text: String| items.push(json!({"what": what, "text": text}));

        let kdate = ks.to_kdate(d);
        let kregion = kdate.to_kregion(region);
        let kservice = kregion.to_kservice(service);
        let ksigning = kservice.to_ksigning();
        add("KSecretKey Debug", format!("{ks:?}"));
        add("KSecretKey Display", format!("{ks}"));
        add("KDateKey Debug", format!("{kdate:?}"));
        add("KDateKey Display", format!("{kdate}"));
        add("KRegionKey Debug", format!("{kregion:?}"));
        add("KRegionKey Display", format!("{kregion}"));
        add("KServiceKey Debug", format!("{kservice:?}"));
        add("KServiceKey Display", format!("{kservice}"));
        add("KSigningKey Debug", format!("{ksigning:?}"));
        add("KSigningKey Display", format!("{ksigning}"));

        match GetSigningKeyRequest::builder()
            .access_key("AKID")
            .session_token(Some("tok".to_string()))
            .request_date(d)
            .region(region)
            .service(service)
            .build()
        {
            Ok(req) => add("GetSigningKeyRequest Debug", format!("{req:?}")),
            Err(e) => add("GetSigningKeyRequest build error", e.to_string()),
        }

        let principal = match User::new("aws", "123456789012", "/", "test") {
            Ok(u) => Principal::from(vec![u.into()]),
            Err(_) => Principal::new(vec![]),
        };
        let mut builder = GetSigningKeyResponse::builder();
        builder.principal(principal).signing_key(ksigning);
        // GetSigningKeyResponseBuilder does not implement Debug (derive_builder only derives Clone
        // for it), so there is no rendering of the builder.
        match builder.build() {
            Ok(resp) => {
                add("GetSigningKeyResponse Debug", format!("{resp:?}"));
                let auth_resp = SigV4AuthenticatorResponse::from(resp);
                add("SigV4AuthenticatorResponse Debug", format!("{auth_resp:?}"));
            }
            Err(e) => add("GetSigningKeyResponse build error", e.to_string()),
        }

        let mut ab = SigV4Authenticator::builder();
        ab.canonical_request_sha256([0u8; 32])
            .credential(format!("AKID/{}/{region}/{service}/aws4_request", d.format("%Y%m%d")))
            .session_token("tok")
            .signature("sig".to_string())
            .request_timestamp(DateTime::<Utc>::UNIX_EPOCH);
        add("SigV4AuthenticatorBuilder Debug", format!("{ab:?}"));
        match ab.build() {
            Ok(a) => add("SigV4Authenticator Debug", format!("{a:?}")),
            Err(e) => add("SigV4Authenticator build error", e.to_string()),
        }

        add("KeyTooLongError Debug", format!("{KeyTooLongError:?}"));
        add("KeyTooLongError Display", format!("{KeyTooLongError}"));
        drop(add);
        json!({"items": items})
    }))
}

// ------------------------------------------------------------------------------------------------
// canonical
// ------------------------------------------------------------------------------------------------

fn authenticator_json(a: &SigV4Authenticator) -> Value {
    let sts = if a.credential().contains('/') {
        run(|| hex::encode(a.get_string_to_sign())).map(Value::String).unwrap_or_else(|p| p)
    } else {
        Value::Null // get_string_to_sign is documented to panic without a '/'
    };
    json!({
        "credential": a.credential(),
        "signature": a.signature(),
        "session_token": a.session_token(),
        "timestamp": instant_json(a.request_timestamp()),
        "canonical_request_sha256": hex::encode(a.canonical_request_sha256()),
        "string_to_sign_hex": sts,
        "debug": format!("{a:?}"),
    })
}

fn op_canonical(c: &Value) -> R {
    let spec = parse_request(c)?;
    let opts = options(c)?;
    let signed_headers: Option<Vec<String>> = match field(c, "signed_headers") {
        None => None,
        Some(v) => Some(str_list(Some(v), "signed_headers")?.into_iter().map(str::to_string).collect()),
    };
    let reqs_spec = match field(c, "requirements") {
        None => None,
        Some(v) => Some(parse_reqs(Some(v))?),
    };
    Ok(run_flat(|| {
        let (parts, body) = spec.build(Bytes::from(spec.body.clone())).into_parts();
        let (cr, parts, body) = match CanonicalRequest::from_request_parts(parts, body, opts) {
            Ok(t) => t,
            Err(e) => return json!({"err": sig_err(&e)}),
        };
        let mut ok = json!({
            "method": cr.request_method(),
            "canonical_path": cr.canonical_path(),
            "canonical_query": cr.canonical_query_string(),
            "query_parameters": sorted_string_map(cr.query_parameters()),
            "headers": sorted_bytes_map(cr.headers()),
            "body_sha256": cr.body_sha256(),
            "returned_uri": parts.uri.to_string(),
            "returned_body_hex": hex::encode(&body),
            "debug": run(|| format!("{cr:?}")).map(Value::String).unwrap_or_else(|p| p),
        });
        if let Some(sh) = &signed_headers {
            match run(|| (cr.canonical_request(sh), cr.canonical_request_sha256(sh))) {
                Ok((creq, sha)) => {
                    ok["canonical_request_hex"] = json!(hex::encode(creq));
                    ok["canonical_request_sha256"] = json!(hex::encode(sha));
                }
                Err(p) => {
                    ok["canonical_request_hex"] = p.clone();
                    ok["canonical_request_sha256"] = p;
                }
            }
        }
        if let Some(rs) = &reqs_spec {
            let store = rs.store();
            ok["auth_params"] = run_flat(|| {
                let reqs = rs.make(&store);
                match cr.get_auth_parameters(&reqs) {
                    Ok(ap) => json!({"ok": {
                        "credential": ap.builder.get_credential(),
                        "signature": ap.builder.get_signature(),
                        "session_token": ap.builder.get_session_token(),
                        "signed_headers": ap.signed_headers,
                        "timestamp_str": ap.timestamp_str,
                        "debug": format!("{ap:?}"),
                    }}),
                    Err(e) => json!({"err": sig_err(&e)}),
                }
            });
            ok["authenticator"] = run_flat(|| {
                let reqs = rs.make(&store);
                match cr.get_authenticator(&reqs) {
                    Ok(a) => json!({"ok": authenticator_json(&a)}),
                    Err(e) => json!({"err": sig_err(&e)}),
                }
            });
        }
        json!({"ok": ok})
    }))
}

// ------------------------------------------------------------------------------------------------
// validate
// ------------------------------------------------------------------------------------------------

fn auth_response_json(r: &SigV4AuthenticatorResponse) -> Value {
    json!({"principal": format!("{:?}", r.principal()), "session_data": format!("{:?}", r.session_data())})
}

#[allow(clippy::too_many_arguments)]
fn drive_validate<B: IntoRequestBytes>(
    req: Request<B>,
    region: &str,
    service: &str,
    provider: &mut Provider,
    t: DateTime<Utc>,
    reqs: &Reqs<'_>,
    opts: SignatureOptions,
    polls: &Cell<u64>,
) -> Option<Value> {
    let r = block_on(sigv4_validate_request(req, region, service, provider, t, reqs, opts), polls)?;
    Some(match r {
        Ok((parts, body, resp)) => {
            let mut ok = auth_response_json(&resp);
            ok["method"] = json!(parts.method.as_str());
            ok["uri"] = json!(parts.uri.to_string());
            ok["version"] = json!(version_str(parts.version));
            ok["headers"] = header_map_json(&parts.headers);
            ok["body_hex"] = json!(hex::encode(&body));
            json!({"ok": ok})
        }
        Err(e) => json!({"err": box_err(e)}),
    })
}

struct ValidateArgs<'a> {
    spec: ReqSpec,
    region: &'a str,
    service: &'a str,
    t: DateTime<Utc>,
    reqs: ReqsSpec<'a>,
    opts: SignatureOptions,
    script: Arc<Script>,
}

/// One complete validation on a fresh request and a fresh provider.
/// Returns (the part compared for `repeat_equal`, logs) or Err(bad input).
fn validate_once(a: &ValidateArgs<'_>) -> Result<(Value, Value), String> {
    let _ = drain_logs();
    let log: SharedLog = Arc::default();
    let polls = Cell::new(0u64);
    let outcome = run(|| {
        let store = a.reqs.store();
        let reqs = a.reqs.make(&store);
        let mut provider = Provider::new(&a.script, &log);
        let (p, s) = (&mut provider, &a.spec);
        match s.body_kind {
            BodyKind::Bytes => {
                drive_validate(s.build(Bytes::from(s.body.clone())), a.region, a.service, p, a.t, &reqs, a.opts, &polls)
            }
            BodyKind::Vec => drive_validate(s.build(s.body.clone()), a.region, a.service, p, a.t, &reqs, a.opts, &polls),
            BodyKind::Unit => drive_validate(s.build(()), a.region, a.service, p, a.t, &reqs, a.opts, &polls),
        }
    });
    let logs = drain_logs();
    let result = match outcome {
        Ok(Some(v)) => v,
        Ok(None) => return Err(NEVER_READY.to_string()),
        Err(p) => p,
    };
    Ok((json!({"result": result, "provider": provider_log_json(&log), "polls": polls.get()}), logs))
}

fn op_validate(c: &Value) -> R {
    let args = ValidateArgs {
        spec: parse_request(c)?,
        region: req_str(c, "region")?,
        service: req_str(c, "service")?,
        t: instant(field(c, "server_time"), "server_time")?,
        reqs: parse_reqs(field(c, "requirements"))?,
        opts: options(c)?,
        script: Arc::new(parse_provider(c)?),
    };
    let repeat = u64_or(c, "repeat", 1)?;
    if repeat == 0 || repeat > 100_000 {
        return Err("repeat must be in 1..=100000".to_string());
    }
    set_log_level(str_or(c, "log_level", "off")?)?;

    let (mut reply, logs) = validate_once(&args)?;
    let mut repeat_equal = true;
    for _ in 1..repeat {
        let (again, _) = validate_once(&args)?;
        repeat_equal &= again == reply;
    }
    reply["logs"] = logs;
    reply["repeat_equal"] = json!(repeat_equal);
    Ok(reply)
}

// ------------------------------------------------------------------------------------------------
// authenticator
// ------------------------------------------------------------------------------------------------

fn op_authenticator(c: &Value) -> R {
    let sha = req_hex(c, "canonical_request_sha256")?;
    let sha: [u8; 32] = sha.try_into().map_err(|_| "canonical_request_sha256 must be 32 bytes".to_string())?;
    let credential = req_str(c, "credential")?;
    let session_token = opt_str(c, "session_token")?;
    let signature = req_str(c, "signature")?;
    let timestamp = instant(field(c, "timestamp"), "timestamp")?;
    let call = req_str(c, "call")?;
    if !matches!(call, "prevalidate" | "validate_signature" | "string_to_sign" | "debug") {
        return Err(format!("unknown call {call:?}"));
    }
    let needs_ctx = matches!(call, "prevalidate" | "validate_signature");
    let region = if needs_ctx { req_str(c, "region")? } else { str_or(c, "region", "")? };
    let service = if needs_ctx { req_str(c, "service")? } else { str_or(c, "service", "")? };
    let server_time = if needs_ctx {
        instant(field(c, "server_time"), "server_time")?
    } else {
        DateTime::<Utc>::UNIX_EPOCH
    };
    let mm_secs = i64_or(c, "mismatch_secs", 900)?;
    let mm_nanos = u32::try_from(u64_or(c, "mismatch_nanos", 0)?).map_err(|_| "mismatch_nanos does not fit u32")?;
    let mismatch = TimeDelta::new(mm_secs, mm_nanos).ok_or("mismatch is out of TimeDelta's range")?;
    let script = if call == "validate_signature" { Some(Arc::new(parse_provider(c)?)) } else { None };
    set_log_level(str_or(c, "log_level", "off")?)?;
    let _ = drain_logs();

    let log: SharedLog = Arc::default();
    let polls = Cell::new(0u64);
    let outcome = run(|| -> Result<Option<Value>, String> {
        let mut b = SigV4Authenticator::builder();
        b.canonical_request_sha256(sha)
            .credential(credential.to_string())
            .signature(signature.to_string())
            .request_timestamp(timestamp);
        if let Some(tok) = session_token {
            b.session_token(tok);
        }
        let auth = b.build().map_err(|e| format!("SigV4AuthenticatorBuilder::build failed: {e}"))?;
        Ok(Some(match call {
            "prevalidate" => match auth.prevalidate(region, service, server_time, mismatch) {
                Ok(()) => json!({"ok": null}),
                Err(e) => json!({"err": sig_err(&e)}),
            },
            "validate_signature" => {
                let Some(script) = &script else { return Err("missing provider".to_string()) };
                let mut provider = Provider::new(script, &log);
                let fut = auth.validate_signature(region, service, server_time, mismatch, &mut provider);
                match block_on(fut, &polls) {
                    None => return Ok(None),
                    Some(Ok(resp)) => json!({"ok": auth_response_json(&resp)}),
                    Some(Err(e)) => json!({"err": sig_err(&e)}),
                }
            }
            "string_to_sign" => json!({"ok": {"hex": hex::encode(auth.get_string_to_sign())}}),
            _ => json!({"ok": {"debug": format!("{auth:?}")}}),
        }))
    });
    let logs = drain_logs();
    let result = match outcome {
        Ok(Ok(Some(v))) => v,
        Ok(Ok(None)) => return Err(NEVER_READY.to_string()),
        Ok(Err(bad)) => return Err(bad),
        Err(p) => p,
    };
    Ok(json!({"result": result, "provider": provider_log_json(&log), "polls": polls.get(), "logs": logs}))
}

// ------------------------------------------------------------------------------------------------
// Dispatch and main loop
// ------------------------------------------------------------------------------------------------

fn dispatch(c: &Value) -> R {
    if !c.is_object() {
        return Err("command must be a JSON object".to_string());
    }
    match req_str(c, "op")? {
        "canon_path" => op_canon_path(c),
        "norm_element" => op_norm_element(c),
        "canon_query" => op_canon_query(c),
        "unescape" => op_unescape(c),
        "header_value" => op_header_value(c),
        "trim_ascii" => op_trim_ascii(c),
        "latin1" => op_latin1(c),
        "bytes_kernels" => op_bytes_kernels(c),
        "parse_iso" => op_parse_iso(c),
        "from_str" => op_from_str(c),
        "derive" => op_derive(c),
        "hmac" => op_hmac(c),
        "sha256" => op_sha256(c),
        "error_table" => op_error_table(c),
        "requirements" => op_requirements(c),
        "canonical" => op_canonical(c),
        "validate" => op_validate(c),
        "authenticator" => op_authenticator(c),
        "fmt" => op_fmt(c),
        "ct_trace" => Err("unsupported".to_string()),
        other => Err(format!("unknown op {other:?}")),
    }
}

/// Answer one raw command line. Never panics, always returns exactly one line (no newline inside).
fn answer(line: &[u8]) -> String {
    let cmd: Result<Value, _> = serde_json::from_slice(line);
    let (id, mut reply) = match &cmd {
        Err(e) => (None, json!({"bad_input": format!("invalid JSON: {e}")})),
        Ok(c) => {
            log::set_max_level(log::LevelFilter::Off);
            // The outer guard only catches bugs of this harness (ops guard their own crate calls).
            let reply = match run(|| dispatch(c)) {
                Ok(Ok(v)) => v,
                Ok(Err(why)) => json!({"bad_input": why}),
                Err(mut p) => {
                    p["outer"] = json!(true);
                    p
                }
            };
            (c.get("id").cloned(), reply)
        }
    };
    if let (Some(id), Some(obj)) = (id, reply.as_object_mut()) {
        obj.insert("id".to_string(), id);
    }
    serde_json::to_string(&reply).unwrap_or_else(|e| format!("{{\"bad_input\":\"unserializable reply: {e}\"}}"))
}

fn main() {
    install_panic_hook();
    let _ = log::set_logger(&LOGGER);
    log::set_max_level(log::LevelFilter::Off);

    let args: Vec<String> = std::env::args().collect();
    let stdout = io::stdout();
    let mut out = stdout.lock();
    if args.len() >= 2 {
        if args.len() == 3 && args[1] == "--one" {
            let _ = writeln!(out, "{}", answer(args[2].as_bytes()));
            let _ = out.flush();
            return;
        }
        eprintln!("usage: verif-replay [--one '<json>']");
        std::process::exit(2);
    }

    let stdin = io::stdin();
    let mut input = stdin.lock();
    let mut line = Vec::new();
    loop {
        line.clear();
        match input.read_until(b'\n', &mut line) {
            Ok(0) => break,
            Ok(_) => (),
            Err(e) if e.kind() == io::ErrorKind::Interrupted => continue,
            Err(_) => break,
        }
        if line.iter().all(u8::is_ascii_whitespace) {
            continue;
        }
        if writeln!(out, "{}", answer(&line)).and_then(|_| out.flush()).is_err() {
            break; // reader went away
        }
    }
}
