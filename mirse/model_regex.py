"""Model of the `regex` crate API used by the crate under test.

The *pattern* is parsed from the string the program passes to `Regex::new` (so it is
re-read from the MIR on every run); matching is a backtracking matcher with
leftmost-first semantics over (possibly symbolic) UTF-8 bytes, forking through
`ctx.branch` on every character test.
"""
import unicodedata
import z3

from .values import *
from .lib_std import elems_of, deref, decode_char, concrete_bytes, new_string, sub, fat


def _nd_ranges():
    out = []
    start = None
    prev = None
    for cp in range(0x110000):
        if unicodedata.category(chr(cp)) == 'Nd':
            if start is None:
                start = cp
            prev = cp
        elif start is not None:
            out.append((start, prev))
            start = None
    if start is not None:
        out.append((start, prev))
    return out


_ND = None
_WS = [(0x09, 0x0D), (0x20, 0x20), (0x85, 0x85), (0xA0, 0xA0), (0x1680, 0x1680), (0x2000, 0x200A),
       (0x2028, 0x2029), (0x202F, 0x202F), (0x205F, 0x205F), (0x3000, 0x3000)]


def nd_ranges():
    global _ND
    if _ND is None:
        _ND = _nd_ranges()
    return _ND


class RegexSyntaxError(Exception):
    pass


class Parser:
    def __init__(self, pat):
        self.p = pat
        self.i = 0
        self.verbose = False
        self.multiline = False
        self.ngroups = 0
        self.names = {}

    def peek(self):
        self.skip_ws()
        return self.p[self.i] if self.i < len(self.p) else None

    def skip_ws(self):
        if not self.verbose:
            return
        while self.i < len(self.p):
            c = self.p[self.i]
            if c in ' \t\n\r\f\v':
                self.i += 1
            elif c == '#':
                while self.i < len(self.p) and self.p[self.i] != '\n':
                    self.i += 1
            else:
                break

    def parse(self):
        # leading flags
        while self.p.startswith('(?', self.i):
            j = self.i + 2
            k = j
            while k < len(self.p) and self.p[k] in 'imsxuU-':
                k += 1
            if k < len(self.p) and self.p[k] == ')' and k > j:
                flags = self.p[j:k]
                if 'x' in flags.split('-')[0]:
                    self.verbose = True
                on = flags.split('-')[0]
                if 'm' in on:
                    self.multiline = True
                for f in flags.replace('x', '').replace('m', ''):
                    if f not in 'u':
                        raise RegexSyntaxError('unsupported flag %r' % f)
                self.i = k + 1
            else:
                break
        node = self.alt()
        self.skip_ws()
        if self.i != len(self.p):
            raise RegexSyntaxError('trailing at %d in %r' % (self.i, self.p))
        return node

    def alt(self):
        branches = [self.cat()]
        while self.peek() == '|':
            self.i += 1
            branches.append(self.cat())
        return branches[0] if len(branches) == 1 else ('alt', branches)

    def cat(self):
        items = []
        while True:
            c = self.peek()
            if c is None or c in '|)':
                break
            items.append(self.repeat())
        return ('cat', items)

    def repeat(self):
        atom = self.atom()
        while True:
            c = self.peek()
            if c == '*':
                lo, hi = 0, None
            elif c == '+':
                lo, hi = 1, None
            elif c == '?':
                lo, hi = 0, 1
            elif c == '{':
                j = self.p.index('}', self.i)
                body = self.p[self.i + 1:j]
                if ',' in body:
                    a, b = body.split(',')
                    lo = int(a)
                    hi = int(b) if b.strip() else None
                else:
                    lo = hi = int(body)
                self.i = j
            else:
                return atom
            self.i += 1
            greedy = True
            if self.peek() == '?':
                greedy = False
                self.i += 1
            atom = ('rep', atom, lo, hi, greedy)

    def atom(self):
        c = self.peek()
        self.i += 1
        if c == '(':
            name = None
            idx = None
            if self.p.startswith('?:', self.i):
                self.i += 2
            elif self.p.startswith('?P<', self.i) or self.p.startswith('?<', self.i):
                j = self.p.index('>', self.i)
                name = self.p[self.p.index('<', self.i) + 1:j]
                self.i = j + 1
                self.ngroups += 1
                idx = self.ngroups
                self.names[name] = idx
            elif self.p.startswith('?', self.i):
                raise RegexSyntaxError('unsupported group syntax')
            else:
                self.ngroups += 1
                idx = self.ngroups
            node = self.alt()
            if self.peek() != ')':
                raise RegexSyntaxError('missing )')
            self.i += 1
            return ('group', node, idx, name)
        if c == '[':
            return self.cls()
        if c == '.':
            return ('class', [(0x0A, 0x0A)], True)
        if c == '^':
            return ('bol_m',) if self.multiline else ('bol',)
        if c == '$':
            return ('eol_m',) if self.multiline else ('eol',)
        if c == '\\':
            return self.escape(in_class=False)
        return ('lit', ord(c))

    def escape(self, in_class):
        c = self.p[self.i]
        self.i += 1
        if c == 'd':
            return ('class', list(nd_ranges()), False)
        if c == 'D':
            return ('class', list(nd_ranges()), True)
        if c == 's':
            return ('class', list(_WS), False)
        if c == 'S':
            return ('class', list(_WS), True)
        if c == 'w' or c == 'W' or c == 'b' or c == 'B' or c == 'p' or c == 'P':
            raise RegexSyntaxError('unsupported escape \\%s' % c)
        if c == 'n':
            return ('lit', 10)
        if c == 't':
            return ('lit', 9)
        if c == 'r':
            return ('lit', 13)
        if c == 'x':
            v = int(self.p[self.i:self.i + 2], 16)
            self.i += 2
            return ('lit', v)
        if c == 'A':
            return ('bol',)
        if c == 'z':
            return ('eol',)
        if c.isalnum():
            raise RegexSyntaxError('unsupported escape \\%s' % c)
        return ('lit', ord(c))

    def cls(self):
        neg = False
        if self.p[self.i] == '^':
            neg = True
            self.i += 1
        ranges = []
        first = True
        while True:
            if self.verbose:
                # whitespace is ignored inside classes too in verbose mode
                while self.p[self.i] in ' \t\n\r':
                    self.i += 1
            c = self.p[self.i]
            if c == ']' and not first:
                self.i += 1
                break
            first = False
            if c == '[':
                raise RegexSyntaxError('nested / posix classes unsupported')
            if c == '\\':
                self.i += 1
                n = self.escape(in_class=True)
                if n[0] == 'class':
                    if n[2]:
                        raise RegexSyntaxError('negated class escape in class')
                    ranges.extend(n[1])
                    continue
                lo = n[1]
            else:
                lo = ord(c)
                self.i += 1
            if self.p[self.i] == '-' and self.p[self.i + 1] != ']':
                self.i += 1
                c2 = self.p[self.i]
                if c2 == '\\':
                    self.i += 1
                    hi = self.escape(in_class=True)[1]
                else:
                    hi = ord(c2)
                    self.i += 1
                ranges.append((lo, hi))
            else:
                ranges.append((lo, lo))
        return ('class', ranges, neg)


def parse_regex(pat):
    p = Parser(pat)
    ast = p.parse()
    return ast, p.ngroups, p.names


def in_ranges(ch, ranges, neg):
    """Formula (or Python bool) for membership of char Int `ch` in the class."""
    if not ch.sym:
        r = any(lo <= ch.v <= hi for lo, hi in ranges)
        return (not r) if neg else r
    z = ch.v
    alts = []
    for lo, hi in ranges:
        if lo == hi:
            alts.append(z == z3.BitVecVal(lo, 32))
        else:
            alts.append(z3.And(z3.UGE(z, lo), z3.ULE(z, hi)))
    f = z3.Or(*alts) if alts else z3.BoolVal(False)
    return z3.Not(f) if neg else f


class RegexObj:
    rust_type = 'Regex'

    def __init__(self, pattern):
        self.pattern = pattern
        self.ast, self.ngroups, self.names = parse_regex(pattern)

    # ---- matcher
    def match_at(self, m, es, start):
        """Try to match at `start`; returns caps dict {idx: (s, e)} or None."""
        n = len(es)
        branch = m.ctx.branch

        def char_at(i):
            return decode_char(m, es, i)

        def mt(node, i, caps, k):
            t = node[0]
            if t == 'lit':
                if i >= n:
                    return None
                ch, w = char_at(i)
                cond = (ch.v == node[1]) if not ch.sym else (ch.v == z3.BitVecVal(node[1], 32))
                if branch(cond):
                    return k(i + w, caps)
                return None
            if t == 'class':
                if i >= n:
                    return None
                ch, w = char_at(i)
                if branch(in_ranges(ch, node[1], node[2])):
                    return k(i + w, caps)
                return None
            if t == 'cat':
                items = node[1]

                def step(j, i2, caps2):
                    if j == len(items):
                        return k(i2, caps2)
                    return mt(items[j], i2, caps2, lambda i3, c3: step(j + 1, i3, c3))
                return step(0, i, caps)
            if t == 'alt':
                for b in node[1]:
                    r = mt(b, i, caps, k)
                    if r is not None:
                        return r
                return None
            if t == 'group':
                idx = node[2]

                def after(i2, caps2):
                    if idx is not None:
                        caps2 = dict(caps2)
                        caps2[idx] = (i, i2)
                    return k(i2, caps2)
                return mt(node[1], i, caps, after)
            if t == 'rep':
                _, inner, lo, hi, greedy = node

                def rep(count, i2, caps2):
                    def more():
                        if hi is not None and count >= hi:
                            return None
                        return mt(inner, i2, caps2,
                                  lambda i3, c3: None if (i3 == i2 and count >= lo) else rep(count + 1, i3, c3))
                    if count < lo:
                        return more()
                    if greedy:
                        r = more()
                        if r is not None:
                            return r
                        return k(i2, caps2)
                    r = k(i2, caps2)
                    if r is not None:
                        return r
                    return more()
                return rep(0, i, caps)
            if t == 'bol':
                return k(i, caps) if i == 0 else None
            if t == 'eol':
                return k(i, caps) if i == n else None
            if t == 'bol_m':
                # multi-line mode: start of text or just after a line feed
                if i == 0:
                    return k(i, caps)
                e_ = es[i - 1]
                return k(i, caps) if m.ctx.branch((e_.v == 0x0A) if not e_.sym else (e_.v == 0x0A)) else None
            if t == 'eol_m':
                if i == n:
                    return k(i, caps)
                e_ = es[i]
                return k(i, caps) if m.ctx.branch((e_.v == 0x0A) if not e_.sym else (e_.v == 0x0A)) else None
            raise Unsupported('regex node %r' % (t,))

        def done(i, caps):
            caps = dict(caps)
            caps[0] = (start, i)
            return caps
        return mt(self.ast, start, {}, done)

    def _starts(self, m, es):
        """Candidate start offsets: char boundaries."""
        out = []
        i = 0
        n = len(es)
        while i < n:
            out.append(i)
            _, w = decode_char(m, es, i)
            i += w
        out.append(n)
        return out

    def find_from(self, m, es, pos):
        for s in self._starts(m, es):
            if s < pos:
                continue
            caps = self.match_at(m, es, s)
            if caps is not None:
                return caps
        return None


class CapturesObj:
    rust_type = 'Captures'

    def __init__(self, rx, text_ptr, caps):
        self.rx = rx
        self.text = text_ptr
        self.caps = caps


class MatchObj:
    rust_type = 'Match'

    def __init__(self, text_ptr, s, e):
        self.text = text_ptr
        self.s = s
        self.e = e


def install(m):
    L = m.lib

    def regex_new(m, a, c, rt):
        pat = concrete_bytes(elems_of(m, a[0]))
        if pat is None:
            raise Unsupported('symbolic regex pattern')
        try:
            return ok(RegexObj(pat.decode('utf-8')))
        except RegexSyntaxError as e:
            raise Unsupported('regex syntax outside the model: %s' % e)
    L['Regex::new'] = regex_new

    def regex_captures(m, a, c, rt):
        rx = deref(m, a[0])
        text = a[1]
        es = elems_of(m, text)
        caps = rx.find_from(m, es, 0)
        if caps is None:
            return none()
        return some(CapturesObj(rx, text, caps))
    L['Regex::captures'] = regex_captures

    def regex_is_match(m, a, c, rt):
        rx = deref(m, a[0])
        return rx.find_from(m, elems_of(m, a[1]), 0) is not None
    L['Regex::is_match'] = regex_is_match

    def captures_name(m, a, c, rt):
        cp = deref(m, a[0])
        name = concrete_bytes(elems_of(m, a[1])).decode()
        idx = cp.rx.names.get(name)
        if idx is None or idx not in cp.caps:
            return none()
        s, e = cp.caps[idx]
        return some(MatchObj(cp.text, s, e))
    L['Captures::name'] = captures_name

    def captures_get(m, a, c, rt):
        cp = deref(m, a[0])
        idx = a[1].v
        if idx not in cp.caps:
            return none()
        s, e = cp.caps[idx]
        return some(MatchObj(cp.text, s, e))
    L['Captures::get'] = captures_get

    def match_as_str(m, a, c, rt):
        mo = deref(m, a[0])
        return sub(mo.text, mo.s, mo.e - mo.s, 'str')
    L['Match::as_str'] = match_as_str
    L['Match::start'] = lambda m, a, c, rt: usize(deref(m, a[0]).s)
    L['Match::end'] = lambda m, a, c, rt: usize(deref(m, a[0]).e)

    def regex_replace_all(m, a, c, rt):
        rx = deref(m, a[0])
        text = a[1]
        rep = concrete_bytes(elems_of(m, a[2]))
        if rep is None or b'$' in rep:
            raise Unsupported('replacement with expansion')
        es = elems_of(m, text)
        out = []
        pos = 0
        last = 0
        any_match = False
        n = len(es)
        while pos <= n:
            caps = rx.find_from(m, es, pos)
            if caps is None:
                break
            s, e = caps[0]
            any_match = True
            out.extend(es[last:s])
            out.extend(Int('u8', b) for b in rep)
            last = e
            if e == s:
                # empty match: advance one char
                if s < n:
                    _, w = decode_char(m, es, s)
                    pos = s + w
                else:
                    break
            else:
                pos = e
        if not any_match:
            return Adt('Cow', 'Borrowed', [text])
        out.extend(es[last:])
        return Adt('Cow', 'Owned', [new_string(out)])
    L['Regex::replace_all'] = regex_replace_all
    L['Regex::replace'] = None
    del L['Regex::replace']


# --------------------------------------------------------------------------- z3 regular-expression theory

def to_z3re(ast, max_cp=0x2FFFF):
    """Translate the regex AST into a z3 `re` term over strings (anchors must be at the ends and are
    handled by the caller).  Character classes are clipped to z3's code-point range."""
    t = ast[0]
    if t == 'lit':
        return z3.Re(z3.StringVal(chr(ast[1])))
    if t == 'class':
        rs = [(lo, min(hi, max_cp)) for lo, hi in ast[1] if lo <= max_cp]
        parts = [z3.Range(z3.StringVal(chr(lo)), z3.StringVal(chr(hi))) for lo, hi in rs]
        u = parts[0] if len(parts) == 1 else z3.Union(*parts) if parts else z3.Empty(z3.ReSort(z3.StringSort()))
        if ast[2]:
            allc = z3.Range(z3.StringVal(chr(0)), z3.StringVal(chr(max_cp)))
            return z3.Intersect(allc, z3.Complement(u))
        return u
    if t == 'cat':
        items = [to_z3re(x, max_cp) for x in ast[1] if x[0] not in ('bol', 'eol', 'bol_m', 'eol_m')]
        if not items:
            return z3.Re(z3.StringVal(''))
        return items[0] if len(items) == 1 else z3.Concat(*items)
    if t == 'alt':
        return z3.Union(*[to_z3re(x, max_cp) for x in ast[1]])
    if t == 'group':
        return to_z3re(ast[1], max_cp)
    if t == 'rep':
        _, inner, lo, hi, _g = ast
        r = to_z3re(inner, max_cp)
        if lo == 0 and hi is None:
            return z3.Star(r)
        if lo == 1 and hi is None:
            return z3.Plus(r)
        if lo == 0 and hi == 1:
            return z3.Option(r)
        if hi is None:
            return z3.Concat(z3.Loop(r, lo, lo), z3.Star(r))
        return z3.Loop(r, lo, hi)
    raise Unsupported('regex node %r for z3' % (t,))


def accepted_language(ast, max_cp=0xFF):
    """z3 `re` of the strings in which an unanchored search for the pattern succeeds, for patterns that are a top-level
    concatenation with anchors (if any) only at its two ends: ^..$ -> L;  multi-line ^..$ -> (any* LF)? L (LF any*)?;
    a missing anchor -> any* on that side."""
    anyc = z3.Star(z3.Range(z3.StringVal(chr(0)), z3.StringVal(chr(max_cp))))
    lf = z3.Re(z3.StringVal('\n'))
    L = to_z3re(ast, max_cp)
    first = ast[1][0][0] if ast[0] == 'cat' and ast[1] else None
    last = ast[1][-1][0] if ast[0] == 'cat' and ast[1] else None
    inner = [x for x in (ast[1] if ast[0] == 'cat' else [ast])][1 if first in ('bol', 'bol_m') else 0:]
    if any(_has_anchor(x) for x in (inner[:-1] if last in ('eol', 'eol_m') else inner)):
        raise Unsupported('anchor inside the pattern')
    pre = z3.Re(z3.StringVal('')) if first == 'bol' else (z3.Option(z3.Concat(anyc, lf)) if first == 'bol_m' else anyc)
    post = z3.Re(z3.StringVal('')) if last == 'eol' else (z3.Option(z3.Concat(lf, anyc)) if last == 'eol_m' else anyc)
    return z3.Concat(pre, L, post)


def _has_anchor(ast):
    if ast[0] in ('bol', 'eol', 'bol_m', 'eol_m'):
        return True
    if ast[0] in ('cat', 'alt'):
        return any(_has_anchor(x) for x in ast[1])
    if ast[0] in ('group', 'rep'):
        return _has_anchor(ast[1])
    return False


def anchored(ast):
    """(anchored at start, anchored at end) of a top-level concatenation."""
    if ast[0] == 'cat' and ast[1]:
        return ast[1][0][0] == 'bol', ast[1][-1][0] == 'eol'
    return False, False
