"""C02 — completeness: every spec-conformant signed request is accepted.

Decided by MIRSE on the whole pipeline (`sigv4_validate_request`, coroutine state machines included).
The harness owns a *logical* request (decoded path segment, decoded query pairs, headers, body), signs
it with an independent reference signer (specs/refmodel + the ideal-hash oracle) and presents a symbolic
*wire spelling* of it (literal / %XX / %xx / + per byte, parameter order, redundant header spaces,
repeated and prefix-related parameter names) through either carrier.  Obligation on every path: the
outcome is Ok.  A rejecting path is concretised, re-signed with real HMAC-SHA256 by the Python reference
signer and replayed natively before it is reported.
"""
import hashlib
import hmac as pyhmac
import itertools
import json
import random
import sys

import z3

from .common import *
from .pipeline import *
from . import refmodel as R
from mirse import engine
from mirse import model_chrono as C
from mirse.model_misc import hex_encode_elems

PROP = 'C02'
TS = '20150830T123600Z'
SCOPE = '20150830/us-east-1/service/aws4_request'
AKID = 'AKIDEXAMPLE'

# spelling codes per decoded byte
LIT, PUP, PLO, PLUS = 'L', 'U', 'u', '+'


def shapes(tier, seed):
    out = []
    q = tier == 'quick'
    spell1 = [(LIT,), (PUP,), (PLO,)]
    for carrier in ('header', 'query'):
        # plain request, path of one decoded byte in each spelling, with / without token, s3 on/off
        for sp in spell1:
            for s3 in (False, True):
                out.append((carrier, 'path1', sp, (), s3, False, None))
        out.append((carrier, 'path1', (LIT,), (), False, True, None))
        # query parameters: one pair (name, value one decoded byte each) in every spelling combination
        for spn in (LIT, PUP, PLO):
            for spv in (LIT, PUP, PLO, PLUS):
                out.append((carrier, 'root', (), (('p', spn, spv),), False, False, None))
        # two parameters in both orders; related names (prefix + byte sorting below '=')
        for kind in ('two', 'two-rev', 'prefix', 'prefix-rev', 'dup', 'dup-rev', 'novalue', 'empties', 'eq-in-value'):
            out.append((carrier, 'root', (), (kind,), False, False, None))
        # extra signed header with redundant spaces; body bytes
        out.append((carrier, 'root', (), (), False, False, 'hdr'))
        out.append((carrier, 'root', (), (), False, False, 'body'))
        for extra in ('date-http', 'date-http-signed', 'date-iso-signed'):
            out.append((carrier, 'root', (), (), False, False, extra))
        # server clock anywhere within the window around a request made five minutes before / after UTC midnight (the scope date
        # is that of the request, the server's calendar date may be the neighbouring one)
        out.append((carrier, 'root', (), (), False, False, 'clock-before-midnight'))
        out.append((carrier, 'root', (), (), False, False, 'clock-after-midnight'))
        if not q:
            out.append((carrier, 'path2', (LIT, PUP), (), False, False, None))
            out.append((carrier, 'path2', (PLO, LIT), (('p', LIT, LIT),), True, True, 'hdr'))
    return out


def spell_byte(ctx, d, how, where):
    """Wire spelling (list of Ints) of decoded byte d. `where` in {'path', 'qname', 'qvalue'}."""
    z = d.z()
    if how == LIT:
        # bytes that may stand for themselves on the wire and are admitted by http there
        ok_ = z3.And(z3.UGT(z, 0x20), z3.ULT(z, 0x7F), z != 0x25, z != 0x2F, z != 0x3F, z != 0x23, z != 0x22, z != 0x3C, z != 0x3E,
                     z != 0x60)
        if where != 'path':
            ok_ = z3.And(ok_, z != 0x26, z != 0x3D, z != 0x2B)
        ctx.assume(ok_)
        return [d]
    if how == PLUS:
        ctx.assume(z == 0x20)
        return [Int('u8', 0x2B)]
    hi, lo = z3.LShR(z, 4), z & 15
    add = 0x37 if how == PUP else 0x57
    return [Int('u8', 0x25), Int('u8', z3.simplify(z3.If(z3.ULT(hi, 10), hi + 0x30, hi + add))),
            Int('u8', z3.simplify(z3.If(z3.ULT(lo, 10), lo + 0x30, lo + add)))]


def build(ctx, shape):
    """Returns dict with logical + wire request pieces."""
    carrier, pkind, pspell, qspec, s3, token, extra = shape
    # ---- path
    segs = []
    wire_path = []
    if pkind == 'root':
        wire_path = conc_bytes('/')
    else:
        n = 1 if pkind == 'path1' else 2
        seg = []
        wire_path = [Int('u8', 0x2F)]
        for i in range(n):
            d = Int('u8', ctx.fresh_bv('pd%d' % i, 8))
            seg.append(d)
            wire_path += spell_byte(ctx, d, pspell[i], 'path')
        # a segment that decodes to '.' or '..' is a relative reference, not a name: exclude (C09 covers dot segments)
        if n == 1:
            ctx.assume(seg[0].v != 0x2E)
        else:
            ctx.assume(z3.Not(z3.And(seg[0].v == 0x2E, seg[1].v == 0x2E)))
        segs.append(seg)
    # ---- query pairs (decoded) and wire query
    pairs = []
    wire_q = []

    def add_pair(name_dec, val_dec, name_wire, val_wire, with_eq=True):
        nonlocal wire_q
        if wire_q:
            wire_q = wire_q + [Int('u8', 0x26)]
        wire_q = wire_q + list(name_wire) + ([Int('u8', 0x3D)] + list(val_wire) if with_eq else [])
        pairs.append((list(name_dec), list(val_dec)))
    for spec in qspec:
        if isinstance(spec, tuple):
            _, spn, spv = spec
            nd = Int('u8', ctx.fresh_bv('qn', 8))
            vd = Int('u8', ctx.fresh_bv('qv', 8))
            add_pair([nd], [vd], spell_byte(ctx, nd, spn, 'qname'), spell_byte(ctx, vd, spv, 'qvalue'))
        elif spec in ('two', 'two-rev'):
            a = Int('u8', ctx.fresh_bv('qa', 8))
            b = Int('u8', ctx.fresh_bv('qb', 8))
            va = Int('u8', ctx.fresh_bv('qva', 8))
            items = [([a], [va], spell_byte(ctx, a, LIT, 'qname'), spell_byte(ctx, va, LIT, 'qvalue')),
                     ([b], [Int('u8', 0x31)], spell_byte(ctx, b, LIT, 'qname'), conc_bytes('1'))]
            for it in (items if spec == 'two' else items[::-1]):
                add_pair(*it)
        elif spec in ('prefix', 'prefix-rev'):
            # name "a" and name "a" + one byte sorting below '=' ( - . 0-9 % encoded ) e.g. "a-", "a.", "a0"
            c = Int('u8', ctx.fresh_bv('qc', 8))
            ctx.assume(z3.Or(c.v == 0x2D, c.v == 0x2E, z3.And(z3.UGE(c.v, 0x30), z3.ULE(c.v, 0x39)), c.v == 0x21))
            wire_c = spell_byte(ctx, c, LIT, 'qname')
            items = [(conc_bytes('a'), conc_bytes('1'), conc_bytes('a'), conc_bytes('1')),
                     (conc_bytes('a') + [c], conc_bytes('2'), conc_bytes('a') + wire_c, conc_bytes('2'))]
            for it in (items if spec == 'prefix' else items[::-1]):
                add_pair(*it)
        elif spec in ('dup', 'dup-rev'):
            v1 = Int('u8', ctx.fresh_bv('dv1', 8))
            v2 = Int('u8', ctx.fresh_bv('dv2', 8))
            items = [(conc_bytes('k'), [v1], conc_bytes('k'), spell_byte(ctx, v1, LIT, 'qvalue')),
                     (conc_bytes('k'), [v2], conc_bytes('k'), spell_byte(ctx, v2, PUP, 'qvalue'))]
            for it in (items if spec == 'dup' else items[::-1]):
                add_pair(*it)
        elif spec == 'eq-in-value':
            # a raw '=' inside a value (legal in a query; only the FIRST '=' separates name and value), e.g. base64 padding
            x = Int('u8', ctx.fresh_bv('ev', 8))
            ctx.assume(zb(R.unreserved_f(x)))
            add_pair(conc_bytes('marker'), [x] + conc_bytes('=') + [x] + conc_bytes('=='), conc_bytes('marker'), [x] + conc_bytes('=') + [x] + conc_bytes('=='))
            add_pair(conc_bytes('f'), conc_bytes('a=b'), conc_bytes('f'), conc_bytes('a%3Db'))
        elif spec == 'novalue':
            add_pair(conc_bytes('flag'), [], conc_bytes('flag'), [], with_eq=False)
            add_pair(conc_bytes('b'), conc_bytes('2'), conc_bytes('b'), conc_bytes('2'))
        elif spec == 'empties':
            add_pair([], conc_bytes('x'), [], conc_bytes('x'))
            add_pair(conc_bytes('e'), [], conc_bytes('e'), [])
    # ---- headers / body / token
    headers = [('host', conc_bytes('example.amazonaws.com'))]
    signed = ['host']
    body = []
    tok = sym_bytes(ctx, 'tok', 2) if token else None
    if tok:
        for e in tok:
            ctx.assume(z3.And(z3.UGE(e.v, 0x41), z3.ULE(e.v, 0x5A)))
    if extra == 'hdr':
        hv = [Int('u8', ctx.fresh_bv('hv%d' % i, 8)) for i in range(3)]
        for e in hv:
            ctx.assume(z3.Or(e.v == 0x20, z3.And(z3.UGE(e.v, 0x21), z3.ULE(e.v, 0x7E))))
        headers.append(('x-e', conc_bytes(' ') + hv + conc_bytes('  z ')))
        signed.append('x-e')
    if extra == 'body':
        body = sym_bytes(ctx, 'body', 2)
    if extra and extra.startswith('date-'):
        # a Date header travelling next to X-Amz-Date (added by an HTTP stack, or an ISO date a few seconds off): X-Amz-Date is authoritative
        if extra == 'date-iso-signed':
            dv = conc_bytes('20150830T1235') + [Int('u8', ctx.fresh_bv('ds0', 8)), Int('u8', ctx.fresh_bv('ds1', 8))] + conc_bytes('Z')
            ctx.assume(z3.And(z3.UGE(dv[13].v, 0x30), z3.ULE(dv[13].v, 0x35), z3.UGE(dv[14].v, 0x30), z3.ULE(dv[14].v, 0x39)))
        else:
            dv = conc_bytes('Sun, 30 Aug 2015 12:36:00 GMT')
        headers.append(('date', dv))
        if extra != 'date-http':
            signed.append('date')
    ts, base_secs = TS, T0
    if extra == 'clock-before-midnight':
        ts, base_secs = '20150830T235500Z', T0 + (23 * 3600 + 55 * 60) - (12 * 3600 + 36 * 60)
    elif extra == 'clock-after-midnight':
        ts, base_secs = '20150830T000500Z', T0 + 5 * 60 - (12 * 3600 + 36 * 60)
    return dict(carrier=carrier, segs=segs, wire_path=wire_path, pairs=pairs, wire_q=wire_q, headers=headers, signed=signed,
                body=body, tok=tok, s3=s3, ts=ts, base_secs=base_secs, clock=bool(extra and extra.startswith('clock-')))


def assemble(m, ctx, L, key):
    """Sign the logical request with the reference signer and build the wire request."""
    carrier = L['carrier']
    headers = list(L['headers'])
    signed = list(L['signed'])
    pairs = list(L['pairs'])
    wire_q = list(L['wire_q'])
    # canonical path by the reference: encode each decoded segment once
    cpath = []
    for seg in L['segs']:
        cpath += [Int('u8', 0x2F)] + R.pct_encode(ctx, seg)
    if not cpath:
        cpath = conc_bytes('/')
    cred = conc_bytes(AKID + '/' + SCOPE)
    if carrier == 'header':
        headers.append(('x-amz-date', conc_bytes(L['ts'])))
        signed.append('x-amz-date')
        if L['tok'] is not None:
            headers.append(('x-amz-security-token', list(L['tok'])))
            signed.append('x-amz-security-token')
        signed.sort()
        cq = R.ref_canon_query_from_pairs(ctx, pairs)
        sig, creq, sts = ref_sign(m, key, ctx, 'GET', cpath, cq, headers, signed, L['body'], conc_bytes(L['ts']), conc_bytes(SCOPE))
        L['ref_pieces'] = (cq, list(headers), list(signed))
        headers.append(('authorization', auth_header(cred, signed, sig)))
    else:
        signed.sort()
        auth_pairs = [('X-Amz-Algorithm', conc_bytes('AWS4-HMAC-SHA256')), ('X-Amz-Credential', cred), ('X-Amz-Date', conc_bytes(L['ts'])),
                      ('X-Amz-SignedHeaders', conc_bytes(';'.join(signed)))]
        if L['tok'] is not None:
            auth_pairs.append(('X-Amz-Security-Token', list(L['tok'])))
        for n, v in auth_pairs:
            pairs.append((conc_bytes(n), list(v)))
            if wire_q:
                wire_q.append(Int('u8', 0x26))
            wire_q += conc_bytes(n) + [Int('u8', 0x3D)] + R.pct_encode(ctx, v)
        cq = R.ref_canon_query_from_pairs(ctx, pairs)
        sig, creq, sts = ref_sign(m, key, ctx, 'GET', cpath, cq, headers, signed, L['body'], conc_bytes(L['ts']), conc_bytes(SCOPE))
        L['ref_pieces'] = (cq, list(headers), list(signed))
        wire_q += conc_bytes('&X-Amz-Signature=') + sig
    rq = Req('GET', L['wire_path'], wire_q if wire_q else None, headers, L['body'], 'bytes')
    return rq, signed


def has_literal_plus_in_path(L):
    """Condition under which a refusal is exactly the known finding F6: the wire path has a literal '+' AND the canonical request
    the code hashed is the reference one with the F6-variant path (so nothing else is wrong with it).  Where the pieces of the
    comparison are not available (callers that only know the wire path) only the first half can be stated."""
    plus = zor(*[(e.v == 0x2B) if not e.sym else (e.v == 0x2B) for e in L['wire_path']])
    if 'ref_pieces' not in L or 'code_calls' not in L:
        return plus
    sh = [c for c in L['code_calls'] if c.kind == 'sha256']
    if len(sh) < 2:
        return False
    code_creq = sh[-1].msg
    alts = [bytes_eq(code_creq, creq6) for creq6 in L.get('creq6', []) if len(creq6) == len(code_creq)]
    return zand(plus, zor(*alts)) if alts else False


KNOWN_PREDICATES = {'path_has_literal_plus': has_literal_plus_in_path}


def run_shape(prog, shape, tier, seed, res):
    known = load_known_findings(PROP)

    def body(m, ctx):
        L = build(ctx, shape)
        key = sym_bytes(ctx, 'key', 32)
        rq, signed = assemble(m, ctx, L, key)
        prov = provider_ok(key)
        before = len(oracle_of(m).calls)
        srv = instant(L['base_secs'])
        if L['clock']:
            delta = ctx.fresh_bv('clock_delta', 32)
            ctx.assume(z3.And(delta >= -899, delta <= 899))
            L['delta'] = delta
            srv = C.DateTime(z3.simplify(srv.secs + z3.SignExt(32, delta)), 0, C.shift_civil(srv.civil, delta), 0)
        r, polls = run(m, rq, 'us-east-1', 'service', prov, srv, None, options(L['s3'], False))
        L['code_calls'] = oracle_of(m).calls[before:]
        # yardstick for the known finding F6 only: the canonical path the F6 variant of the reference gives (literal '+' read as a space)
        try:
            L['cpath6'] = R.ref_canon_path(ctx, L['wire_path'], L['s3'], plus_is_space=True)
        except R.RefError:
            L['cpath6'] = []
        sh_ = [c for c in L['code_calls'] if c.kind == 'sha256']
        L['creq6'] = []
        if len(sh_) >= 2:
            cq_, hdrs_, signed_ = L['ref_pieces']
            L['creq6'] = [ref_canonical_request(ctx, 'GET', cp6, cq_, hdrs_, signed_, hex_encode_elems(sh_[0].out)) for cp6 in L['cpath6']]
        return L, rq, signed, r, prov

    def on_path(pr):
        ctx = pr.ctx
        res.obligations += 1
        if pr.kind == 'panic':
            res.findings.append(Finding('panic: %s' % pr.value.msg, {'shape': repr(shape)}, None, None, repr(shape)))
            return
        L, rq, signed, r, prov = pr.value
        o = outcome(r)
        if o[0] == 'ok':
            res.witnesses.add('ok-' + L['carrier'])
            if len(res.samples) < 1:
                sat, model = ctx.satisfiable()
                res.samples.append({'carrier': L['carrier'], 'uri': rq.to_json(model)['uri'][:120]})
            return
        res.witnesses.add('rejected')
        # a spec-conformant request was refused on this path: classify and concretise
        preds = [(k['id'], KNOWN_PREDICATES[k['predicate']](L)) for k in known if k.get('predicate') in KNOWN_PREDICATES]
        q = z3.And(*[z3.Not(zb(p)) for _, p in preds]) if preds else None
        sat, model = ctx.satisfiable(q)
        kid = None
        if not sat:
            sat, model = ctx.satisfiable()
            kid = preds[0][0]
        j = rq.to_json(model)
        inp = {'carrier': L['carrier'], 'request': strip_signature(j, L['carrier']), 'signed': signed, 's3': L['s3'],
               'token': model_bytes(model, L['tok']).decode() if L['tok'] is not None else None,
               'mirse_outcome': [o[1], render_err(o[2])], 'ts': L['ts'],
               'server_secs': L['base_secs'] + (model.eval(L['delta'], model_completion=True).as_signed_long() if L.get('delta') is not None else 0)}
        res.findings.append(Finding('spec-conformant signed request refused (%s)' % o[1], inp, None, kid, repr(shape)))

    engine.explore(prog, body, on_path, stats=res.stats)


def render_err(e):
    try:
        f = e.fields[0]
        if isinstance(f, Adt):
            f = f.fields[0] if f.fields else None
        return bytes(x.v for x in f.elems).decode('latin-1')[:200] if f is not None else ''
    except Exception:
        return '<symbolic message>'


def strip_signature(j, carrier):
    j = dict(j)
    if carrier == 'header':
        j['headers'] = [h for h in j['headers'] if h[0] != 'authorization']
    else:
        uri = j['uri']
        i = uri.find('&X-Amz-Signature=')
        if i >= 0:
            j['uri'] = uri[:i]
    return j


# --------------------------------------------------------------------------- concrete reference signer + native replay

def py_canon(path, query):
    ctx = RefCtx()
    # canonical path: encode each decoded segment once (the logical path is the decoded wire path)
    segs = R.split_on(ctx, conc_bytes(path.encode('latin-1')), 0x2F)[1:]
    cp = b''
    for s in segs:
        dec = R.pct_decode(ctx, s, False, 'InvalidURIPath')
        cp += b'/' + bytes(e.v for e in R.pct_encode(ctx, dec))
    cq = bytes(e.v for e in R.ref_canon_query(ctx, conc_bytes(query.encode('latin-1')))) if query else b''
    return cp or b'/', cq


def sign_concrete(inp, key=bytes(32)):
    """Re-sign the concrete wire request (without signature) with real hashes; returns full request JSON."""
    j = json.loads(json.dumps(inp['request']))
    uri = j['uri']
    path, _, query = uri.partition('?')
    headers = [(n, bytes.fromhex(v)) for n, v in j['headers']]
    body = bytes.fromhex(j['body_hex'])
    signed = inp['signed']
    cp, cq = py_canon(path, query)
    sig, creq, sts = py_sign(key, 'GET', cp, cq, headers, signed, body, inp.get('ts', TS), SCOPE, is_key=True)
    if inp['carrier'] == 'header':
        authz = 'AWS4-HMAC-SHA256 Credential=%s/%s, SignedHeaders=%s, Signature=%s' % (AKID, SCOPE, ';'.join(signed), sig)
        j['headers'].append(['authorization', authz.encode().hex()])
    else:
        j['uri'] = uri + '&X-Amz-Signature=' + sig
    return j, creq, sts


def replay_finding(rp, f):
    inp = f.inp
    if 'suite_vector' in inp:
        from . import suite
        nat = native_validate(rp, inp['request'], 'us-east-1', 'service', suite.SUITE_T, provider={'result': {'secret': AWS_SECRET}},
                              opts={'s3': False, 'url_encode_form': True})
        res = nat.get('result', {})
        return ('ok' not in res), {'native': res.get('err', res), 'vector': inp['suite_vector']}
    if 'request' not in inp:
        return False, None
    j, creq, sts = sign_concrete(inp)
    nat = native_validate(rp, j, 'us-east-1', 'service', inp.get('server_secs', T0), provider={'result': {'signing_key_hex': '00' * 32}},
                          opts={'s3': inp['s3'], 'url_encode_form': False})
    res = nat.get('result', {})
    ok_ = 'ok' in res
    return (not ok_), {'native': res.get('err', res) if not ok_ else 'ok', 'uri': j['uri'][:300],
                       'reference_canonical_request': creq.decode('latin-1')[:300]}


def mirse_concrete(prog, j, s3):
    out = []

    def body(m, ctx):
        uri = j['uri']
        path, _, query = uri.partition('?')
        rq = Req(j['method'], path.encode('latin-1'), query.encode('latin-1') if _ else None,
                 [(n, bytes.fromhex(v)) for n, v in j['headers']], bytes.fromhex(j['body_hex']), 'bytes')
        prov = provider_ok(conc_bytes(bytes(32)))
        r, polls = run(m, rq, 'us-east-1', 'service', prov, instant(T0), None, options(s3, False))
        return outcome(r)
    engine.explore(prog, body, out.append)
    pr = out[0]
    if pr.kind == 'panic':
        return 'panic'
    return 'ok' if pr.value[0] == 'ok' else pr.value[1]


def conformance(prog, rp, seed, tier):
    rnd = random.Random(seed)
    cases = []
    paths = ['/', '/a', '/a%20b', '/%41', '/a/b', '/~x', '/a*b', '/a+b']
    queries = ['', 'a=1', 'b=2&a=1', 'a=%20&b=+', 'a-b=2&a=1', 'k=v&k=u', 'flag&x=1', '=x&e=']
    for _ in range(14 if tier == 'quick' else 80):
        carrier = rnd.choice(['header', 'query'])
        path, query = rnd.choice(paths), rnd.choice(queries)
        headers = [['host', b'example.amazonaws.com'.hex()]]
        signed = ['host']
        if rnd.random() < 0.4:
            headers.append(['x-e', b'  a   b '.hex()])
            signed.append('x-e')
        if carrier == 'header':
            headers.append(['x-amz-date', TS.encode().hex()])
            signed.append('x-amz-date')
            uri = path + ('?' + query if query else '')
        else:
            aq = 'X-Amz-Algorithm=AWS4-HMAC-SHA256&X-Amz-Credential=%s&X-Amz-Date=%s&X-Amz-SignedHeaders=%s' % (
                (AKID + '/' + SCOPE).replace('/', '%2F'), TS, '%3B'.join(sorted(signed)))
            uri = path + '?' + (query + '&' if query else '') + aq
        signed.sort()
        inp = {'carrier': carrier, 'request': {'method': 'GET', 'uri': uri, 'version': 'HTTP/1.1', 'headers': headers,
                                               'body_hex': bytes(rnd.randrange(256) for _ in range(rnd.randint(0, 3))).hex(), 'body_kind': 'bytes'},
               'signed': signed, 's3': rnd.random() < 0.3}
        cases.append(inp)
    mism = []
    for inp in cases:
        j, _, _ = sign_concrete(inp)
        nat = native_validate(rp, j, 'us-east-1', 'service', T0, provider={'result': {'signing_key_hex': '00' * 32}},
                              opts={'s3': inp['s3'], 'url_encode_form': False})
        res = nat.get('result', {})
        n = 'ok' if 'ok' in res else res.get('err', {}).get('kind', 'panic')
        mine = mirse_concrete(prog, j, inp['s3'])
        if mine != n:
            mism.append({'uri': j['uri'][:200], 'mirse': mine, 'native': n})
    return len(cases), mism


def extra_checks(tier, seed, rp):
    """Translator validation + concrete completeness on the repository's own AWS test-suite vectors (specs/suite.py)."""
    from . import suite
    prog, _ = engine.load_program()
    n, skipped, mism, fails = suite.run_suite(prog, rp)
    out = {'aws_suite': {'vectors_run': n, 'skipped_unrepresentable_or_broken': skipped, 'mirse_native_mismatches': mism,
                         'refused': [x['vector'] for x in fails],
                         'compared': 'outcome (MIRSE vs native), SHA-256 input vs .creq, HMAC message vs .sts'}}
    if mism:
        out['status'] = 2
        out['lines'] = ['INCONCLUSIVE property=C02 AWS-suite vectors: MIRSE and the native crate / the suite files disagree: %s' % json.dumps(mism[:2])[:800]]
    elif fails:
        x = fails[0]
        f = Finding('AWS test-suite vector refused', {'suite_vector': x['vector'], 'request': x['request']}, {'outcome': x['outcome']})
        path = write_replay_file(PROP, f)
        out['status'] = 1
        out['lines'] = ['VIOLATION property=C02 replay=%s' % path, '  suite vector %s refused: %s' % (x['vector'], x['outcome'])]
    return out


def describe(f):
    return '%s -> %s' % (json.dumps(f.inp)[:700], json.dumps(f.detail, default=str)[:500])


def bounds(tier):
    return ('both carriers; path of one decoded byte (any value) spelled literal / %XX / %xx, S3 mode on/off, session token; one query '
            'parameter with one-byte name and value in every spelling (incl. + for space); two parameters in both orders, a name that is a '
            'prefix of another followed by a byte sorting below "=", repeated names, a parameter without "=", empty name / empty value; a '
            'signed header with redundant leading/inner/trailing spaces around three symbolic bytes; a two-byte symbolic body; a Date header (RFC 7231 text, unsigned or signed, or an ISO time with symbolic seconds) next to X-Amz-Date; key 32 symbolic '
            'bytes; server clock = request time' + ('' if tier == 'quick' else '; two-byte path segments'))


OUTSIDE = ('longer components; form folding (C12); clocks other than the request time (C04); scopes other than the server\'s (C03); header-name '
           'case (normalised by http)')
NEED_WITNESSES = {'ok-header', 'ok-query'}
ASSUMPTIONS = ['SHA-256/HMAC as ideal hash with functional consistency: a request is accepted iff the code feeds the oracle the same key and '
               'message bytes as the reference signer (or the solver finds a refusing assignment, which is then replayed with real hashes)']


def main(argv):
    return run_check(sys.modules[__name__], argv)


if __name__ == '__main__':
    sys.exit(main(sys.argv))
