//! Kani proof harnesses for the heap-free kernels of `scratchstack-aws-signature`.
//!
//! Everything here is compiled only under `cargo kani` (`cfg(kani)`); a plain
//! `cargo build` produces an empty library. See `README.md` for the harness list and
//! `run_kani.py` for the runner.
//!
//! Conventions used by every harness:
//! * Kani's default unwinding assertions stay enabled; each harness carries an explicit
//!   `#[kani::unwind(n)]` whose derivation is given in its doc comment.
//! * Each harness has `kani::cover!` witnesses; the runner flags any cover that is not
//!   `SATISFIED` as `vacuous`.
#![allow(clippy::all)]

#[cfg(kani)]
mod k1_secret_key;
#[cfg(kani)]
mod k2_ct_eq;
#[cfg(kani)]
mod k3_chrono;
#[cfg(kani)]
mod k4_bytes;
#[cfg(kani)]
mod k5_errors;
