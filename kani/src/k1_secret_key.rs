//! K1 — `KSecretKey::<M>::from_str` (`/repo/src/signing_key.rs`).
//!
//! Contract checked for every instantiation `M ∈ {44, 8, 5, 4, 3, 0}`:
//!
//! * no panic for any input of length `0..=M+2`;
//! * `Ok(_)` iff `len + 4 <= M` (as mathematical integers, so `M < 4` never yields `Ok`);
//!   `Err(KeyTooLongError)` otherwise;
//! * for `M = 44` (the only instantiation that implements `AsRef<[u8]>`): on `Ok(key)`,
//!   `key.as_ref()` is byte-for-byte the input.
//!
//! Input model: a symbolic buffer of `B = max(M + 2, 6)` bytes and a symbolic length
//! `len <= M + 2`; all bytes are ASCII (`< 0x80`) so every prefix is valid UTF-8 and the
//! `&str` is built with `from_utf8_unchecked` (no validation loop in the harness). The
//! `_utf8` variant additionally puts a 2-byte UTF-8 scalar (U+0080..U+07FF) at position 0.
//!
//! Unwind bound: the only loops are (1) `kani::any::<[u8; B]>()`, (2) the ASCII constraint
//! loop over `B` bytes and (3) the byte comparison loop over at most `M - 4` bytes. `from_str`
//! itself is loop-free (`copy_from_slice` is a `memcpy`, `[0; M]` an array constant). So
//! `unwind = B + 1`.

use scratchstack_aws_signature::{KSecretKey, KeyTooLongError};
use std::str::FromStr;

/// Shared body. `B` must be `max(M + 2, 6)` (stable Rust cannot compute it from `M`).
/// Returns `(result.is_ok(), len)` for the per-harness cover witnesses.
fn from_str_case<const M: usize, const B: usize>(
    utf8_head: bool,
    check_ok: fn(&KSecretKey<M>, &[u8]),
) -> (bool, usize) {
    assert!(B >= M + 2 && B >= 6);

    let buf: [u8; B] = kani::any();
    let len: usize = kani::any();
    kani::assume(len <= M + 2);

    let mut i = 0;
    while i < B {
        if utf8_head && i == 0 {
            // leading byte of a 2-byte sequence (0xC0/0xC1 would be overlong)
            kani::assume(buf[i] >= 0xC2 && buf[i] <= 0xDF);
        } else if utf8_head && i == 1 {
            // continuation byte
            kani::assume(buf[i] >= 0x80 && buf[i] <= 0xBF);
        } else {
            kani::assume(buf[i] < 0x80);
        }
        i += 1;
    }
    if utf8_head {
        // do not cut the scalar in half
        kani::assume(len >= 2);
    }

    let input: &[u8] = &buf[..len];
    // SAFETY: ASCII bytes, optionally preceded by one well-formed 2-byte scalar.
    let raw: &str = unsafe { core::str::from_utf8_unchecked(input) };
    kani::cover!(true, "k1: from_str is reached");

    let result = KSecretKey::<M>::from_str(raw);

    let fits = len + 4 <= M;
    match &result {
        Ok(key) => {
            assert!(fits, "k1: Ok returned although len + 4 > M");
            check_ok(key, input);
        }
        Err(KeyTooLongError) => {
            assert!(!fits, "k1: Err(KeyTooLongError) returned although len + 4 <= M");
        }
    }

    (result.is_ok(), len)
}

// Reachability witnesses. They live in the individual harnesses (not behind `if M >= ..` in the
// generic body) so that every cover that is emitted is one the contract makes reachable; the
// runner treats any cover that is not SATISFIED as a vacuity alarm.

fn cover_err(ok: bool) {
    kani::cover!(!ok, "k1: Err path reached");
}

fn cover_ok_empty(ok: bool, len: usize) {
    kani::cover!(ok && len == 0, "k1: Ok with empty key");
}

fn cover_ok_full(ok: bool, len: usize, m: usize) {
    kani::cover!(ok && len + 4 == m, "k1: Ok with key filling the capacity");
}

fn cover_ok_short(ok: bool, len: usize, m: usize) {
    kani::cover!(ok && len > 1 && len + 4 < m, "k1: Ok with key shorter than capacity");
}

/// `M = 44`: `as_ref()` must return exactly the input bytes.
fn check_as_ref_44(key: &KSecretKey<44>, input: &[u8]) {
    let got: &[u8] = key.as_ref();
    assert!(got.len() == input.len(), "k1: as_ref() length differs from input length");
    let mut i = 0;
    while i < input.len() {
        assert!(got[i] == input[i], "k1: as_ref() byte differs from input byte");
        i += 1;
    }
    kani::cover!(input.len() == 40, "k1: as_ref compared for a 40 byte key");
}

/// Other capacities have no accessor; only the `Ok`/`Err` decision and panic freedom are checked.
fn no_accessor<const M: usize>(_key: &KSecretKey<M>, _input: &[u8]) {}

/// M = 44 (default capacity), buffer 46 bytes, unwind 46 + 1.
#[kani::proof]
#[kani::unwind(47)]
fn k1_from_str_m44() {
    let (ok, len) = from_str_case::<44, 46>(false, check_as_ref_44);
    cover_err(ok);
    cover_ok_empty(ok, len);
    cover_ok_full(ok, len, 44);
    cover_ok_short(ok, len, 44);
}

/// M = 44 with a 2-byte UTF-8 scalar at position 0 (`len >= 2`), unwind 46 + 1.
#[kani::proof]
#[kani::unwind(47)]
fn k1_from_str_m44_utf8() {
    let (ok, len) = from_str_case::<44, 46>(true, check_as_ref_44);
    cover_err(ok);
    cover_ok_full(ok, len, 44);
    cover_ok_short(ok, len, 44);
}

/// M = 8, buffer 10 bytes, unwind 10 + 1.
#[kani::proof]
#[kani::unwind(11)]
fn k1_from_str_m8() {
    let (ok, len) = from_str_case::<8, 10>(false, no_accessor::<8>);
    cover_err(ok);
    cover_ok_empty(ok, len);
    cover_ok_full(ok, len, 8);
    cover_ok_short(ok, len, 8);
}

/// M = 5, buffer 7 bytes, unwind 7 + 1.
#[kani::proof]
#[kani::unwind(8)]
fn k1_from_str_m5() {
    let (ok, len) = from_str_case::<5, 7>(false, no_accessor::<5>);
    cover_err(ok);
    cover_ok_empty(ok, len);
    cover_ok_full(ok, len, 5);
}

/// M = 4 (capacity for the prefix only), buffer 6 bytes, unwind 6 + 1.
#[kani::proof]
#[kani::unwind(7)]
fn k1_from_str_m4() {
    let (ok, len) = from_str_case::<4, 6>(false, no_accessor::<4>);
    cover_err(ok);
    cover_ok_empty(ok, len);
}

/// M = 3 (`M - 4` underflows in the unfixed code), buffer 6 bytes, unwind 6 + 1.
#[kani::proof]
#[kani::unwind(7)]
fn k1_from_str_m3() {
    let (ok, _len) = from_str_case::<3, 6>(false, no_accessor::<3>);
    cover_err(ok);
}

/// M = 0, buffer 6 bytes, unwind 6 + 1.
#[kani::proof]
#[kani::unwind(7)]
fn k1_from_str_m0() {
    let (ok, _len) = from_str_case::<0, 6>(false, no_accessor::<0>);
    cover_err(ok);
}
