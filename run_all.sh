#!/bin/bash
# Run every registered check (tier from $1, default quick) and print a summary; evidence goes to $VERIF_EVIDENCE_DIR or evidence/.
cd "$(dirname "$0")"
tier="${1:-quick}"
shift
ids="${@:-C01 C02 C03 C04 C05 C06 C07 C08 C09 C10 C11 C12 C13 C14 C15 C16 C17 C18 C19}"
for id in $ids; do
  s=$(date +%s)
  out=$(./check $id --tier $tier 2>/dev/null | grep -v "shapes," | tail -3 | cut -c1-300)
  rc=${PIPESTATUS[0]}
  e=$(date +%s)
  echo "== $id tier=$tier wall=$((e-s))s :: $(echo "$out" | tail -1)"
done
