//! K3 — contract of the compiled `chrono` 0.4.45 that the hand-written chrono model used
//! elsewhere in /verif relies on. Everything is on `DateTime<Utc>` built with
//! `DateTime::from_timestamp(secs, nanos)`.
//!
//! The instant range is cut into 200 000 s (about 2.3 days) intervals around calendar anchors
//! because the 64-bit division circuits in chrono's day arithmetic make a single query over
//! the full range intractable for the SAT back end (design-phase probe: one interval 10 s,
//! full range no answer in 600 s). Specifications avoid symbolic multiplications.
//!
//! Unwind bound: chrono's constructors, `checked_add_signed`/`checked_sub_signed`, the
//! comparisons, `date_naive`, `from_local_datetime`, `with_timezone` and `timestamp` are
//! loop-free (table lookups and divisions), and so are the specifications, hence
//! `#[kani::unwind(1)]` everywhere: any loop that a chrono upgrade introduces trips the
//! unwinding assertion instead of being silently truncated.

use chrono::{
    DateTime, Datelike, FixedOffset, LocalResult, NaiveDate, NaiveDateTime, NaiveTime, TimeDelta, TimeZone, Utc,
};

/// Length of an anchor interval in seconds.
const SPAN: i64 = 200_000;

/// Ordinary day: 2015-08-30T00:00:00Z - 100 000 s.
const A_ORDINARY: i64 = 1_440_892_800 - 100_000;
/// Year end: 2015-12-31T00:00:00Z - 100 000 s (interval contains 2016-01-01T00:00:00Z).
const A_YEAREND: i64 = 1_451_520_000 - 100_000;
/// Leap day: 2016-02-28T00:00:00Z - 20 000 s (interval contains all of 2016-02-29).
const A_LEAPDAY: i64 = 1_456_617_600 - 20_000;
/// 2100-02-28T00:00:00Z - 20 000 s (2100 is not a leap year: 02-28 is followed by 03-01).
const A_Y2100: i64 = 4_107_456_000 - 20_000;
/// 1999-12-31T00:00:00Z - 20 000 s (interval contains 2000-01-01T00:00:00Z).
const A_Y2K: i64 = 946_598_400 - 20_000;
/// 1970-01-01T00:00:00Z - 100 000 s (negative timestamps).
const A_EPOCH: i64 = 0 - 100_000;

const NANOS_PER_SEC: u32 = 1_000_000_000;

/// `(a.secs, a.nanos) < (b.secs, b.nanos)` lexicographically.
fn lex_lt(a: (i64, u32), b: (i64, u32)) -> bool {
    a.0 < b.0 || (a.0 == b.0 && a.1 < b.1)
}

// ------------------------------------------------------------------------------------------
// (a) the time window of `SigV4Authenticator::prevalidate`
// ------------------------------------------------------------------------------------------

/// Server instant `s` with `secs ∈ [anchor, anchor + 200 000)`, request instant `r` within
/// ±2000 s of it, both with symbolic nanoseconds. With `d = TimeDelta::minutes(15)`, exactly
/// the expressions of `prevalidate`:
///
/// * `s.checked_sub_signed(d)` and `s.checked_add_signed(d)` are `Some`;
/// * `r < min  ⇔  (r.secs, r.nanos) <lex (s.secs − 900, s.nanos)`;
/// * `r > max  ⇔  (r.secs, r.nanos) >lex (s.secs + 900, s.nanos)`.
fn window(anchor: i64) {
    let s_secs: i64 = kani::any();
    let s_nanos: u32 = kani::any();
    let r_secs: i64 = kani::any();
    let r_nanos: u32 = kani::any();
    kani::assume(s_secs >= anchor && s_secs < anchor + SPAN);
    kani::assume(s_nanos < NANOS_PER_SEC);
    kani::assume(r_secs >= s_secs - 2000 && r_secs <= s_secs + 2000);
    kani::assume(r_nanos < NANOS_PER_SEC);

    let s: DateTime<Utc> = DateTime::from_timestamp(s_secs, s_nanos).unwrap();
    let r: DateTime<Utc> = DateTime::from_timestamp(r_secs, r_nanos).unwrap();

    let d = TimeDelta::minutes(15);
    let min_opt = s.checked_sub_signed(d);
    let max_opt = s.checked_add_signed(d);
    assert!(min_opt.is_some(), "k3: checked_sub_signed(15 min) is None");
    assert!(max_opt.is_some(), "k3: checked_add_signed(15 min) is None");
    let min_ts = min_opt.unwrap_or(s);
    let max_ts = max_opt.unwrap_or(s);

    let expired = r < min_ts;
    let premature = r > max_ts;
    let spec_expired = lex_lt((r_secs, r_nanos), (s_secs - 900, s_nanos));
    let spec_premature = lex_lt((s_secs + 900, s_nanos), (r_secs, r_nanos));
    assert!(expired == spec_expired, "k3: `req < server - 15 min` differs from the integer comparison");
    assert!(premature == spec_premature, "k3: `req > server + 15 min` differs from the integer comparison");

    kani::cover!(expired, "k3: request older than the window");
    kani::cover!(premature, "k3: request newer than the window");
    kani::cover!(!expired && !premature, "k3: request inside the window");
    kani::cover!(!expired && r_secs == s_secs - 900 && r_nanos == s_nanos, "k3: request exactly on the lower edge");
    kani::cover!(expired && r_secs == s_secs - 900, "k3: one nanosecond class below the lower edge");
    kani::cover!(!premature && r_secs == s_secs + 900 && r_nanos == s_nanos, "k3: request exactly on the upper edge");
    kani::cover!(s_secs == anchor + SPAN - 1, "k3: last second of the interval");
}

#[kani::proof]
#[kani::unwind(1)]
fn k3_window_ordinary() {
    window(A_ORDINARY);
}

#[kani::proof]
#[kani::unwind(1)]
fn k3_window_yearend() {
    window(A_YEAREND);
}

#[kani::proof]
#[kani::unwind(1)]
fn k3_window_leapday() {
    window(A_LEAPDAY);
}

#[kani::proof]
#[kani::unwind(1)]
fn k3_window_y2100() {
    window(A_Y2100);
}

#[kani::proof]
#[kani::unwind(1)]
fn k3_window_y2k() {
    window(A_Y2K);
}

#[kani::proof]
#[kani::unwind(1)]
fn k3_window_epoch() {
    window(A_EPOCH);
}

// ------------------------------------------------------------------------------------------
// (b) `date_naive` against a closed-form civil-from-days
// ------------------------------------------------------------------------------------------

/// Howard Hinnant's `civil_from_days` (days since 1970-01-01 → proleptic Gregorian y/m/d).
/// Only multiplications by constants.
fn civil_from_days(days: i32) -> (i32, u32, u32) {
    let z = days + 719_468;
    let era = (if z >= 0 { z } else { z - 146_096 }) / 146_097;
    let doe = z - era * 146_097; // [0, 146096]
    let yoe = (doe - doe / 1_460 + doe / 36_524 - doe / 146_096) / 365; // [0, 399]
    let y = yoe + era * 400;
    let doy = doe - (365 * yoe + yoe / 4 - yoe / 100); // [0, 365]
    let mp = (5 * doy + 2) / 153; // [0, 11]
    let d = doy - (153 * mp + 2) / 5 + 1; // [1, 31]
    let m = if mp < 10 { mp + 3 } else { mp - 9 }; // [1, 12]
    (if m <= 2 { y + 1 } else { y }, m as u32, d as u32)
}

/// For `secs ∈ [anchor, anchor + 200 000)`: `from_timestamp(secs, nanos).date_naive()` has the
/// year/month/day of `civil_from_days(secs.div_euclid(86 400))`.
fn date(anchor: i64, first: (i32, u32, u32), last: (i32, u32, u32)) {
    let secs: i64 = kani::any();
    let nanos: u32 = kani::any();
    kani::assume(secs >= anchor && secs < anchor + SPAN);
    kani::assume(nanos < NANOS_PER_SEC);

    let dt: DateTime<Utc> = DateTime::from_timestamp(secs, nanos).unwrap();
    let got = dt.date_naive();

    let days = secs.div_euclid(86_400) as i32;
    let (y, m, d) = civil_from_days(days);
    assert!(got.year() == y, "k3: date_naive year differs from civil_from_days");
    assert!(got.month() == m, "k3: date_naive month differs from civil_from_days");
    assert!(got.day() == d, "k3: date_naive day differs from civil_from_days");

    // Concrete end points keep the closed form itself honest.
    kani::cover!(secs == anchor && (y, m, d) == first, "k3: first second has the expected date");
    kani::cover!(secs == anchor + SPAN - 1 && (y, m, d) == last, "k3: last second has the expected date");
    if secs == anchor {
        assert!((y, m, d) == first, "k3: civil date of the first second");
    }
    if secs == anchor + SPAN - 1 {
        assert!((y, m, d) == last, "k3: civil date of the last second");
    }
}

#[kani::proof]
#[kani::unwind(1)]
fn k3_date_ordinary() {
    // 2015-08-28T20:13:20Z .. 2015-08-31T03:46:39Z
    date(A_ORDINARY, (2015, 8, 28), (2015, 8, 31));
}

#[kani::proof]
#[kani::unwind(1)]
fn k3_date_yearend() {
    // 2015-12-29T20:13:20Z .. 2016-01-01T03:46:39Z
    date(A_YEAREND, (2015, 12, 29), (2016, 1, 1));
}

#[kani::proof]
#[kani::unwind(1)]
fn k3_date_leapday() {
    // 2016-02-27T18:26:40Z .. 2016-03-01T01:59:59Z
    date(A_LEAPDAY, (2016, 2, 27), (2016, 3, 1));
}

#[kani::proof]
#[kani::unwind(1)]
fn k3_date_y2100() {
    // 2100-02-27T18:26:40Z .. 2100-03-02T01:59:59Z (no 02-29 in 2100)
    date(A_Y2100, (2100, 2, 27), (2100, 3, 2));
}

#[kani::proof]
#[kani::unwind(1)]
fn k3_date_y2k() {
    // 1999-12-30T18:26:40Z .. 2000-01-02T01:59:59Z
    date(A_Y2K, (1999, 12, 30), (2000, 1, 2));
}

#[kani::proof]
#[kani::unwind(1)]
fn k3_date_epoch() {
    // 1969-12-30T20:13:20Z .. 1970-01-02T03:46:39Z
    date(A_EPOCH, (1969, 12, 30), (1970, 1, 2));
}

// ------------------------------------------------------------------------------------------
// (c) constructors used by `chronoutil::parse_from_iso8601`
// ------------------------------------------------------------------------------------------

fn is_leap(y: i32) -> bool {
    y % 4 == 0 && (y % 100 != 0 || y % 400 == 0)
}

fn days_in_month(y: i32, m: u32) -> u32 {
    match m {
        1 | 3 | 5 | 7 | 8 | 10 | 12 => 31,
        4 | 6 | 9 | 11 => 30,
        2 => {
            if is_leap(y) {
                29
            } else {
                28
            }
        }
        _ => 0,
    }
}

/// `NaiveDate::from_ymd_opt(y, m, d)` for `y ∈ 0..=9999`, `m ∈ 0..=13`, `d ∈ 0..=32` is `Some`
/// iff `1 <= m <= 12` and `1 <= d <= days_in_month(y, m)` (Gregorian leap rule), and then
/// reports the same year/month/day.
#[kani::proof]
#[kani::unwind(1)]
fn k3_ctor_date() {
    let y: i32 = kani::any();
    let m: u32 = kani::any();
    let d: u32 = kani::any();
    kani::assume(y >= 0 && y <= 9999);
    kani::assume(m <= 13);
    kani::assume(d <= 32);

    let got = NaiveDate::from_ymd_opt(y, m, d);
    let valid = m >= 1 && m <= 12 && d >= 1 && d <= days_in_month(y, m);
    assert!(got.is_some() == valid, "k3: from_ymd_opt validity differs from the Gregorian rule");
    if let Some(date) = got {
        assert!(date.year() == y && date.month() == m && date.day() == d, "k3: from_ymd_opt fields");
    }

    kani::cover!(valid && m == 2 && d == 29 && y == 2000, "k3: 2000-02-29 accepted");
    kani::cover!(!valid && m == 2 && d == 29 && y == 2100, "k3: 2100-02-29 rejected");
    kani::cover!(valid && m == 2 && d == 29 && y == 2016, "k3: 2016-02-29 accepted");
    kani::cover!(!valid && m == 13, "k3: month 13 rejected");
    kani::cover!(!valid && m == 4 && d == 31, "k3: 04-31 rejected");
    kani::cover!(valid && m == 12 && d == 31 && y == 9999, "k3: 9999-12-31 accepted");
    kani::cover!(valid && y == 0 && m == 1 && d == 1, "k3: 0000-01-01 accepted");
}

/// `NaiveTime::from_hms_nano_opt(h, mi, s, n)` for `h <= 24`, `mi <= 60`, `s <= 61`,
/// `n <= 2 000 000 000`. chrono 0.4.45 (`src/naive/time/mod.rs`): `None` iff
/// `h >= 24 || mi >= 60 || s >= 60 || (n >= 1e9 && s != 59) || n >= 2e9`, i.e. the leap-second
/// range `1e9 <= n < 2e9` is accepted only for `s == 59`.
#[kani::proof]
#[kani::unwind(1)]
fn k3_ctor_time() {
    let h: u32 = kani::any();
    let mi: u32 = kani::any();
    let s: u32 = kani::any();
    let n: u32 = kani::any();
    kani::assume(h <= 24 && mi <= 60 && s <= 61 && n <= 2_000_000_000);

    let got = NaiveTime::from_hms_nano_opt(h, mi, s, n);
    let valid = h < 24 && mi < 60 && s < 60 && (n < NANOS_PER_SEC || (s == 59 && n < 2_000_000_000));
    assert!(got.is_some() == valid, "k3: from_hms_nano_opt validity differs from the documented rule");
    // The only nanosecond values the ISO 8601 parser can deliver are < 1e9: there the rule is
    // the plain field range check.
    if n < NANOS_PER_SEC {
        assert!(got.is_some() == (h < 24 && mi < 60 && s < 60), "k3: from_hms_nano_opt, n < 1e9");
    }

    kani::cover!(valid && h == 23 && mi == 59 && s == 59 && n == 999_999_999, "k3: 23:59:59.999999999");
    kani::cover!(!valid && s == 60, "k3: second 60 rejected");
    kani::cover!(!valid && s == 61, "k3: second 61 rejected");
    kani::cover!(!valid && h == 24, "k3: hour 24 rejected");
    kani::cover!(!valid && mi == 60, "k3: minute 60 rejected");
    kani::cover!(!valid && n == NANOS_PER_SEC && s == 58 && h < 24 && mi < 60, "k3: n = 1e9 rejected for s != 59");
    kani::cover!(valid && n == NANOS_PER_SEC && s == 59, "k3: n = 1e9 accepted for s == 59 (leap second)");
    kani::cover!(!valid && n == 2_000_000_000 && s == 59 && h < 24 && mi < 60, "k3: n = 2e9 rejected");
}

/// `FixedOffset::east_opt(x)` for `x ∈ −100 000..=100 000` is `Some` iff `−86 400 < x < 86 400`,
/// and then `local_minus_utc() == x`.
#[kani::proof]
#[kani::unwind(1)]
fn k3_ctor_offset() {
    let x: i32 = kani::any();
    kani::assume(x >= -100_000 && x <= 100_000);

    let got = FixedOffset::east_opt(x);
    let valid = x > -86_400 && x < 86_400;
    assert!(got.is_some() == valid, "k3: east_opt validity");
    if let Some(off) = got {
        assert!(off.local_minus_utc() == x, "k3: east_opt keeps the offset");
    }

    kani::cover!(valid && x == 86_399, "k3: +23:59:59 accepted");
    kani::cover!(valid && x == -86_399, "k3: -23:59:59 accepted");
    kani::cover!(!valid && x == 86_400, "k3: +24:00 rejected");
    kani::cover!(!valid && x == -86_400, "k3: -24:00 rejected");
}

// ------------------------------------------------------------------------------------------
// (d) `FixedOffset::from_local_datetime`
// ------------------------------------------------------------------------------------------

/// Local wall-clock time = the civil date/time of a symbolic timestamp `local_secs` in one
/// anchor interval (plus symbolic nanos); offset `off = 60 * k` seconds, `k` symbolic with
/// `|k| <= 1439` and the given sign. `east_opt(off).from_local_datetime(&NaiveDateTime::new(
/// date, time))` is `LocalResult::Single(dt)` and `dt.with_timezone(&Utc)` has
/// `timestamp() == local_secs − off` and the same nanoseconds; `dt.offset()` is the offset.
fn local(anchor: i64, positive: bool) {
    let local_secs: i64 = kani::any();
    let nanos: u32 = kani::any();
    let k: i32 = kani::any();
    kani::assume(local_secs >= anchor && local_secs < anchor + SPAN);
    kani::assume(nanos < NANOS_PER_SEC);
    if positive {
        kani::assume(k >= 0 && k <= 1439);
    } else {
        kani::assume(k >= -1439 && k < 0);
    }
    let off: i32 = k * 60;

    let wall = DateTime::from_timestamp(local_secs, nanos).unwrap().naive_utc();
    let ndt = NaiveDateTime::new(wall.date(), wall.time());
    let offset = FixedOffset::east_opt(off).unwrap();

    match offset.from_local_datetime(&ndt) {
        LocalResult::Single(dt) => {
            assert!(dt.offset().local_minus_utc() == off, "k3: from_local_datetime keeps the offset");
            let utc = dt.with_timezone(&Utc);
            assert!(utc.timestamp() == local_secs - off as i64, "k3: utc timestamp is local - offset");
            assert!(utc.timestamp_subsec_nanos() == nanos, "k3: nanoseconds preserved");
            kani::cover!(true, "k3: Single result");
            kani::cover!(k == 1439 || k == -1439, "k3: extreme offset");
            kani::cover!(off == 0 || k == -1, "k3: smallest offset of this sign");
            kani::cover!(utc.date_naive() != ndt.date(), "k3: offset moves the instant to another day");
        }
        _ => {
            assert!(false, "k3: from_local_datetime is not LocalResult::Single");
        }
    }
}

/// Offsets `+00:00 ..= +23:59`, local time around the 2015→2016 year end.
#[kani::proof]
#[kani::unwind(1)]
fn k3_local_pos() {
    local(A_YEAREND, true);
}

/// Offsets `-23:59 ..= -00:01`, local time around 2016-02-29.
#[kani::proof]
#[kani::unwind(1)]
fn k3_local_neg() {
    local(A_LEAPDAY, false);
}
