"""C09 — path canonicalisation is a normal form faithful to the decoded path.

Decided by MIRSE: `canonicalize_uri_path`'s MIR is executed on symbolic paths and the
result is compared, on every feasible path, with the reference normal form
(specs/refmodel.ref_canon_path) by a z3 validity query; the code is then run on its own
output (idempotence) and, in the spelling shapes, on a respelled copy of the input.
"""
import itertools
import json
import random
import re
import sys
import time

import z3

from .common import *
from . import refmodel as R
from mirse import engine

PROP = 'C09'


# --------------------------------------------------------------------------- shapes

def shapes(tier, seed):
    out = []
    maxn = 5 if tier == 'quick' else 7
    for s3 in (False, True):
        for n in range(0, maxn + 1):
            for mask in itertools.product((0, 1), repeat=n):
                out.append(('ascii', n, mask, s3))
        # one 2-byte UTF-8 scalar at each position of short paths
        for n in (2, 3):
            for pos in range(1, n + 1):
                out.append(('utf8', n, pos, s3))
    # segment alphabet: paths of k segments
    alpha = ['S1', 'S2', '.', '..', '%2e', '%2E%2e', '.%2E', '%2F', '', '%zz', '%4', 'a%2Fb']

    def okc(combo):
        return sum(1 for c in combo if c in ('S1', 'S2')) <= 2
    kfull = 2 if tier == 'quick' else 3
    rnd = random.Random(seed)
    for s3 in (False, True):
        for k in range(1, kfull + 1):
            for combo in itertools.product(alpha, repeat=k):
                if okc(combo):
                    out.append(('segs', combo, s3))
        for k, cnt in (((3, 250),) if tier == 'quick' else ((4, 2500), (5, 2500))):
            for _ in range(cnt):
                combo = tuple(rnd.choice(alpha) for _ in range(k))
                if okc(combo):
                    out.append(('segs', combo, s3))
    # respelling: decoded path of n bytes, each byte spelled literal / %XX / %xx in two copies
    for s3 in (False, True):
        for n in ((2,) if tier == 'quick' else (2, 3)):
            for sa in itertools.product((0, 1, 2), repeat=n):
                for sb in itertools.product((0, 1, 2), repeat=n):
                    if sa < sb:
                        out.append(('spell', n, s3, sa, sb))
    return out


def build_input(ctx, shape):
    """Returns (bytes list, s3, description)."""
    kind = shape[0]
    if kind == 'ascii':
        _, n, mask, s3 = shape
        es = []
        for i in range(n):
            if mask[i]:
                es.append(Int('u8', 0x2F))
            else:
                b = ctx.fresh_bv('p%d' % i, 8)
                ctx.assume(z3.ULT(b, 0x80))
                ctx.assume(b != 0x2F)
                es.append(Int('u8', b))
        return es, s3
    if kind == 'utf8':
        _, n, pos, s3 = shape
        es = [Int('u8', 0x2F)]
        for i in range(1, n + 1):
            if i == pos:
                b0 = ctx.fresh_bv('u0', 8)
                b1 = ctx.fresh_bv('u1', 8)
                ctx.assume(z3.And(z3.UGE(b0, 0xC2), z3.ULE(b0, 0xDF), z3.UGE(b1, 0x80), z3.ULE(b1, 0xBF)))
                es += [Int('u8', b0), Int('u8', b1)]
            else:
                b = ctx.fresh_bv('p%d' % i, 8)
                ctx.assume(z3.ULT(b, 0x80))
                es.append(Int('u8', b))
        return es, s3
    if kind == 'segs':
        _, combo, s3 = shape
        es = []
        for j, seg in enumerate(combo):
            es.append(Int('u8', 0x2F))
            if seg in ('S1', 'S2'):
                for i in range(1 if seg == 'S1' else 2):
                    b = ctx.fresh_bv('s%d_%d' % (j, i), 8)
                    ctx.assume(z3.ULT(b, 0x80))
                    ctx.assume(b != 0x2F)
                    es.append(Int('u8', b))
            else:
                es += conc_bytes(seg)
        return es, s3
    raise ValueError(shape)


def spell(ctx, dec, how):
    """A wire spelling of decoded bytes: 0 literal (only if that is faithful), 1 %XX, 2 %xx."""
    out = []
    for i, b in enumerate(dec):
        k = how[i]
        if k == 0:
            # literal spelling is only a spelling of the same byte for bytes that are not '%', '/', '+'
            ctx.assume(z3.And(b.z() != 0x25, b.z() != 0x2F, b.z() != 0x2B, z3.ULT(b.z(), 0x80)))
            out.append(b)
        else:
            hi = z3.LShR(b.z(), 4)
            lo = b.z() & 15
            add = 0x37 if k == 1 else 0x57
            out.append(Int('u8', 0x25))
            out.append(Int('u8', z3.simplify(z3.If(z3.ULT(hi, 10), hi + 0x30, hi + add))))
            out.append(Int('u8', z3.simplify(z3.If(z3.ULT(lo, 10), lo + 0x30, lo + add))))
    return out


KNOWN_PREDICATES = {
    # F6: a literal '+' in a path segment is rendered %20 (as if it were a space) instead of %2B
    'path_has_literal_plus': lambda es: zor(*[(e.v == 0x2B) if not e.sym else (e.v == 0x2B) for e in es]),
}


def result_of(m, v):
    """Normalise the Result<String, SignatureError> of the code: ('ok', elems) | ('err', kind)."""
    if v.variant == 'Ok':
        return ('ok', v.fields[0].elems)
    e = v.fields[0]
    return ('err', e.variant)


def run_shape(prog, shape, tier, seed, res):
    known = load_known_findings(PROP)
    stats = res.stats

    def body(m, ctx):
        if shape[0] == 'spell':
            _, n, s3, sa, sb = shape
            dec = sym_bytes(ctx, 'd', n)
            a = [Int('u8', 0x2F)] + spell(ctx, dec, sa)
            b = [Int('u8', 0x2F)] + spell(ctx, dec, sb)
            ra = result_of(m, m.call('canonicalize_uri_path', [mk_str(a), s3], None))
            rb = result_of(m, m.call('canonicalize_uri_path', [mk_str(b), s3], None))
            return ('spell', a, b, ra, rb, s3)
        es, s3 = build_input(ctx, shape)
        ctx.x_input = (es, s3)
        r = result_of(m, m.call('canonicalize_uri_path', [mk_str(es), s3], None))
        try:
            ref = ('ok', R.ref_canon_path(ctx, es, s3))
        except R.RefError as e:
            ref = ('err', e.kind)
        # yardstick for the known finding F6 only (never an expectation): the same reference with a literal '+' read as a space
        try:
            ref6 = ('ok', R.ref_canon_path(ctx, es, s3, plus_is_space=True))
        except R.RefError as e:
            ref6 = ('err', e.kind)
        ctx.x_ref6 = ref6
        again = None
        if r[0] == 'ok':
            again = result_of(m, m.call('canonicalize_uri_path', [mk_str(r[1]), s3], None))
        return ('diff', es, s3, r, ref, again)

    def agrees(r, ref):
        """z3 condition (or Python bool) under which the code's result r is one the reference `ref` allows."""
        if r[0] == 'err' or ref[0] == 'err':
            return r[0] == ref[0] and r[1] == ref[1]
        alts = [bytes_eq(r[1], x) for x in ref[1] if len(x) == len(r[1])]
        return zor(*alts) if alts else False

    def report(ctx, what, es_list, s3, prop, detail, r=None):
        """prop failed to be valid: classify against known findings and record.  A deviation counts as the known finding F6
        only where the code's result is exactly what the F6 variant of the reference gives (literal '+' read as a space);
        any other deviation on an input with a '+' is a new violation."""
        allb = [e for es in es_list for e in es]
        preds = []
        if r is not None and getattr(ctx, 'x_ref6', None) is not None:
            f6 = zb(agrees(r, ctx.x_ref6))
            preds = [(k['id'], zand(KNOWN_PREDICATES[k['predicate']](allb), f6)) for k in known if k['predicate'] in KNOWN_PREDICATES]
        neg = z3.Not(prop) if not isinstance(prop, bool) else z3.BoolVal(not prop)
        q = z3.And(neg, *[z3.Not(zb(p)) for _, p in preds]) if preds else neg
        sat, model = ctx.satisfiable(q)
        kid = None
        if not sat:
            # every counterexample on this path falls under a known finding
            sat, model = ctx.satisfiable(neg)
            for k, p in preds:
                s2, _ = ctx.satisfiable(z3.And(neg, zb(p)))
                if s2:
                    kid = k
                    break
        inp = {'paths': [model_bytes(model, es).decode('latin-1') for es in es_list], 's3': s3}
        res.findings.append(Finding(what, inp, detail, kid, repr(shape)))

    def on_path(pr):
        ctx = pr.ctx
        res.obligations += 1
        if pr.kind == 'panic':
            ok_, model = ctx.satisfiable()
            inp = {'shape': repr(shape)}
            if ok_ and getattr(ctx, 'x_input', None):
                es_, s3_ = ctx.x_input
                inp = {'paths': [model_bytes(model, es_).decode('latin-1')], 's3': s3_}
            res.findings.append(Finding('panic: %s' % pr.value.msg, inp, None, None, repr(shape)))
            return
        v = pr.value
        if v[0] == 'spell':
            _, a, b, ra, rb, s3 = v
            if ra[0] != rb[0]:
                report(ctx, 'two spellings of one decoded path: %s vs %s' % (ra[0], rb[0]), [a, b], s3, False, None)
                return
            if ra[0] == 'ok':
                res.witnesses.add('spell-ok')
                if len(ra[1]) != len(rb[1]):
                    report(ctx, 'two spellings canonicalise to different lengths', [a, b], s3, False, None)
                    return
                prop = bytes_eq(ra[1], rb[1])
                okv, _ = ctx.valid(zb(prop))
                if not okv:
                    report(ctx, 'two spellings of one decoded path canonicalise differently', [a, b], s3, zb(prop), None)
            else:
                res.witnesses.add('spell-err')
            return
        _, es, s3, r, ref, again = v
        if len(res.samples) < 2:
            okm, model = ctx.satisfiable()
            if okm:
                res.samples.append({'path': model_bytes(model, es).decode('latin-1'), 's3': s3, 'outcome': r[0]})
        if r[0] == 'err':
            res.witnesses.add('err:' + r[1])
            if ref[0] != 'err':
                report(ctx, 'code fails (%s) where the reference succeeds' % r[1], [es], s3, False, None, r)
            elif r[1] != ref[1]:
                report(ctx, 'wrong error kind %s, expected %s' % (r[1], ref[1]), [es], s3, False, None, r)
            return
        res.witnesses.add('ok')
        if ref[0] == 'err':
            report(ctx, 'code succeeds where the reference fails (%s)' % ref[1], [es], s3, False, None, r)
            return
        alts = [bytes_eq(r[1], x) for x in ref[1] if len(x) == len(r[1])]
        prop = zor(*alts) if alts else False
        okv, _ = ctx.valid(zb(prop))
        if not okv:
            report(ctx, 'canonical path differs from the reference normal form', [es], s3, zb(prop), None, r)
            return
        # idempotence
        if again is None or again[0] != 'ok' or len(again[1]) != len(r[1]):
            report(ctx, 'not idempotent (second run: %s)' % (again[0] if again else None), [es], s3, False, None)
            return
        okv, _ = ctx.valid(zb(bytes_eq(again[1], r[1])))
        if not okv:
            report(ctx, 'not idempotent', [es], s3, zb(bytes_eq(again[1], r[1])), None)

    engine.explore(prog, body, on_path, stats=stats)


# --------------------------------------------------------------------------- concrete reference + replay

def ref_concrete(path, s3, f6=False):
    ctx = RefCtx()
    try:
        outs = R.ref_canon_path(ctx, conc_bytes(path.encode('latin-1')), s3, plus_is_space=f6)
        return ('ok', [bytes(e.v for e in o).decode('latin-1') for o in outs])
    except R.RefError as e:
        return ('err', e.kind)


def mirse_concrete(prog, path, s3):
    out = []

    def body(m, ctx):
        return m.call('canonicalize_uri_path', [mk_str(conc_bytes(path.encode('latin-1'))), s3], None)

    def on_path(pr):
        out.append(pr)
    engine.explore(prog, body, on_path)
    pr = out[0]
    if pr.kind == 'panic':
        return ('panic', pr.value.msg)
    v = pr.value
    if v.variant == 'Ok':
        return ('ok', bytes(e.v for e in v.fields[0].elems).decode('latin-1'))
    return ('err', v.fields[0].variant)


def native(rp, path, s3):
    try:
        path.encode('latin-1').decode('utf-8')
    except UnicodeDecodeError:
        return ('bad_input', 'not utf-8')
    r = rp.ask({'op': 'canon_path', 'path': path.encode('latin-1').decode('utf-8'), 's3': s3})
    if 'ok' in r:
        return ('ok', r['ok'].encode('utf-8').decode('latin-1'))
    if 'err' in r:
        return ('err', r['err']['kind'])
    if 'panic' in r:
        return ('panic', r['panic'])
    return ('bad_input', str(r))


def conformance(prog, rp, seed, tier):
    n_random = 150 if tier == 'quick' else 1000
    """Translator validation: MIRSE (concrete mode) and the native binary must agree."""
    src = open(REPO + '/src/canonical.rs').read()
    cases = [(p, s == 'true') for p, s in re.findall(r'canonicalize_uri_path\("([^"\\]*)", (true|false)\)', src)]
    rnd = random.Random(seed)
    alphabet = 'ab/%.+~*2eEfF -_\x7f'
    for _ in range(n_random):
        n = rnd.randint(0, 9)
        p = ''.join(rnd.choice(alphabet) for _ in range(n))
        if rnd.random() < 0.8:
            p = '/' + p
        cases.append((p, rnd.random() < 0.5))
    mism = []
    for p, s3 in cases:
        a = mirse_concrete(prog, p, s3)
        b = native(rp, p, s3)
        if a != b:
            mism.append({'path': p, 's3': s3, 'mirse': a, 'native': b})
    return len(cases), mism


def replay_finding(rp, f):
    """Native reproduction of a finding: returns (reproduced?, detail)."""
    if 'paths' not in f.inp:
        return False, None
    s3 = f.inp['s3']
    paths = f.inp['paths']
    nat = [native(rp, p, s3) for p in paths]
    if len(paths) == 2:
        return (nat[0] != nat[1] and all(x[0] != 'bad_input' for x in nat)), {'native': nat}
    ref = ref_concrete(paths[0], s3)
    n0 = nat[0]
    if n0[0] == 'bad_input':
        rep = False
    elif n0[0] == 'panic' or n0[0] != ref[0]:
        rep = True
    elif n0[0] == 'err':
        rep = n0[1] != ref[1]
    else:
        rep = n0[1] not in ref[1]
        if not rep and 'idempotent' in f.what:
            rep = native(rp, n0[1], s3) != n0
    if rep and f.known:
        # a known finding is only confirmed as such if the native result is exactly what the F6 variant gives
        ref6 = ref_concrete(paths[0], s3, f6=True)
        same6 = (n0[0] == ref6[0]) and ((n0[1] == ref6[1]) if n0[0] == 'err' else (n0[1] in ref6[1]))
        if not same6:
            f.known = None
    return rep, {'native': nat, 'reference': ref}


def describe(f):
    return 'path %r s3=%s -> %s' % (f.inp.get('paths'), f.inp.get('s3'), json.dumps(f.detail, default=str))


def bounds(tier):
    return ('every ASCII path of length <= %d (all 2^n slash layouts), one 2-byte UTF-8 scalar in paths of <= 4 bytes, '
            'segment-alphabet paths of <= %d segments exhaustively%s, two spellings (literal/%%XX/%%xx per byte, all byte '
            'values) of decoded paths of <= %d bytes; both modes'
            % (5 if tier == 'quick' else 7, 2 if tier == 'quick' else 3,
               ' plus 250 seeded 3-segment paths per mode' if tier == 'quick' else ' plus 2500 seeded 4- and 5-segment paths per mode',
               2 if tier == 'quick' else 3))


OUTSIDE = 'longer paths; multi-byte scalars beyond one 2-byte scalar; regex engine internals (pattern `//+` modelled)'
NEED_WITNESSES = {'ok', 'err:InvalidURIPath', 'spell-ok'}
ASSUMPTIONS = ['input strings are valid UTF-8 (type invariant of &str)']


def main(argv):
    return run_check(sys.modules[__name__], argv)


if __name__ == '__main__':
    sys.exit(main(sys.argv))
