//! verif-replay: native replay / conformance binary. See ../PROTOCOL.md.
//!
//! One JSON command per stdin line -> one JSON reply per stdout line. Every call into the crate
//! under test happens inside `run()` (catch_unwind + silent panic hook); the process keeps serving
//! after a panic. Malformed input is answered with {"bad_input": ...}.

// The private `chronoutil` module of the crate under test, compiled from the same source file.
#[path = "/repo/src/chronoutil.rs"]
mod chronoutil;

use {
    bytes::Bytes,
    chrono::{DateTime, Datelike, FixedOffset, NaiveDate, TimeDelta, Utc},
    chronoutil::ParseISO8601,
    hmac::{Hmac, Mac},
    http::{
        header::{HeaderMap, HeaderName, HeaderValue},
        Method, Request, Uri, Version,
    },
    scratchstack_aws_signature::{
        auth::{SigV4Authenticator, SigV4AuthenticatorResponse},
        canonical::{self, CanonicalRequest},
        errors::ServiceError,
        principal::{Principal, SessionData, SessionValue, User},
        sigv4_validate_request, ConstSignedHeaderRequirements, GetSigningKeyRequest, GetSigningKeyResponse,
        IntoRequestBytes, KSecretKey, KeyTooLongError, SignatureError, SignatureOptions, SignedHeaderRequirements,
        SliceSignedHeaderRequirements, VecSignedHeaderRequirements, NO_ADDITIONAL_SIGNED_HEADERS,
    },
    serde_json::{json, Value},
    sha2::{Digest, Sha256},
    std::{
        any::Any,
        borrow::Cow,
        cell::{Cell, RefCell},
        collections::HashMap,
        error::Error,
        fmt,
        future::Future,
        io::{self, BufRead, Write},
        panic::{self, AssertUnwindSafe},
        pin::Pin,
        str::FromStr,
        sync::atomic::{AtomicU64, Ordering::Relaxed},
        sync::{Arc, Mutex},
        task::{Context, Poll, RawWaker, RawWakerVTable, Waker},
    },
    tower::{BoxError, Service},
};

/// Reply of an op: Ok(reply object) or Err(reason) which becomes {"bad_input": reason}.
type R = Result<Value, String>;

const MAX_POLLS: u64 = 1000;
const STD_SECRET_CAPACITY: usize = 40; // KSecretKey<44> holds "AWS4" + 40 bytes

// ------------------------------------------------------------------------------------------------
// Panic capture
// ------------------------------------------------------------------------------------------------

thread_local! {
    static LAST_PANIC: RefCell<Option<(String, String)>> = const { RefCell::new(None) };
}

fn payload_msg(p: &(dyn Any + Send)) -> String {
    if let Some(s) = p.downcast_ref::<&str>() {
        (*s).to_string()
    } else if let Some(s) = p.downcast_ref::<String>() {
        s.clone()
    } else {
        "<non-string panic payload>".to_string()
    }
}

fn install_panic_hook() {
    panic::set_hook(Box::new(|info| {
        let msg = payload_msg(info.payload());
        let loc = match info.location() {
            Some(l) => format!("{}:{}", l.file(), l.line()),
            None => "<unknown>".to_string(),
        };
        LAST_PANIC.with(|c| {
            if let Ok(mut slot) = c.try_borrow_mut() {
                *slot = Some((msg, loc));
            }
        });
    }));
}

/// Run `f`, converting a panic into the protocol's panic object.
fn run<T>(f: impl FnOnce() -> T) -> Result<T, Value> {
    match panic::catch_unwind(AssertUnwindSafe(f)) {
        Ok(v) => Ok(v),
        Err(p) => {
            let recorded = LAST_PANIC.with(|c| c.try_borrow_mut().ok().and_then(|mut s| s.take()));
            let (msg, loc) = recorded.unwrap_or_else(|| (payload_msg(&*p), "<unknown>".to_string()));
            // A payload whose Drop panics must not take the process down.
            let _ = panic::catch_unwind(AssertUnwindSafe(move || drop(p)));
            Err(json!({"panic": msg, "location": loc}))
        }
    }
}

/// `run` for closures that already produce a reply value: a panic object replaces the value.
fn run_flat(f: impl FnOnce() -> Value) -> Value {
    run(f).unwrap_or_else(|p| p)
}

// ------------------------------------------------------------------------------------------------
// Log capture
// ------------------------------------------------------------------------------------------------

struct CaptureLogger;

static LOGGER: CaptureLogger = CaptureLogger;
static LOGS: Mutex<Vec<(log::Level, String, String)>> = Mutex::new(Vec::new());

impl log::Log for CaptureLogger {
    fn enabled(&self, _: &log::Metadata) -> bool {
        true
    }

    fn log(&self, record: &log::Record) {
        // Format outside the lock: a panicking Display impl must not poison it mid-push.
        let msg = format!("{}", record.args());
        let target = record.target().to_string();
        LOGS.lock().unwrap_or_else(|e| e.into_inner()).push((record.level(), target, msg));
    }

    fn flush(&self) {}
}

fn set_log_level(level: &str) -> Result<(), String> {
    let filter = match level {
        "off" => log::LevelFilter::Off,
        "error" => log::LevelFilter::Error,
        "warn" => log::LevelFilter::Warn,
        "info" => log::LevelFilter::Info,
        "debug" => log::LevelFilter::Debug,
        "trace" => log::LevelFilter::Trace,
        other => return Err(format!("unknown log_level {other:?}")),
    };
    log::set_max_level(filter);
    Ok(())
}

fn drain_logs() -> Value {
    let logs: Vec<_> = LOGS.lock().unwrap_or_else(|e| e.into_inner()).drain(..).collect();
    Value::Array(logs.into_iter().map(|(l, t, m)| json!([l.to_string(), t, m])).collect())
}

// ------------------------------------------------------------------------------------------------
// JSON input helpers (never panic)
// ------------------------------------------------------------------------------------------------

fn field<'a>(c: &'a Value, k: &str) -> Option<&'a Value> {
    match c.get(k) {
        None | Some(Value::Null) => None,
        Some(v) => Some(v),
    }
}

fn opt_str<'a>(c: &'a Value, k: &str) -> Result<Option<&'a str>, String> {
    match field(c, k) {
        None => Ok(None),
        Some(Value::String(s)) => Ok(Some(s)),
        Some(_) => Err(format!("field {k:?} must be a string")),
    }
}

fn req_str<'a>(c: &'a Value, k: &str) -> Result<&'a str, String> {
    opt_str(c, k)?.ok_or_else(|| format!("missing string field {k:?}"))
}

fn str_or<'a>(c: &'a Value, k: &str, default: &'a str) -> Result<&'a str, String> {
    Ok(opt_str(c, k)?.unwrap_or(default))
}

fn bool_or(c: &Value, k: &str, default: bool) -> Result<bool, String> {
    match field(c, k) {
        None => Ok(default),
        Some(Value::Bool(b)) => Ok(*b),
        Some(_) => Err(format!("field {k:?} must be a boolean")),
    }
}

fn u64_or(c: &Value, k: &str, default: u64) -> Result<u64, String> {
    match field(c, k) {
        None => Ok(default),
        Some(v) => v.as_u64().ok_or_else(|| format!("field {k:?} must be a non-negative integer")),
    }
}

fn i64_or(c: &Value, k: &str, default: i64) -> Result<i64, String> {
    match field(c, k) {
        None => Ok(default),
        Some(v) => v.as_i64().ok_or_else(|| format!("field {k:?} must be an integer")),
    }
}

fn unhex(s: &str, what: &str) -> Result<Vec<u8>, String> {
    hex::decode(s).map_err(|e| format!("{what}: invalid hex: {e}"))
}

fn req_hex(c: &Value, k: &str) -> Result<Vec<u8>, String> {
    unhex(req_str(c, k)?, k)
}

fn str_list<'a>(v: Option<&'a Value>, what: &str) -> Result<Vec<&'a str>, String> {
    match v {
        None | Some(Value::Null) => Ok(Vec::new()),
        Some(Value::Array(a)) => {
            a.iter().map(|x| x.as_str().ok_or_else(|| format!("{what} must be a list of strings"))).collect()
        }
        Some(_) => Err(format!("{what} must be a list of strings")),
    }
}

fn instant(v: Option<&Value>, what: &str) -> Result<DateTime<Utc>, String> {
    let v = v.ok_or_else(|| format!("missing instant {what:?}"))?;
    if !v.is_object() {
        return Err(format!("{what} must be {{\"secs\":..,\"nanos\":..}}"));
    }
    let secs = v.get("secs").and_then(Value::as_i64).ok_or_else(|| format!("{what}.secs must be an i64"))?;
    let nanos = u64_or(v, "nanos", 0)?;
    let nanos = u32::try_from(nanos).map_err(|_| format!("{what}.nanos does not fit u32"))?;
    DateTime::<Utc>::from_timestamp(secs, nanos).ok_or_else(|| format!("{what} is out of chrono's range"))
}

fn instant_json(t: DateTime<Utc>) -> Value {
    json!({"secs": t.timestamp(), "nanos": t.timestamp_subsec_nanos()})
}

fn date(v: Option<&Value>) -> Result<NaiveDate, String> {
    let bad = || "date must be [year, month, day]".to_string();
    let a = v.and_then(Value::as_array).ok_or_else(bad)?;
    if a.len() != 3 {
        return Err(bad());
    }
    let y = a[0].as_i64().and_then(|y| i32::try_from(y).ok()).ok_or_else(bad)?;
    let m = a[1].as_u64().and_then(|m| u32::try_from(m).ok()).ok_or_else(bad)?;
    let d = a[2].as_u64().and_then(|d| u32::try_from(d).ok()).ok_or_else(bad)?;
    NaiveDate::from_ymd_opt(y, m, d).ok_or_else(|| format!("invalid date {y}-{m}-{d}"))
}

fn options(c: &Value) -> Result<SignatureOptions, String> {
    match field(c, "options") {
        None => Ok(SignatureOptions::default()),
        Some(o) if o.is_object() => Ok(SignatureOptions {
            s3: bool_or(o, "s3", false)?,
            url_encode_form: bool_or(o, "url_encode_form", false)?,
        }),
        Some(_) => Err("options must be an object".to_string()),
    }
}

// ------------------------------------------------------------------------------------------------
// Rendering of errors and common values
// ------------------------------------------------------------------------------------------------

fn sig_kind(e: &SignatureError) -> &'static str {
    match e {
        SignatureError::ExpiredToken(_) => "ExpiredToken",
        SignatureError::IO(_) => "IO",
        SignatureError::InternalServiceError(_) => "InternalServiceError",
        SignatureError::InvalidBodyEncoding(_) => "InvalidBodyEncoding",
        SignatureError::InvalidClientTokenId(_) => "InvalidClientTokenId",
        SignatureError::InvalidContentType(_) => "InvalidContentType",
        SignatureError::InvalidRequestMethod(_) => "InvalidRequestMethod",
        SignatureError::IncompleteSignature(_) => "IncompleteSignature",
        SignatureError::InvalidURIPath(_) => "InvalidURIPath",
        SignatureError::MalformedQueryString(_) => "MalformedQueryString",
        SignatureError::MissingAuthenticationToken(_) => "MissingAuthenticationToken",
        SignatureError::SignatureDoesNotMatch(_) => "SignatureDoesNotMatch",
        _ => "<unknown variant>",
    }
}

fn sig_err(e: &SignatureError) -> Value {
    json!({
        "kind": sig_kind(e),
        "msg": e.to_string(),
        "code": e.error_code(),
        "status": e.http_status().as_u16(),
        "debug": format!("{e:?}"),
    })
}

fn box_err(e: BoxError) -> Value {
    match e.downcast::<SignatureError>() {
        Ok(se) => sig_err(&se),
        Err(e) => json!({"kind": "<foreign>", "msg": e.to_string()}),
    }
}

fn sig_result_str(r: Result<String, SignatureError>) -> Value {
    match r {
        Ok(s) => json!({"ok": s}),
        Err(e) => json!({"err": sig_err(&e)}),
    }
}

fn sorted_string_map(m: &HashMap<String, Vec<String>>) -> Value {
    let mut keys: Vec<&String> = m.keys().collect();
    keys.sort();
    Value::Array(keys.into_iter().map(|k| json!([k, m[k]])).collect())
}

fn sorted_bytes_map(m: &HashMap<String, Vec<Vec<u8>>>) -> Value {
    let mut keys: Vec<&String> = m.keys().collect();
    keys.sort();
    Value::Array(
        keys.into_iter().map(|k| json!([k, m[k].iter().map(hex::encode).collect::<Vec<String>>()])).collect(),
    )
}

fn header_map_json(h: &HeaderMap) -> Value {
    Value::Array(h.iter().map(|(k, v)| json!([k.as_str(), hex::encode(v.as_bytes())])).collect())
}

fn version_str(v: Version) -> String {
    format!("{v:?}")
}

// ------------------------------------------------------------------------------------------------
// SignatureError construction (provider scripts, error table)
// ------------------------------------------------------------------------------------------------

#[derive(Debug)]
struct ForeignError(String);

impl fmt::Display for ForeignError {
    fn fmt(&self, f: &mut fmt::Formatter<'_>) -> fmt::Result {
        f.write_str(&self.0)
    }
}

impl Error for ForeignError {}

const STRING_KINDS: [&str; 9] = [
    "ExpiredToken",
    "InvalidBodyEncoding",
    "InvalidClientTokenId",
    "InvalidContentType",
    "InvalidRequestMethod",
    "IncompleteSignature",
    "InvalidURIPath",
    "MalformedQueryString",
    "MissingAuthenticationToken",
];

fn known_sig_kind(kind: &str) -> bool {
    STRING_KINDS.contains(&kind) || matches!(kind, "IO" | "InternalServiceError" | "SignatureDoesNotMatch")
}

/// Build a SignatureError of the named kind. `msg == None` is only meaningful for
/// SignatureDoesNotMatch (-> `None` payload); other kinds use "" then.
fn make_sig_err(kind: &str, msg: Option<&str>) -> Option<SignatureError> {
    let m = msg.unwrap_or("").to_string();
    Some(match kind {
        "ExpiredToken" => SignatureError::ExpiredToken(m),
        "IO" => SignatureError::IO(io::Error::new(io::ErrorKind::Other, m)),
        // "wrap:<Kind>:<msg>": the payload is itself a SignatureError of that kind (a provider's own upstream failure)
        "InternalServiceError" => match m.strip_prefix("wrap:").and_then(|r| r.split_once(':')) {
            Some((k, inner_msg)) if k != "InternalServiceError" => match make_sig_err(k, Some(inner_msg)) {
                Some(inner) => SignatureError::InternalServiceError(Box::new(inner)),
                None => return None,
            },
            _ => SignatureError::InternalServiceError(m.into()),
        },
        "InvalidBodyEncoding" => SignatureError::InvalidBodyEncoding(m),
        "InvalidClientTokenId" => SignatureError::InvalidClientTokenId(m),
        "InvalidContentType" => SignatureError::InvalidContentType(m),
        "InvalidRequestMethod" => SignatureError::InvalidRequestMethod(m),
        "IncompleteSignature" => SignatureError::IncompleteSignature(m),
        "InvalidURIPath" => SignatureError::InvalidURIPath(m),
        "MalformedQueryString" => SignatureError::MalformedQueryString(m),
        "MissingAuthenticationToken" => SignatureError::MissingAuthenticationToken(m),
        "SignatureDoesNotMatch" => SignatureError::SignatureDoesNotMatch(msg.map(str::to_string)),
        _ => return None,
    })
}

// ------------------------------------------------------------------------------------------------
// Request description
// ------------------------------------------------------------------------------------------------

#[derive(Clone, Copy, PartialEq)]
enum BodyKind {
    Bytes,
    Vec,
    Unit,
}

#[derive(Clone)]
struct ReqSpec {
    method: Method,
    uri: Uri,
    version: Version,
    headers: HeaderMap,
    body: Vec<u8>,
    body_kind: BodyKind,
}

impl ReqSpec {
    fn build<B>(&self, body: B) -> Request<B> {
        let mut r = Request::new(body);
        *r.method_mut() = self.method.clone();
        *r.uri_mut() = self.uri.clone();
        *r.version_mut() = self.version;
        *r.headers_mut() = self.headers.clone();
        r
    }
}

fn parse_request(c: &Value) -> Result<ReqSpec, String> {
    let r = field(c, "request").ok_or("missing \"request\"")?;
    if !r.is_object() {
        return Err("\"request\" must be an object".to_string());
    }
    let method = str_or(r, "method", "GET")?;
    let uri_bytes: Vec<u8> = match (opt_str(r, "uri")?, opt_str(r, "uri_hex")?) {
        (Some(_), Some(_)) => return Err("give only one of request.uri / request.uri_hex".to_string()),
        (Some(u), None) => u.as_bytes().to_vec(),
        (None, Some(h)) => unhex(h, "request.uri_hex")?,
        (None, None) => return Err("missing request.uri".to_string()),
    };
    let version = match str_or(r, "version", "HTTP/1.1")? {
        "HTTP/0.9" => Version::HTTP_09,
        "HTTP/1.0" => Version::HTTP_10,
        "HTTP/1.1" => Version::HTTP_11,
        "HTTP/2.0" => Version::HTTP_2,
        "HTTP/3.0" => Version::HTTP_3,
        other => return Err(format!("unknown HTTP version {other:?}")),
    };
    let mut raw_headers: Vec<(&str, Vec<u8>)> = Vec::new();
    match field(r, "headers") {
        None => (),
        Some(Value::Array(hs)) => {
            for h in hs {
                match h.as_array().map(Vec::as_slice) {
                    Some([Value::String(n), Value::String(v)]) => {
                        raw_headers.push((n, unhex(v, "request.headers value")?))
                    }
                    _ => return Err("request.headers entries must be [name, value_hex]".to_string()),
                }
            }
        }
        Some(_) => return Err("request.headers must be a list".to_string()),
    }
    let body = unhex(str_or(r, "body_hex", "")?, "request.body_hex")?;
    let body_kind = match str_or(r, "body_kind", "bytes")? {
        "bytes" => BodyKind::Bytes,
        "vec" => BodyKind::Vec,
        "unit" => BodyKind::Unit,
        other => return Err(format!("unknown body_kind {other:?}")),
    };

    // Everything below goes through the http crate; whatever it rejects (or panics on) is bad input.
    let built = run(|| -> Result<ReqSpec, String> {
        let method =
            Method::from_bytes(method.as_bytes()).map_err(|e| format!("http rejects method {method:?}: {e}"))?;
        let uri = Uri::from_maybe_shared(Bytes::from(uri_bytes)).map_err(|e| format!("http rejects uri: {e}"))?;
        let mut headers = HeaderMap::new();
        for (n, v) in &raw_headers {
            let name = HeaderName::from_bytes(n.as_bytes())
                .map_err(|e| format!("http rejects header name {n:?}: {e}"))?;
            let value = HeaderValue::from_bytes(v)
                .map_err(|e| format!("http rejects value of header {n:?}: {e}"))?;
            headers.try_append(name, value).map_err(|e| format!("http rejects header set: {e}"))?;
        }
        Ok(ReqSpec {
            method,
            uri,
            version,
            headers,
            body,
            body_kind,
        })
    });
    match built {
        Ok(r) => r,
        Err(p) => Err(format!("http crate panicked building the request: {p}")),
    }
}

// ------------------------------------------------------------------------------------------------
// Signed header requirements
// ------------------------------------------------------------------------------------------------

const VEC_OPS: [&str; 6] = [
    "add_always_present",
    "add_if_in_request",
    "add_prefix",
    "remove_always_present",
    "remove_if_in_request",
    "remove_prefix",
];

/// Parsed (pure data) requirements description; the crate types are built inside `run`.
struct ReqsSpec<'a> {
    kind: &'a str,
    always: Vec<&'a str>,
    if_in: Vec<&'a str>,
    prefixes: Vec<&'a str>,
    ops: Vec<(&'a str, &'a str)>,
}

/// Backing storage for the `slice` kind: even positions are `Cow::Borrowed`, odd ones `Cow::Owned`.
struct SliceStore<'a>(Vec<Cow<'a, str>>, Vec<Cow<'a, str>>, Vec<Cow<'a, str>>);

/// Dispatches to the three concrete implementations (the crate's entry points are generic over
/// `S: SignedHeaderRequirements`, which must be `Sized`).
enum Reqs<'a> {
    Const(ConstSignedHeaderRequirements),
    Slice(SliceSignedHeaderRequirements<'a, 'a, 'a>),
    Vec(VecSignedHeaderRequirements),
}

impl SignedHeaderRequirements for Reqs<'_> {
    fn always_present(&self) -> &[Cow<'_, str>] {
        match self {
            Reqs::Const(r) => r.always_present(),
            Reqs::Slice(r) => r.always_present(),
            Reqs::Vec(r) => r.always_present(),
        }
    }

    fn if_in_request(&self) -> &[Cow<'_, str>] {
        match self {
            Reqs::Const(r) => r.if_in_request(),
            Reqs::Slice(r) => r.if_in_request(),
            Reqs::Vec(r) => r.if_in_request(),
        }
    }

    fn prefixes(&self) -> &[Cow<'_, str>] {
        match self {
            Reqs::Const(r) => r.prefixes(),
            Reqs::Slice(r) => r.prefixes(),
            Reqs::Vec(r) => r.prefixes(),
        }
    }
}

fn parse_reqs(v: Option<&Value>) -> Result<ReqsSpec<'_>, String> {
    let Some(v) = v else {
        return Ok(ReqsSpec {
            kind: "none",
            always: vec![],
            if_in: vec![],
            prefixes: vec![],
            ops: vec![],
        });
    };
    if !v.is_object() {
        return Err("requirements must be an object".to_string());
    }
    let kind = req_str(v, "kind")?;
    if !matches!(kind, "none" | "slice" | "vec") {
        return Err(format!("unknown requirements kind {kind:?}"));
    }
    let mut ops = Vec::new();
    match field(v, "ops") {
        None => (),
        Some(Value::Array(a)) => {
            for o in a {
                match o.as_array().map(Vec::as_slice) {
                    Some([Value::String(name), Value::String(arg)]) if VEC_OPS.contains(&name.as_str()) => {
                        ops.push((name.as_str(), arg.as_str()))
                    }
                    _ => return Err(format!("requirements.ops entries must be [method, arg] with method in {VEC_OPS:?}")),
                }
            }
        }
        Some(_) => return Err("requirements.ops must be a list".to_string()),
    }
    if kind != "vec" && !ops.is_empty() {
        return Err("requirements.ops is only valid for kind \"vec\"".to_string());
    }
    Ok(ReqsSpec {
        kind,
        always: str_list(v.get("always"), "requirements.always")?,
        if_in: str_list(v.get("if_in"), "requirements.if_in")?,
        prefixes: str_list(v.get("prefixes"), "requirements.prefixes")?,
        ops,
    })
}

impl<'a> ReqsSpec<'a> {
    fn store(&self) -> SliceStore<'a> {
        fn cows<'x>(v: &[&'x str]) -> Vec<Cow<'x, str>> {
            v.iter()
                .enumerate()
                .map(|(i, s)| {
                    if i % 2 == 0 {
                        Cow::Borrowed(*s)
                    } else {
                        Cow::Owned((*s).to_string())
                    }
                })
                .collect()
        }
        SliceStore(cows(&self.always), cows(&self.if_in), cows(&self.prefixes))
    }

    /// Build the crate's requirement object. Calls into the crate: use inside `run`.
    fn make<'s>(&self, st: &'s SliceStore<'s>) -> Reqs<'s> {
        match self.kind {
            "slice" => Reqs::Slice(SliceSignedHeaderRequirements::new(&st.0, &st.1, &st.2)),
            "vec" => {
                let mut v = VecSignedHeaderRequirements::new(&self.always, &self.if_in, &self.prefixes);
                for (op, arg) in &self.ops {
                    match *op {
                        "add_always_present" => v.add_always_present(arg),
                        "add_if_in_request" => v.add_if_in_request(arg),
                        "add_prefix" => v.add_prefix(arg),
                        "remove_always_present" => v.remove_always_present(arg),
                        "remove_if_in_request" => v.remove_if_in_request(arg),
                        _ => v.remove_prefix(arg),
                    }
                }
                Reqs::Vec(v)
            }
            _ => Reqs::Const(NO_ADDITIONAL_SIGNED_HEADERS),
        }
    }
}

fn cow_list(l: &[Cow<'_, str>]) -> Value {
    Value::Array(l.iter().map(|c| Value::String(c.to_string())).collect())
}

// ------------------------------------------------------------------------------------------------
// Scripted signing-key provider (hand-written tower::Service) and block_on
// ------------------------------------------------------------------------------------------------

#[derive(Clone)]
enum ErrSpec {
    Sig { kind: String, msg: Option<String> },
    Foreign(String),
}

impl ErrSpec {
    fn build(&self) -> BoxError {
        match self {
            ErrSpec::Sig {
                kind,
                msg,
            } => match make_sig_err(kind, msg.as_deref()) {
                Some(e) => Box::new(e),
                None => Box::new(ForeignError(format!("unknown kind {kind}"))), // unreachable: validated at parse time
            },
            ErrSpec::Foreign(m) => Box::new(ForeignError(m.clone())),
        }
    }
}

enum ResultSpec {
    Secret(String),
    ZeroKey,
    Err(ErrSpec),
}

struct Script {
    ready_pending: u64,
    ready_err: Option<ErrSpec>,
    future_pending: u64,
    result: ResultSpec,
    principal: Principal,
    session: SessionData,
}

#[derive(Default)]
struct ProviderLog {
    poll_ready_calls: u64,
    calls: Vec<Value>,
    events: Vec<&'static str>,
}

type SharedLog = Arc<Mutex<ProviderLog>>;

fn with_log<T>(log: &SharedLog, f: impl FnOnce(&mut ProviderLog) -> T) -> T {
    f(&mut log.lock().unwrap_or_else(|e| e.into_inner()))
}

fn provider_log_json(log: &SharedLog) -> Value {
    with_log(log, |l| json!({"poll_ready_calls": l.poll_ready_calls, "calls": l.calls, "events": l.events}))
}

fn parse_err_spec(v: &Value, what: &str) -> Result<ErrSpec, String> {
    if let Some(s) = field(v, "sig") {
        let kind = req_str(s, "kind")?;
        if !known_sig_kind(kind) {
            return Err(format!("{what}: unknown SignatureError kind {kind:?}"));
        }
        let msg = opt_str(s, "msg")?;
        if msg.is_none() && kind != "SignatureDoesNotMatch" {
            return Err(format!("{what}: kind {kind} needs a \"msg\""));
        }
        Ok(ErrSpec::Sig {
            kind: kind.to_string(),
            msg: msg.map(str::to_string),
        })
    } else if let Some(f) = opt_str(v, "foreign")? {
        Ok(ErrSpec::Foreign(f.to_string()))
    } else {
        Err(format!("{what} must be {{\"sig\":{{\"kind\",\"msg\"}}}} or {{\"foreign\":\"..\"}}"))
    }
}

fn parse_provider(c: &Value) -> Result<Script, String> {
    let p = field(c, "provider").ok_or("missing \"provider\"")?;
    if !p.is_object() {
        return Err("\"provider\" must be an object".to_string());
    }
    let res = field(p, "result").ok_or("missing provider.result")?;
    let result = if let Some(secret) = opt_str(res, "secret")? {
        if secret.len() > STD_SECRET_CAPACITY {
            return Err(format!("provider.result.secret does not fit KSecretKey<44> ({} > 40 bytes)", secret.len()));
        }
        ResultSpec::Secret(secret.to_string())
    } else if let Some(h) = opt_str(res, "signing_key_hex")? {
        let key = unhex(h, "provider.result.signing_key_hex")?;
        if key.len() != 32 {
            return Err("provider.result.signing_key_hex must be 64 hex digits".to_string());
        }
        if key.iter().any(|b| *b != 0) {
            // KSigningKey has no public constructor from bytes; only the all-zero key of
            // GetSigningKeyResponse::default() is reachable without unsafe code.
            return Err("signing_key_hex: only the all-zero key can be constructed (KSigningKey has no public \
                        constructor from bytes)"
                .to_string());
        }
        ResultSpec::ZeroKey
    } else if let Some(e) = field(res, "err") {
        ResultSpec::Err(parse_err_spec(e, "provider.result.err")?)
    } else {
        return Err("provider.result must have \"secret\", \"signing_key_hex\" or \"err\"".to_string());
    };
    let ready_err = match field(p, "ready_err") {
        None => None,
        Some(e) => Some(parse_err_spec(e, "provider.ready_err")?),
    };
    let user = opt_str(p, "principal_user")?;
    let mut session_pairs: Vec<(&str, &str)> = Vec::new();
    match field(p, "session") {
        None => (),
        Some(Value::Object(m)) => {
            for (k, v) in m {
                session_pairs.push((k, v.as_str().ok_or("provider.session values must be strings")?));
            }
        }
        Some(_) => return Err("provider.session must be an object of strings".to_string()),
    }
    // Principal/session come from the scratchstack-aws-principal crate (not under test); anything it
    // rejects is bad input.
    let built = run(|| -> Result<(Principal, SessionData), String> {
        let principal = match user {
            Some(name) => {
                let u = User::new("aws", "123456789012", "/", name)
                    .map_err(|e| format!("principal_user {name:?} rejected: {e}"))?;
                Principal::from(vec![u.into()])
            }
            None => Principal::new(vec![]),
        };
        let mut session = SessionData::new();
        for (k, v) in &session_pairs {
            session.insert(k, SessionValue::String((*v).to_string()));
        }
        Ok((principal, session))
    });
    let (principal, session) = match built {
        Ok(r) => r?,
        Err(p) => return Err(format!("principal crate panicked: {p}")),
    };
    Ok(Script {
        ready_pending: u64_or(p, "ready_pending", 0)?,
        ready_err,
        future_pending: u64_or(p, "future_pending", 0)?,
        result,
        principal,
        session,
    })
}

struct Provider {
    script: Arc<Script>,
    log: SharedLog,
    ready_left: u64,
}

impl Provider {
    fn new(script: &Arc<Script>, log: &SharedLog) -> Self {
        Provider {
            script: script.clone(),
            log: log.clone(),
            ready_left: script.ready_pending,
        }
    }
}

struct ProviderFuture {
    script: Arc<Script>,
    log: SharedLog,
    pending_left: u64,
    req: GetSigningKeyRequest,
}

impl Service<GetSigningKeyRequest> for Provider {
    type Response = GetSigningKeyResponse;
    type Error = BoxError;
    type Future = ProviderFuture;

    fn poll_ready(&mut self, cx: &mut Context<'_>) -> Poll<Result<(), BoxError>> {
        with_log(&self.log, |l| l.poll_ready_calls += 1);
        if self.ready_left > 0 {
            self.ready_left -= 1;
            with_log(&self.log, |l| l.events.push("poll_ready:pending"));
            cx.waker().wake_by_ref();
            return Poll::Pending;
        }
        if let Some(e) = &self.script.ready_err {
            with_log(&self.log, |l| l.events.push("poll_ready:err"));
            return Poll::Ready(Err(e.build()));
        }
        with_log(&self.log, |l| l.events.push("poll_ready:ready"));
        Poll::Ready(Ok(()))
    }

    fn call(&mut self, req: GetSigningKeyRequest) -> ProviderFuture {
        let d = req.request_date();
        let call = json!({
            "access_key": req.access_key(),
            "session_token": req.session_token(),
            "date": [d.year(), d.month(), d.day()],
            "region": req.region(),
            "service": req.service(),
        });
        with_log(&self.log, |l| {
            l.events.push("call");
            l.calls.push(call);
        });
        ProviderFuture {
            script: self.script.clone(),
            log: self.log.clone(),
            pending_left: self.script.future_pending,
            req,
        }
    }
}

impl Future for ProviderFuture {
    type Output = Result<GetSigningKeyResponse, BoxError>;

    fn poll(self: Pin<&mut Self>, cx: &mut Context<'_>) -> Poll<Self::Output> {
        let this = self.get_mut(); // all fields are Unpin
        if this.pending_left > 0 {
            this.pending_left -= 1;
            with_log(&this.log, |l| l.events.push("future:pending"));
            cx.waker().wake_by_ref();
            return Poll::Pending;
        }
        with_log(&this.log, |l| l.events.push("future:ready"));
        let key = match &this.script.result {
            ResultSpec::Secret(s) => match KSecretKey::<44>::from_str(s) {
                Ok(k) => k.to_ksigning(this.req.request_date(), this.req.region(), this.req.service()),
                Err(e) => return Poll::Ready(Err(Box::new(e))),
            },
            ResultSpec::ZeroKey => *GetSigningKeyResponse::default().signing_key(),
            ResultSpec::Err(e) => return Poll::Ready(Err(e.build())),
        };
        let resp = GetSigningKeyResponse::builder()
            .principal(this.script.principal.clone())
            .session_data(this.script.session.clone())
            .signing_key(key)
            .build();
        Poll::Ready(resp.map_err(|e| Box::new(e) as BoxError))
    }
}

/// Compile-time check that the provider and its future are `Send`, as the crate's bounds demand.
#[allow(dead_code)]
fn assert_send() {
    fn is_send<T: Send>() {}
    is_send::<Provider>();
    is_send::<ProviderFuture>();
}

fn noop_waker() -> Waker {
    fn clone(_: *const ()) -> RawWaker {
        RawWaker::new(std::ptr::null(), &VTABLE)
    }
    fn noop(_: *const ()) {}
    static VTABLE: RawWakerVTable = RawWakerVTable::new(clone, noop, noop, noop);
    // SAFETY: the vtable functions ignore the (null) data pointer and have no effects, which
    // trivially upholds the RawWaker contract.
    unsafe { Waker::from_raw(RawWaker::new(std::ptr::null(), &VTABLE)) }
}

/// Poll `fut` with a no-op waker until it is ready; `polls` counts top-level polls (and stays
/// readable if a poll panics). `None` after MAX_POLLS polls.
fn block_on<F: Future>(fut: F, polls: &Cell<u64>) -> Option<F::Output> {
    let mut fut = std::pin::pin!(fut);
    let waker = noop_waker();
    let mut cx = Context::from_waker(&waker);
    while polls.get() < MAX_POLLS {
        polls.set(polls.get() + 1);
        if let Poll::Ready(v) = fut.as_mut().poll(&mut cx) {
            return Some(v);
        }
    }
    None
}

const NEVER_READY: &str = "never ready";

// ------------------------------------------------------------------------------------------------
// Simple ops
// ------------------------------------------------------------------------------------------------

fn op_canon_path(c: &Value) -> R {
    let path = req_str(c, "path")?;
    let s3 = bool_or(c, "s3", false)?;
    Ok(run_flat(|| sig_result_str(canonical::canonicalize_uri_path(path, s3))))
}

fn op_norm_element(c: &Value) -> R {
    let s = req_str(c, "s")?;
    match req_str(c, "kind")? {
        "path" => Ok(run_flat(|| sig_result_str(canonical::normalize_uri_path_component(s)))),
        "query" => Ok(run_flat(|| sig_result_str(canonical::normalize_query_string_element(s)))),
        other => Err(format!("norm_element kind must be \"path\" or \"query\", got {other:?}")),
    }
}

fn op_canon_query(c: &Value) -> R {
    let q = req_str(c, "query")?;
    let repeat = u64_or(c, "repeat", 1)?;
    if repeat == 0 || repeat > 1_000_000 {
        return Err("repeat must be in 1..=1000000".to_string());
    }
    Ok(run_flat(|| {
        let mut first: Option<(String, Value)> = None;
        let mut all_equal = true;
        for _ in 0..repeat {
            let map = match canonical::query_string_to_normalized_map(q) {
                Ok(m) => m,
                Err(e) => return json!({"err": sig_err(&e)}),
            };
            let s = canonical::canonicalize_query_to_string(&map);
            match &first {
                None => first = Some((s, sorted_string_map(&map))),
                Some((f, _)) => all_equal &= *f == s,
            }
        }
        let (ok, map) = first.unwrap_or_default();
        json!({"ok": ok, "all_equal": all_equal, "map": map})
    }))
}

fn op_unescape(c: &Value) -> R {
    let s = req_str(c, "s")?;
    Ok(run_flat(|| json!({"ok": canonical::unescape_uri_encoding(s)})))
}

fn op_header_value(c: &Value) -> R {
    let b = req_hex(c, "hex")?;
    Ok(run_flat(|| json!({"ok_hex": hex::encode(canonical::normalize_header_value(&b))})))
}

fn op_trim_ascii(c: &Value) -> R {
    let b = req_hex(c, "hex")?;
    Ok(run_flat(|| {
        json!({
            "ok_hex": hex::encode(canonical::trim_ascii(&b)),
            "start_hex": hex::encode(canonical::trim_ascii_start(&b)),
            "end_hex": hex::encode(canonical::trim_ascii_end(&b)),
        })
    }))
}

fn op_latin1(c: &Value) -> R {
    let b = req_hex(c, "hex")?;
    Ok(run_flat(|| json!({"ok": canonical::latin1_to_string(&b)})))
}

fn op_bytes_kernels(_: &Value) -> R {
    Ok(run_flat(|| {
        let unreserved: Vec<bool> = (0..=255u8).map(canonical::is_rfc3986_unreserved).collect();
        let upper_hex: Vec<String> =
            (0..=255u8).map(|b| canonical::u8_to_upper_hex(b).iter().map(|c| *c as char).collect()).collect();
        json!({"unreserved": unreserved, "upper_hex": upper_hex})
    }))
}

fn op_parse_iso(c: &Value) -> R {
    let s = req_str(c, "s")?;
    Ok(run_flat(|| match DateTime::<FixedOffset>::parse_from_iso8601(s) {
        Ok(dt) => json!({"ok": {
            "secs": dt.timestamp(),
            "nanos": dt.timestamp_subsec_nanos(),
            "offset": dt.offset().local_minus_utc(),
        }}),
        Err(e) => json!({"err": e.to_string()}),
    }))
}

fn from_str_m<const M: usize>(s: &str) -> Result<(), KeyTooLongError> {
    KSecretKey::<M>::from_str(s).map(|_| ())
}

fn op_from_str(c: &Value) -> R {
    let s = req_str(c, "secret")?;
    let m = u64_or(c, "m", 44)?;
    if ![0, 3, 4, 5, 8, 44, 64].contains(&m) {
        return Err("m must be one of 0,3,4,5,8,44,64".to_string());
    }
    Ok(run_flat(|| {
        let r = match m {
            0 => from_str_m::<0>(s).map(|_| json!({})),
            3 => from_str_m::<3>(s).map(|_| json!({})),
            4 => from_str_m::<4>(s).map(|_| json!({})),
            5 => from_str_m::<5>(s).map(|_| json!({})),
            8 => from_str_m::<8>(s).map(|_| json!({})),
            64 => from_str_m::<64>(s).map(|_| json!({})),
            _ => KSecretKey::<44>::from_str(s).map(|k| json!({"as_ref_hex": hex::encode(k.as_ref())})),
        };
        match r {
            Ok(v) => json!({"ok": v}),
            Err(e) => json!({"err": format!("{e:?}")}),
        }
    }))
}

/// Parse the standard-size secret used by derive/fmt: Ok(Ok(key)) | Ok(Err(panic object)) | Err(bad input).
fn std_secret(secret: &str) -> Result<Result<KSecretKey, Value>, String> {
    if secret.len() > STD_SECRET_CAPACITY {
        return Err(format!("secret does not fit KSecretKey<44> ({} > 40 bytes)", secret.len()));
    }
    match run(|| KSecretKey::<44>::from_str(secret)) {
        Ok(Ok(k)) => Ok(Ok(k)),
        Ok(Err(e)) => Err(format!("secret rejected: {e}")),
        Err(p) => Ok(Err(p)),
    }
}

fn op_derive(c: &Value) -> R {
    let secret = req_str(c, "secret")?;
    let d = date(field(c, "date"))?;
    let region = req_str(c, "region")?;
    let service = req_str(c, "service")?;
    let ks = match std_secret(secret)? {
        Ok(k) => k,
        Err(p) => return Ok(p),
    };
    Ok(run_flat(|| {
        let kdate = ks.to_kdate(d);
        let kregion = kdate.to_kregion(region);
        let kservice = kregion.to_kservice(service);
        let ksigning = kservice.to_ksigning();
        let s_kregion = ks.to_kregion(d, region);
        let s_kservice = ks.to_kservice(d, region, service);
        let s_ksigning = ks.to_ksigning(d, region, service);
        let d_kservice = kdate.to_kservice(region, service);
        let d_ksigning = kdate.to_ksigning(region, service);
        let r_ksigning = kregion.to_ksigning(service);
        let shortcuts_equal = s_kregion == kregion
            && s_kservice == kservice
            && s_ksigning == ksigning
            && d_kservice == kservice
            && d_ksigning == ksigning
            && r_ksigning == ksigning;
        fn h<T: AsRef<[u8; 32]>>(k: &T) -> String {
            hex::encode(k.as_ref())
        }
        json!({
            "kdate": h(&kdate), "kregion": h(&kregion), "kservice": h(&kservice), "ksigning": h(&ksigning),
            "shortcuts_equal": shortcuts_equal,
            "shortcuts": {
                "secret.to_kregion": h(&s_kregion),
                "secret.to_kservice": h(&s_kservice),
                "secret.to_ksigning": h(&s_ksigning),
                "kdate.to_kservice": h(&d_kservice),
                "kdate.to_ksigning": h(&d_ksigning),
                "kregion.to_ksigning": h(&r_ksigning),
            },
        })
    }))
}

fn op_hmac(c: &Value) -> R {
    let key = req_hex(c, "key_hex")?;
    let msg = req_hex(c, "msg_hex")?;
    Ok(run_flat(|| match Hmac::<Sha256>::new_from_slice(&key) {
        Ok(mut mac) => {
            mac.update(&msg);
            json!({"ok_hex": hex::encode(mac.finalize().into_bytes())})
        }
        Err(e) => json!({"bad_input": format!("hmac key rejected: {e}")}),
    }))
}

fn op_sha256(c: &Value) -> R {
    let b = req_hex(c, "hex")?;
    Ok(run_flat(|| json!({"ok_hex": hex::encode(Sha256::digest(&b))})))
}

fn op_error_table(_: &Value) -> R {
    Ok(run_flat(|| {
        // (kind, payload); payload None only for the SignatureDoesNotMatch(None) row.
        let mut specs: Vec<(&str, Option<&str>)> = vec![("ExpiredToken", Some("m")), ("IO", Some("m")), ("InternalServiceError", Some("m"))];
        specs.extend(STRING_KINDS.iter().filter(|k| **k != "ExpiredToken").map(|k| (*k, Some("m"))));
        specs.push(("SignatureDoesNotMatch", Some("m")));
        specs.push(("SignatureDoesNotMatch", None));

        let mut rows = Vec::new();
        let mut from_box_sig = Vec::new();
        for (kind, payload) in &specs {
            let Some(e) = make_sig_err(kind, *payload) else { continue };
            rows.push(json!({
                "kind": sig_kind(&e),
                "payload": payload,
                "code": e.error_code(),
                "status": e.http_status().as_u16(),
                "display": e.to_string(),
                "debug": format!("{e:?}"),
                "has_source": e.source().is_some(),
            }));
            let msg_in = e.to_string();
            let boxed: Box<dyn Error + Send + Sync> = Box::new(e);
            let back = SignatureError::from(boxed);
            from_box_sig.push(json!({
                "kind_in": kind,
                "payload": payload,
                "kind": sig_kind(&back),
                "msg": back.to_string(),
                "same": sig_kind(&back) == *kind && back.to_string() == msg_in,
            }));
        }
        let foreign: Box<dyn Error + Send + Sync> = Box::new(ForeignError("m".to_string()));
        let back = SignatureError::from(foreign);
        json!({
            "rows": rows,
            "from_box_sig": from_box_sig,
            "from_box_foreign": {
                "kind": sig_kind(&back), "msg": back.to_string(), "code": back.error_code(),
                "status": back.http_status().as_u16(),
            },
        })
    }))
}

fn op_requirements(c: &Value) -> R {
    let spec = parse_reqs(Some(field(c, "requirements").ok_or("missing \"requirements\"")?))?;
    Ok(run_flat(|| {
        let store = spec.store();
        let reqs = spec.make(&store);
        json!({
            "always": cow_list(reqs.always_present()),
            "if_in": cow_list(reqs.if_in_request()),
            "prefixes": cow_list(reqs.prefixes()),
        })
    }))
}

fn op_fmt(c: &Value) -> R {
    let secret = req_str(c, "secret")?;
    let d = date(field(c, "date"))?;
    let region = req_str(c, "region")?;
    let service = req_str(c, "service")?;
    // records emitted while the keys are built and rendered are observables too ("log_level", default off; returned as "logs")
    set_log_level(str_or(c, "log_level", "off")?)?;
    let _ = drain_logs();
    let ks = match std_secret(secret)? {
        Ok(k) => k,
        Err(p) => return Ok(p),
    };
    let out = run_flat(|| {
        let mut items: Vec<Value> = Vec::new();
        let mut add = |what: &str, text: String| items.push(json!({"what": what, "text": text}));
        // alternate renderings ({:#?} / {:#}) of the same values: "<what>#"

        let kdate = ks.to_kdate(d);
        let kregion = kdate.to_kregion(region);
        let kservice = kregion.to_kservice(service);
        let ksigning = kservice.to_ksigning();
        add("KSecretKey Debug", format!("{ks:?}"));
        add("KSecretKey Debug#", format!("{ks:#?}"));
        add("KSecretKey Display", format!("{ks}"));
        add("KSecretKey Display#", format!("{ks:#}"));
        add("KDateKey Debug", format!("{kdate:?}"));
        add("KDateKey Debug#", format!("{kdate:#?}"));
        add("KDateKey Display", format!("{kdate}"));
        add("KDateKey Display#", format!("{kdate:#}"));
        add("KRegionKey Debug", format!("{kregion:?}"));
        add("KRegionKey Debug#", format!("{kregion:#?}"));
        add("KRegionKey Display", format!("{kregion}"));
        add("KRegionKey Display#", format!("{kregion:#}"));
        add("KServiceKey Debug", format!("{kservice:?}"));
        add("KServiceKey Debug#", format!("{kservice:#?}"));
        add("KServiceKey Display", format!("{kservice}"));
        add("KServiceKey Display#", format!("{kservice:#}"));
        add("KSigningKey Debug", format!("{ksigning:?}"));
        add("KSigningKey Debug#", format!("{ksigning:#?}"));
        add("KSigningKey Display", format!("{ksigning}"));

        add("KSigningKey Display#", format!("{ksigning:#}"));

        match GetSigningKeyRequest::builder()
            .access_key("AKID")
            .session_token(Some("tok".to_string()))
            .request_date(d)
            .region(region)
            .service(service)
            .build()
        {
            Ok(req) => {
                add("GetSigningKeyRequest Debug", format!("{req:?}"));
                add("GetSigningKeyRequest Debug#", format!("{req:#?}"));
            }
            Err(e) => add("GetSigningKeyRequest build error", e.to_string()),
        }

        let principal = match User::new("aws", "123456789012", "/", "test") {
            Ok(u) => Principal::from(vec![u.into()]),
            Err(_) => Principal::new(vec![]),
        };
        let mut builder = GetSigningKeyResponse::builder();
        builder.principal(principal).signing_key(ksigning);
        // GetSigningKeyResponseBuilder does not implement Debug (derive_builder only derives Clone
        // for it), so there is no rendering of the builder.
        match builder.build() {
            Ok(resp) => {
                add("GetSigningKeyResponse Debug", format!("{resp:?}"));
                add("GetSigningKeyResponse Debug#", format!("{resp:#?}"));
                let auth_resp = SigV4AuthenticatorResponse::from(resp);
                add("SigV4AuthenticatorResponse Debug", format!("{auth_resp:?}"));
            add("SigV4AuthenticatorResponse Debug#", format!("{auth_resp:#?}"));
            }
            Err(e) => add("GetSigningKeyResponse build error", e.to_string()),
        }

        let mut ab = SigV4Authenticator::builder();
        ab.canonical_request_sha256([0u8; 32])
            .credential(format!("AKID/{}/{region}/{service}/aws4_request", d.format("%Y%m%d")))
            .session_token("tok")
            .signature("sig".to_string())
            .request_timestamp(DateTime::<Utc>::UNIX_EPOCH);
        add("SigV4AuthenticatorBuilder Debug", format!("{ab:?}"));
        add("SigV4AuthenticatorBuilder Debug#", format!("{ab:#?}"));
        match ab.build() {
            Ok(a) => {
                add("SigV4Authenticator Debug", format!("{a:?}"));
                add("SigV4Authenticator Debug#", format!("{a:#?}"));
            }
            Err(e) => add("SigV4Authenticator build error", e.to_string()),
        }

        // KeyTooLongError is obtained the way a caller obtains it (never constructed here, so that a change of its shape
        // cannot break this build): from_str on the given secret + 9 more bytes.
        let too_long = format!("{secret}+8Zq3LtUx");
        match KSecretKey::<44>::from_str(&too_long) {
            Err(e) => {
                add("KeyTooLongError Debug", format!("{e:?}"));
                add("KeyTooLongError Debug#", format!("{e:#?}"));
                add("KeyTooLongError Display", format!("{e}"));
                add("KeyTooLongError Display#", format!("{e:#}"));
            }
            Ok(_) => add("from_str(too long) unexpectedly accepted", String::new()),
        }
        drop(add);
        json!({"items": items})
    });
    let logs = drain_logs();
    log::set_max_level(log::LevelFilter::Off);
    Ok(match out {
        Value::Object(mut o) => {
            o.insert("logs".to_string(), logs);
            Value::Object(o)
        }
        other => other,
    })
}

// ------------------------------------------------------------------------------------------------
// canonical
// ------------------------------------------------------------------------------------------------

fn authenticator_json(a: &SigV4Authenticator) -> Value {
    let sts = if a.credential().contains('/') {
        run(|| hex::encode(a.get_string_to_sign())).map(Value::String).unwrap_or_else(|p| p)
    } else {
        Value::Null // get_string_to_sign is documented to panic without a '/'
    };
    json!({
        "credential": a.credential(),
        "signature": a.signature(),
        "session_token": a.session_token(),
        "timestamp": instant_json(a.request_timestamp()),
        "canonical_request_sha256": hex::encode(a.canonical_request_sha256()),
        "string_to_sign_hex": sts,
        "debug": format!("{a:?}"),
    })
}

fn op_canonical(c: &Value) -> R {
    let spec = parse_request(c)?;
    let opts = options(c)?;
    let signed_headers: Option<Vec<String>> = match field(c, "signed_headers") {
        None => None,
        Some(v) => Some(str_list(Some(v), "signed_headers")?.into_iter().map(str::to_string).collect()),
    };
    let reqs_spec = match field(c, "requirements") {
        None => None,
        Some(v) => Some(parse_reqs(Some(v))?),
    };
    Ok(run_flat(|| {
        let (parts, body) = spec.build(Bytes::from(spec.body.clone())).into_parts();
        let (cr, parts, body) = match CanonicalRequest::from_request_parts(parts, body, opts) {
            Ok(t) => t,
            Err(e) => return json!({"err": sig_err(&e)}),
        };
        let mut ok = json!({
            "method": cr.request_method(),
            "canonical_path": cr.canonical_path(),
            "canonical_query": cr.canonical_query_string(),
            "query_parameters": sorted_string_map(cr.query_parameters()),
            "headers": sorted_bytes_map(cr.headers()),
            "body_sha256": cr.body_sha256(),
            "returned_uri": parts.uri.to_string(),
            "returned_body_hex": hex::encode(&body),
            "debug": run(|| format!("{cr:?}")).map(Value::String).unwrap_or_else(|p| p),
        });
        if let Some(sh) = &signed_headers {
            match run(|| (cr.canonical_request(sh), cr.canonical_request_sha256(sh))) {
                Ok((creq, sha)) => {
                    ok["canonical_request_hex"] = json!(hex::encode(creq));
                    ok["canonical_request_sha256"] = json!(hex::encode(sha));
                }
                Err(p) => {
                    ok["canonical_request_hex"] = p.clone();
                    ok["canonical_request_sha256"] = p;
                }
            }
        }
        if let Some(rs) = &reqs_spec {
            let store = rs.store();
            ok["auth_params"] = run_flat(|| {
                let reqs = rs.make(&store);
                match cr.get_auth_parameters(&reqs) {
                    Ok(ap) => json!({"ok": {
                        "credential": ap.builder.get_credential(),
                        "signature": ap.builder.get_signature(),
                        "session_token": ap.builder.get_session_token(),
                        "signed_headers": ap.signed_headers,
                        "timestamp_str": ap.timestamp_str,
                        "debug": format!("{ap:?}"),
                    }}),
                    Err(e) => json!({"err": sig_err(&e)}),
                }
            });
            ok["authenticator"] = run_flat(|| {
                let reqs = rs.make(&store);
                match cr.get_authenticator(&reqs) {
                    Ok(a) => json!({"ok": authenticator_json(&a)}),
                    Err(e) => json!({"err": sig_err(&e)}),
                }
            });
        }
        json!({"ok": ok})
    }))
}

// ------------------------------------------------------------------------------------------------
// validate
// ------------------------------------------------------------------------------------------------

fn auth_response_json(r: &SigV4AuthenticatorResponse) -> Value {
    json!({"principal": format!("{:?}", r.principal()), "session_data": format!("{:?}", r.session_data())})
}

#[allow(clippy::too_many_arguments)]
fn drive_validate<B: IntoRequestBytes>(
    req: Request<B>,
    region: &str,
    service: &str,
    provider: &mut Provider,
    t: DateTime<Utc>,
    reqs: &Reqs<'_>,
    opts: SignatureOptions,
    polls: &Cell<u64>,
) -> Option<Value> {
    let r = block_on(sigv4_validate_request(req, region, service, provider, t, reqs, opts), polls)?;
    Some(match r {
        Ok((parts, body, resp)) => {
            let mut ok = auth_response_json(&resp);
            ok["method"] = json!(parts.method.as_str());
            ok["uri"] = json!(parts.uri.to_string());
            ok["version"] = json!(version_str(parts.version));
            ok["headers"] = header_map_json(&parts.headers);
            ok["body_hex"] = json!(hex::encode(&body));
            json!({"ok": ok})
        }
        Err(e) => json!({"err": box_err(e)}),
    })
}

struct ValidateArgs<'a> {
    spec: ReqSpec,
    region: &'a str,
    service: &'a str,
    t: DateTime<Utc>,
    reqs: ReqsSpec<'a>,
    opts: SignatureOptions,
    script: Arc<Script>,
}

/// One complete validation on a fresh request and a fresh provider.
/// Returns (the part compared for `repeat_equal`, logs) or Err(bad input).
fn validate_once(a: &ValidateArgs<'_>) -> Result<(Value, Value), String> {
    let _ = drain_logs();
    let log: SharedLog = Arc::default();
    let polls = Cell::new(0u64);
    let outcome = run(|| {
        let store = a.reqs.store();
        let reqs = a.reqs.make(&store);
        let mut provider = Provider::new(&a.script, &log);
        let (p, s) = (&mut provider, &a.spec);
        match s.body_kind {
            BodyKind::Bytes => {
                drive_validate(s.build(Bytes::from(s.body.clone())), a.region, a.service, p, a.t, &reqs, a.opts, &polls)
            }
            BodyKind::Vec => drive_validate(s.build(s.body.clone()), a.region, a.service, p, a.t, &reqs, a.opts, &polls),
            BodyKind::Unit => drive_validate(s.build(()), a.region, a.service, p, a.t, &reqs, a.opts, &polls),
        }
    });
    let logs = drain_logs();
    let result = match outcome {
        Ok(Some(v)) => v,
        Ok(None) => return Err(NEVER_READY.to_string()),
        Err(p) => p,
    };
    Ok((json!({"result": result, "provider": provider_log_json(&log), "polls": polls.get()}), logs))
}

fn op_validate(c: &Value) -> R {
    let args = ValidateArgs {
        spec: parse_request(c)?,
        region: req_str(c, "region")?,
        service: req_str(c, "service")?,
        t: instant(field(c, "server_time"), "server_time")?,
        reqs: parse_reqs(field(c, "requirements"))?,
        opts: options(c)?,
        script: Arc::new(parse_provider(c)?),
    };
    let repeat = u64_or(c, "repeat", 1)?;
    if repeat == 0 || repeat > 100_000 {
        return Err("repeat must be in 1..=100000".to_string());
    }
    set_log_level(str_or(c, "log_level", "off")?)?;

    let (mut reply, logs) = validate_once(&args)?;
    let mut repeat_equal = true;
    for _ in 1..repeat {
        let (again, _) = validate_once(&args)?;
        repeat_equal &= again == reply;
    }
    reply["logs"] = logs;
    reply["repeat_equal"] = json!(repeat_equal);
    Ok(reply)
}

// ------------------------------------------------------------------------------------------------
// authenticator
// ------------------------------------------------------------------------------------------------

fn op_authenticator(c: &Value) -> R {
    let sha = req_hex(c, "canonical_request_sha256")?;
    let sha: [u8; 32] = sha.try_into().map_err(|_| "canonical_request_sha256 must be 32 bytes".to_string())?;
    let credential = req_str(c, "credential")?;
    let session_token = opt_str(c, "session_token")?;
    let signature = req_str(c, "signature")?;
    let timestamp = instant(field(c, "timestamp"), "timestamp")?;
    let call = req_str(c, "call")?;
    if !matches!(call, "prevalidate" | "validate_signature" | "string_to_sign" | "debug") {
        return Err(format!("unknown call {call:?}"));
    }
    let needs_ctx = matches!(call, "prevalidate" | "validate_signature");
    let region = if needs_ctx { req_str(c, "region")? } else { str_or(c, "region", "")? };
    let service = if needs_ctx { req_str(c, "service")? } else { str_or(c, "service", "")? };
    let server_time = if needs_ctx {
        instant(field(c, "server_time"), "server_time")?
    } else {
        DateTime::<Utc>::UNIX_EPOCH
    };
    let mm_secs = i64_or(c, "mismatch_secs", 900)?;
    let mm_nanos = u32::try_from(u64_or(c, "mismatch_nanos", 0)?).map_err(|_| "mismatch_nanos does not fit u32")?;
    let mismatch = TimeDelta::new(mm_secs, mm_nanos).ok_or("mismatch is out of TimeDelta's range")?;
    let script = if call == "validate_signature" { Some(Arc::new(parse_provider(c)?)) } else { None };
    set_log_level(str_or(c, "log_level", "off")?)?;
    let _ = drain_logs();

    let log: SharedLog = Arc::default();
    let polls = Cell::new(0u64);
    let outcome = run(|| -> Result<Option<Value>, String> {
        let mut b = SigV4Authenticator::builder();
        b.canonical_request_sha256(sha)
            .credential(credential.to_string())
            .signature(signature.to_string())
            .request_timestamp(timestamp);
        if let Some(tok) = session_token {
            b.session_token(tok);
        }
        let auth = b.build().map_err(|e| format!("SigV4AuthenticatorBuilder::build failed: {e}"))?;
        // optional history on the SAME authenticator object: earlier prevalidate calls (with their own arguments) whose outcome must not
        // influence the main call; "main_on_clone": true runs the main call on a clone taken after the warm-up
        let mut warm: Vec<Value> = Vec::new();
        if let Some(Value::Array(ws)) = field(c, "warmup") {
            for w in ws {
                let wr = str_or(w, "region", region)?;
                let wsv = str_or(w, "service", service)?;
                let wt = instant(field(w, "server_time"), "warmup.server_time")?;
                warm.push(match auth.prevalidate(wr, wsv, wt, mismatch) {
                    Ok(()) => json!({"ok": null}),
                    Err(e) => json!({"err": sig_err(&e)}),
                });
            }
        }
        let cloned;
        let auth = if matches!(field(c, "main_on_clone"), Some(Value::Bool(true))) {
            cloned = auth.clone();
            &cloned
        } else {
            &auth
        };
        WARMUP.with(|w| *w.borrow_mut() = warm);
        Ok(Some(match call {
            "prevalidate" => match auth.prevalidate(region, service, server_time, mismatch) {
                Ok(()) => json!({"ok": null}),
                Err(e) => json!({"err": sig_err(&e)}),
            },
            "validate_signature" => {
                let Some(script) = &script else { return Err("missing provider".to_string()) };
                let mut provider = Provider::new(script, &log);
                let fut = auth.validate_signature(region, service, server_time, mismatch, &mut provider);
                match block_on(fut, &polls) {
                    None => return Ok(None),
                    Some(Ok(resp)) => json!({"ok": auth_response_json(&resp)}),
                    Some(Err(e)) => json!({"err": sig_err(&e)}),
                }
            }
            "string_to_sign" => json!({"ok": {"hex": hex::encode(auth.get_string_to_sign())}}),
            _ => json!({"ok": {"debug": format!("{auth:?}")}}),
        }))
    });
    let logs = drain_logs();
    let result = match outcome {
        Ok(Ok(Some(v))) => v,
        Ok(Ok(None)) => return Err(NEVER_READY.to_string()),
        Ok(Err(bad)) => return Err(bad),
        Err(p) => p,
    };
    let warm = WARMUP.with(|w| std::mem::take(&mut *w.borrow_mut()));
    Ok(json!({"result": result, "warmup_results": warm, "provider": provider_log_json(&log), "polls": polls.get(), "logs": logs}))
}

thread_local! {
    static WARMUP: std::cell::RefCell<Vec<Value>> = const { std::cell::RefCell::new(Vec::new()) };
}

// ------------------------------------------------------------------------------------------------
// Byte-wise, early-exit memcmp / bcmp
// ------------------------------------------------------------------------------------------------
//
// These two definitions replace libc's (vectorised, 16/32 bytes at a time) routines for the whole
// executable: a strong definition in the executable wins over the shared libc at link time, so every
// `memcmp` / `bcmp` reference of the statically linked Rust code (this crate, the crate under test, its
// dependencies, std) binds to them. Purpose: if the code under test compares secrets with `==` (which
// rustc/LLVM lower to a `bcmp` call) the number of executed instructions depends on the position of
// the first differing byte, and `ct_trace` sees it. `read_volatile` keeps LLVM from vectorising the
// loops or turning them back into a libc call. The counters are constant work per call.

static MEMCMP_CALLS: AtomicU64 = AtomicU64::new(0);
static BCMP_CALLS: AtomicU64 = AtomicU64::new(0);
static CMP_BYTES: AtomicU64 = AtomicU64::new(0);

/// # Safety
/// `a` and `b` must be valid for reads of `n` bytes (the C contract of `memcmp`).
#[no_mangle]
#[inline(never)]
pub unsafe extern "C" fn memcmp(a: *const u8, b: *const u8, n: usize) -> i32 {
    MEMCMP_CALLS.fetch_add(1, Relaxed);
    let mut i = 0usize;
    let mut r = 0i32;
    while i < n {
        let x = std::ptr::read_volatile(a.add(i));
        let y = std::ptr::read_volatile(b.add(i));
        i += 1;
        if x != y {
            r = i32::from(x) - i32::from(y);
            break;
        }
    }
    CMP_BYTES.fetch_add(i as u64, Relaxed);
    r
}

/// # Safety
/// `a` and `b` must be valid for reads of `n` bytes (the C contract of `bcmp`).
#[no_mangle]
#[inline(never)]
pub unsafe extern "C" fn bcmp(a: *const u8, b: *const u8, n: usize) -> i32 {
    BCMP_CALLS.fetch_add(1, Relaxed);
    let mut i = 0usize;
    let mut r = 0i32;
    while i < n {
        let x = std::ptr::read_volatile(a.add(i));
        let y = std::ptr::read_volatile(b.add(i));
        i += 1;
        if x != y {
            r = 1;
            break;
        }
    }
    CMP_BYTES.fetch_add(i as u64, Relaxed);
    r
}

fn cmp_counters() -> (u64, u64, u64) {
    (MEMCMP_CALLS.load(Relaxed), BCMP_CALLS.load(Relaxed), CMP_BYTES.load(Relaxed))
}

#[inline(never)]
fn probe_slices_eq(a: &[u8], b: &[u8]) -> bool {
    std::hint::black_box(a) == std::hint::black_box(b)
}

#[inline(never)]
fn probe_slices_cmp(a: &[u8], b: &[u8]) -> std::cmp::Ordering {
    std::hint::black_box(a).cmp(std::hint::black_box(b))
}

/// `{"op":"memcmp_probe","len":64,"pos":null|k}`: which of the two overrides do `==` and `cmp` on byte
/// slices end up in, and how many bytes do they look at when the slices first differ at index `pos`.
fn op_memcmp_probe(c: &Value) -> R {
    let len = u64_or(c, "len", 64)?;
    if len > 1 << 20 {
        return Err("len must be at most 1048576".to_string());
    }
    let len = len as usize;
    let pos = match field(c, "pos") {
        None => None,
        Some(v) => match v.as_u64() {
            Some(p) if (p as usize) < len => Some(p as usize),
            _ => return Err("pos must be null or an index below len".to_string()),
        },
    };
    let a: Vec<u8> = (0..len).map(|i| b'a' + (i % 23) as u8).collect();
    let mut b = a.clone();
    if let Some(p) = pos {
        b[p] ^= 0x55;
    }
    let delta = |before: (u64, u64, u64), after: (u64, u64, u64)| {
        json!({"memcmp_calls": after.0 - before.0, "bcmp_calls": after.1 - before.1, "bytes_compared": after.2 - before.2})
    };
    let c0 = cmp_counters();
    let equal = probe_slices_eq(&a, &b);
    let c1 = cmp_counters();
    let ordering = probe_slices_cmp(&a, &b);
    let c2 = cmp_counters();
    let mut eq = delta(c0, c1);
    eq["result"] = json!(equal);
    let mut cmp = delta(c1, c2);
    cmp["result"] = json!(format!("{ordering:?}"));
    Ok(json!({"len": len, "pos": pos, "eq": eq, "cmp": cmp}))
}

// ------------------------------------------------------------------------------------------------
// ct_trace: instruction traces of validate_signature under ptrace single-stepping (Linux x86_64)
// ------------------------------------------------------------------------------------------------

const CT_MAX_STEPS: u64 = 5_000_000; // single-steps per child (before + inside the measured region)
const CT_MAX_RUNS: usize = 1024; // presented signatures per command
const CT_CHILD_DEADLINE_SECS: i64 = 300; // wall-clock limit for tracing one child

static CT_MARK: AtomicU64 = AtomicU64::new(0);

/// Entering this function for the first time opens the measured region, entering it for the second
/// time closes it. The tracer recognises it by address (RIP == address of `ct_marker`).
#[no_mangle]
#[inline(never)]
pub extern "C" fn ct_marker(x: u64) -> u64 {
    // SAFETY: plain volatile store to a static; keeps the call from being optimised away.
    unsafe { std::ptr::write_volatile(CT_MARK.as_ptr(), x) };
    x
}

struct CtArgs<'a> {
    sha: [u8; 32],
    credential: &'a str,
    session_token: Option<&'a str>,
    timestamp: DateTime<Utc>,
    region: &'a str,
    service: &'a str,
    server_time: DateTime<Utc>,
    mismatch: TimeDelta,
    script: Arc<Script>,
}

impl CtArgs<'_> {
    fn authenticator(&self, signature: &str) -> Result<SigV4Authenticator, String> {
        let mut b = SigV4Authenticator::builder();
        b.canonical_request_sha256(self.sha)
            .credential(self.credential.to_string())
            .signature(signature.to_string())
            .request_timestamp(self.timestamp);
        if let Some(tok) = self.session_token {
            b.session_token(tok);
        }
        b.build().map_err(|e| format!("SigV4AuthenticatorBuilder::build failed: {e}"))
    }
}

/// Child side: everything up to `raise(SIGSTOP)` is setup, the measured region is bracketed by the two
/// `ct_marker` calls. Returns the message for the parent.
fn ct_child_body(a: &CtArgs<'_>, signature: &str) -> Value {
    let log: SharedLog = Arc::default();
    let polls = Cell::new(0u64);
    let auth = match a.authenticator(signature) {
        Ok(auth) => auth,
        Err(e) => return json!({"error": e}),
    };
    let mut provider = Provider::new(&a.script, &log);
    // Called through an opaque pointer: the optimiser cannot move work across the marker calls.
    let marker: extern "C" fn(u64) -> u64 = std::hint::black_box(ct_marker);
    let fut = auth.validate_signature(a.region, a.service, a.server_time, a.mismatch, &mut provider);
    let before = cmp_counters();
    // SAFETY: raise has no memory-safety preconditions. The tracer resumes us by single-stepping.
    unsafe { libc::raise(libc::SIGSTOP) };
    marker(1);
    let r = run(|| block_on(fut, &polls));
    marker(2);
    let after = cmp_counters();
    let (outcome, msg) = match &r {
        Ok(Some(Ok(_))) => ("ok".to_string(), Value::Null),
        Ok(Some(Err(e))) => (sig_kind(e).to_string(), json!(e.to_string())),
        Ok(None) => (NEVER_READY.to_string(), Value::Null),
        Err(p) => ("panic".to_string(), json!(format!("{} at {}", p["panic"], p["location"]))),
    };
    json!({
        "outcome": outcome, "msg": msg, "polls": polls.get(),
        "memcmp_calls": after.0 - before.0, "bcmp_calls": after.1 - before.1, "cmp_bytes": after.2 - before.2,
    })
}

/// Runs in the forked child and never returns into the serving loop.
fn ct_child_main(a: &CtArgs<'_>, signature: &str, wfd: libc::c_int) -> ! {
    // SAFETY: plain syscalls on our own process; `_exit` skips atexit handlers and stdio flushing, so the
    // child never writes to the (inherited) stdout of the parent.
    unsafe {
        libc::prctl(libc::PR_SET_PDEATHSIG, libc::SIGKILL as libc::c_ulong);
        let null = std::ptr::null_mut::<libc::c_void>();
        let msg = if libc::ptrace(libc::PTRACE_TRACEME, 0, null, null) != 0 {
            json!({"error": format!("PTRACE_TRACEME failed: {}", io::Error::last_os_error())})
        } else {
            run(|| ct_child_body(a, signature))
                .unwrap_or_else(|p| json!({"error": format!("child setup panicked: {p}")}))
        };
        let text = msg.to_string();
        let mut off = 0usize;
        while off < text.len() {
            let n = libc::write(wfd, text.as_ptr().add(off).cast(), text.len() - off);
            if n <= 0 {
                break;
            }
            off += n as usize;
        }
        libc::_exit(0)
    }
}

enum WaitEv {
    Stopped(libc::c_int),
    Exited(libc::c_int),
    Signaled(libc::c_int),
}

extern "C" fn ct_on_alarm(_: libc::c_int) {}

/// waitpid that gives up at `deadline` (a repeating ITIMER_REAL with a no-op, non-restarting handler
/// interrupts the blocking call).
fn ct_wait(pid: libc::pid_t, deadline: std::time::Instant) -> Result<WaitEv, String> {
    loop {
        let mut st: libc::c_int = 0;
        // SAFETY: `st` is a valid out pointer.
        let r = unsafe { libc::waitpid(pid, &mut st, libc::__WALL) };
        if r == pid {
            return Ok(if libc::WIFSTOPPED(st) {
                WaitEv::Stopped(libc::WSTOPSIG(st))
            } else if libc::WIFEXITED(st) {
                WaitEv::Exited(libc::WEXITSTATUS(st))
            } else if libc::WIFSIGNALED(st) {
                WaitEv::Signaled(libc::WTERMSIG(st))
            } else {
                continue;
            });
        }
        let e = io::Error::last_os_error();
        if e.raw_os_error() == Some(libc::EINTR) {
            if std::time::Instant::now() >= deadline {
                return Err(format!("timeout: child not finished after {CT_CHILD_DEADLINE_SECS}s"));
            }
            continue;
        }
        return Err(format!("waitpid failed: {e}"));
    }
}

fn ct_resume(request: libc::c_uint, pid: libc::pid_t, sig: libc::c_int) -> Result<(), String> {
    // SAFETY: ptrace on a child that is our tracee and currently stopped; addr is ignored.
    let r = unsafe { libc::ptrace(request, pid, std::ptr::null_mut::<libc::c_void>(), sig as usize as *mut libc::c_void) };
    if r == -1 {
        return Err(format!("ptrace resume request {request} failed: {}", io::Error::last_os_error()));
    }
    Ok(())
}

fn ct_is_stop_signal(sig: libc::c_int) -> bool {
    matches!(sig, libc::SIGSTOP | libc::SIGTSTP | libc::SIGTTIN | libc::SIGTTOU)
}

/// Set (secs > 0) or clear the repeating real-time timer that bounds a blocking waitpid.
fn ct_set_timer(secs: i64) {
    let tv = |s: i64| libc::timeval {
        tv_sec: s,
        tv_usec: 0,
    };
    let it = libc::itimerval {
        it_interval: tv(if secs > 0 { 1 } else { 0 }),
        it_value: tv(secs),
    };
    // SAFETY: valid pointer to an initialised itimerval; the old value is not requested.
    unsafe { libc::setitimer(libc::ITIMER_REAL, &it, std::ptr::null_mut()) };
}

/// Trace one child: wait for its SIGSTOP, single-step to the first `ct_marker` entry, record the address
/// of every instruction executed from there up to (excluding) the second `ct_marker` entry into `seq`,
/// then let the child run to its exit. Ok(single-steps spent before the region, exit description).
/// On Err the child may still exist (the caller kills and reaps it).
fn ct_trace_child(pid: libc::pid_t, marker: u64, max_steps: u64, seq: &mut Vec<u64>) -> Result<u64, String> {
    let deadline = std::time::Instant::now() + std::time::Duration::from_secs(CT_CHILD_DEADLINE_SECS as u64);
    let mut spurious = 0;
    loop {
        match ct_wait(pid, deadline)? {
            WaitEv::Stopped(libc::SIGSTOP) => break,
            WaitEv::Stopped(sig) => {
                spurious += 1;
                if spurious > 64 {
                    return Err(format!("child keeps stopping with signal {sig} during setup"));
                }
                ct_resume(libc::PTRACE_CONT, pid, if ct_is_stop_signal(sig) { 0 } else { sig })?;
            }
            WaitEv::Exited(code) => return Err(format!("child exited with status {code} before the measured region")),
            WaitEv::Signaled(sig) => return Err(format!("child killed by signal {sig} before the measured region")),
        }
    }
    // SAFETY: the tracee is in a ptrace stop. Best effort (kills the tracee should this process die).
    unsafe {
        libc::ptrace(
            libc::PTRACE_SETOPTIONS,
            pid,
            std::ptr::null_mut::<libc::c_void>(),
            libc::PTRACE_O_EXITKILL as usize as *mut libc::c_void,
        );
    }

    let mut inject: libc::c_int = 0;
    let mut total: u64 = 0;
    let mut pre: u64 = 0;
    let mut inside = false;
    loop {
        if total >= max_steps {
            return Err(format!(
                "step cap of {max_steps} single-steps exceeded ({} of them inside the measured region)",
                seq.len()
            ));
        }
        ct_resume(libc::PTRACE_SINGLESTEP, pid, inject)?;
        inject = 0;
        let place = if inside { "inside" } else { "before" };
        match ct_wait(pid, deadline)? {
            WaitEv::Stopped(libc::SIGTRAP) => (),
            WaitEv::Stopped(sig) => {
                // Signal-delivery stop, no instruction retired: hand the signal to the child with the next
                // step (stop signals are swallowed, they would park the tracee in a group-stop).
                if !ct_is_stop_signal(sig) {
                    inject = sig;
                }
                continue;
            }
            WaitEv::Exited(code) => return Err(format!("child exited with status {code} {place} the measured region")),
            WaitEv::Signaled(sig) => return Err(format!("child killed by signal {sig} {place} the measured region")),
        }
        total += 1;
        // SAFETY: all-zero is a valid user_regs_struct; GETREGS fills it.
        let mut regs: libc::user_regs_struct = unsafe { std::mem::zeroed() };
        // SAFETY: the tracee is stopped and `regs` is a valid out pointer.
        let r = unsafe {
            libc::ptrace(
                libc::PTRACE_GETREGS,
                pid,
                std::ptr::null_mut::<libc::c_void>(),
                &mut regs as *mut libc::user_regs_struct as *mut libc::c_void,
            )
        };
        if r == -1 {
            return Err(format!("PTRACE_GETREGS failed: {}", io::Error::last_os_error()));
        }
        let rip = regs.rip;
        if !inside {
            if rip == marker {
                inside = true;
                pre = total;
                seq.push(rip);
            }
        } else if rip == marker {
            break;
        } else {
            seq.push(rip);
        }
    }

    // Outside the region again: let the child report and exit at full speed.
    ct_resume(libc::PTRACE_CONT, pid, 0)?;
    for _ in 0..64 {
        match ct_wait(pid, deadline)? {
            WaitEv::Exited(_) | WaitEv::Signaled(_) => return Ok(pre),
            WaitEv::Stopped(sig) => {
                ct_resume(libc::PTRACE_CONT, pid, if ct_is_stop_signal(sig) || sig == libc::SIGTRAP { 0 } else { sig })?
            }
        }
    }
    Err("child keeps stopping after the measured region".to_string())
}

/// Kill and reap a child whatever state it is in.
fn ct_kill(pid: libc::pid_t) {
    // SAFETY: plain syscalls; `pid` is a child of ours that has not been reaped yet.
    unsafe {
        libc::kill(pid, libc::SIGKILL);
        let mut st: libc::c_int = 0;
        for _ in 0..1000 {
            let r = libc::waitpid(pid, &mut st, libc::__WALL);
            if r == -1 && io::Error::last_os_error().raw_os_error() == Some(libc::EINTR) {
                continue;
            }
            if r == -1 || libc::WIFEXITED(st) || libc::WIFSIGNALED(st) {
                break;
            }
        }
    }
}

/// Owns the forked children, the pipe, the SIGALRM disposition and the CPU pinning; Drop leaves nothing
/// behind.
struct CtChildren {
    pids: Vec<(libc::pid_t, bool)>, // (pid, already reaped)
    rfd: libc::c_int,
    wfd: libc::c_int,
    old_alarm: Option<libc::sigaction>,
    old_affinity: Option<libc::cpu_set_t>,
}

/// Pin this process (and the children forked afterwards) to the CPU it is running on: tracer and tracee
/// alternate strictly, and keeping them on one CPU halves the cost of a single-step. Best effort.
fn ct_pin_to_current_cpu() -> Option<libc::cpu_set_t> {
    // SAFETY: cpu_set_t is plain data (all-zero is valid); the calls get valid pointers and sizes.
    unsafe {
        let mut old: libc::cpu_set_t = std::mem::zeroed();
        if libc::sched_getaffinity(0, std::mem::size_of::<libc::cpu_set_t>(), &mut old) != 0 {
            return None;
        }
        let cpu = usize::try_from(libc::sched_getcpu()).ok()?;
        let mut one: libc::cpu_set_t = std::mem::zeroed();
        libc::CPU_SET(cpu, &mut one);
        if libc::sched_setaffinity(0, std::mem::size_of::<libc::cpu_set_t>(), &one) != 0 {
            return None;
        }
        Some(old)
    }
}

impl Drop for CtChildren {
    fn drop(&mut self) {
        ct_set_timer(0);
        for (pid, reaped) in &self.pids {
            if !*reaped {
                ct_kill(*pid);
            }
        }
        // SAFETY: closing fds we own; restoring a disposition previously returned by sigaction.
        unsafe {
            if let Some(old) = &self.old_alarm {
                libc::sigaction(libc::SIGALRM, old, std::ptr::null_mut());
            }
            if let Some(old) = &self.old_affinity {
                libc::sched_setaffinity(0, std::mem::size_of::<libc::cpu_set_t>(), old);
            }
            for fd in [self.rfd, self.wfd] {
                if fd >= 0 {
                    libc::close(fd);
                }
            }
        }
    }
}

/// Drain whatever is in the (non-blocking) report pipe.
fn ct_read_report(rfd: libc::c_int) -> Vec<u8> {
    let mut out = Vec::new();
    let mut buf = [0u8; 4096];
    while out.len() < (1 << 20) {
        // SAFETY: `buf` is valid for writes of its length.
        let n = unsafe { libc::read(rfd, buf.as_mut_ptr().cast(), buf.len()) };
        if n > 0 {
            out.extend_from_slice(&buf[..n as usize]);
        } else if n == -1 && io::Error::last_os_error().raw_os_error() == Some(libc::EINTR) {
            continue;
        } else {
            break; // EOF, EAGAIN (empty) or an error
        }
    }
    out
}

struct Locate {
    addr: usize,
    out: Option<String>,
}

unsafe extern "C" fn ct_locate_cb(info: *mut libc::dl_phdr_info, _size: libc::size_t, data: *mut libc::c_void) -> libc::c_int {
    let q = &mut *(data as *mut Locate);
    let info = &*info;
    if info.dlpi_phdr.is_null() {
        return 0;
    }
    for i in 0..info.dlpi_phnum as usize {
        let ph = &*info.dlpi_phdr.add(i);
        if ph.p_type != libc::PT_LOAD {
            continue;
        }
        let start = (info.dlpi_addr as usize).wrapping_add(ph.p_vaddr as usize);
        if q.addr >= start && q.addr - start < ph.p_memsz as usize {
            let name = if info.dlpi_name.is_null() {
                String::new()
            } else {
                std::ffi::CStr::from_ptr(info.dlpi_name).to_string_lossy().into_owned()
            };
            let short = name.rsplit('/').next().unwrap_or("");
            let short = if short.is_empty() { "exe" } else { short };
            q.out = Some(format!("{short}+{:#x}", q.addr.wrapping_sub(info.dlpi_addr as usize)));
            return 1;
        }
    }
    0
}

/// "object+0xoffset" (offset = link-time virtual address, what `nm`/`objdump -d` show; the main
/// executable is called "exe"). Parent and forked children share one address space layout.
fn ct_locate(addr: u64) -> String {
    let mut q = Locate {
        addr: addr as usize,
        out: None,
    };
    // SAFETY: the callback only reads the loader's program header tables and writes to `q`.
    unsafe { libc::dl_iterate_phdr(Some(ct_locate_cb), &mut q as *mut Locate as *mut libc::c_void) };
    q.out.unwrap_or_else(|| format!("?+{addr:#x}"))
}

/// One PT_LOAD segment of a loaded object: [start, end) in memory, the object's load bias and its
/// ordinal in the loader's list (0 = the executable).
struct CtSeg {
    start: u64,
    end: u64,
    bias: u64,
    obj: u64,
}

unsafe extern "C" fn ct_segs_cb(info: *mut libc::dl_phdr_info, _size: libc::size_t, data: *mut libc::c_void) -> libc::c_int {
    let (segs, next_obj) = &mut *(data as *mut (Vec<CtSeg>, u64));
    let info = &*info;
    if !info.dlpi_phdr.is_null() {
        for i in 0..info.dlpi_phnum as usize {
            let ph = &*info.dlpi_phdr.add(i);
            if ph.p_type == libc::PT_LOAD {
                let start = (info.dlpi_addr as u64).wrapping_add(ph.p_vaddr as u64);
                segs.push(CtSeg {
                    start,
                    end: start.wrapping_add(ph.p_memsz as u64),
                    bias: info.dlpi_addr as u64,
                    obj: *next_obj,
                });
            }
        }
    }
    *next_obj += 1;
    0
}

fn ct_segments() -> Vec<CtSeg> {
    let mut acc: (Vec<CtSeg>, u64) = (Vec::new(), 0);
    // SAFETY: the callback only reads the loader's program header tables and writes to `acc`.
    unsafe { libc::dl_iterate_phdr(Some(ct_segs_cb), &mut acc as *mut (Vec<CtSeg>, u64) as *mut libc::c_void) };
    acc.0
}

/// SHA-256 over the executed instruction addresses, each encoded position-independently as
/// (object ordinal, address - load bias), 2 x u64 little endian; an address outside every loaded object
/// is (u64::MAX, raw address). Same binary + same libc => same hash in every process, ASLR or not.
fn ct_trace_hash(seq: &[u64], segs: &[CtSeg]) -> String {
    let mut h = Sha256::new();
    let mut last = 0usize;
    for &rip in seq {
        let hit = |s: &CtSeg| rip >= s.start && rip < s.end;
        if !segs.get(last).is_some_and(hit) {
            last = segs.iter().position(hit).unwrap_or(usize::MAX);
        }
        let (obj, off) = match segs.get(last) {
            Some(s) => (s.obj, rip.wrapping_sub(s.bias)),
            None => (u64::MAX, rip),
        };
        h.update(obj.to_le_bytes());
        h.update(off.to_le_bytes());
    }
    hex::encode(h.finalize())
}

fn op_ct_trace(c: &Value) -> R {
    let sha = req_hex(c, "canonical_request_sha256")?;
    let sha: [u8; 32] = sha.try_into().map_err(|_| "canonical_request_sha256 must be 32 bytes".to_string())?;
    let mm_secs = i64_or(c, "mismatch_secs", 900)?;
    let mm_nanos = u32::try_from(u64_or(c, "mismatch_nanos", 0)?).map_err(|_| "mismatch_nanos does not fit u32")?;
    let args = CtArgs {
        sha,
        credential: req_str(c, "credential")?,
        session_token: opt_str(c, "session_token")?,
        timestamp: instant(field(c, "timestamp"), "timestamp")?,
        region: req_str(c, "region")?,
        service: req_str(c, "service")?,
        server_time: instant(field(c, "server_time"), "server_time")?,
        mismatch: TimeDelta::new(mm_secs, mm_nanos).ok_or("mismatch is out of TimeDelta's range")?,
        script: Arc::new(parse_provider(c)?),
    };
    let max_steps = u64_or(c, "max_steps", CT_MAX_STEPS)?;
    if max_steps == 0 || max_steps > CT_MAX_STEPS {
        return Err(format!("max_steps must be in 1..={CT_MAX_STEPS}"));
    }
    // default: trace!() in the measured region stays a no-op; with "log_level" the records are produced (and their arguments
    // evaluated) inside the measured region, as in a host application that has raised the log level
    match opt_str(c, "log_level")? {
        Some(l) => set_log_level(l)?,
        None => log::set_max_level(log::LevelFilter::Off),
    }
    let _ = drain_logs();

    // What the server will compute: hex(HMAC-SHA256(signing key, string to sign)).
    let expected: Option<String> = if !args.credential.contains('/') {
        None // get_string_to_sign is documented to panic
    } else {
        run(|| -> Result<Option<String>, String> {
            let auth = args.authenticator("")?;
            let key: [u8; 32] = match &args.script.result {
                ResultSpec::Secret(s) => {
                    let ks = KSecretKey::<44>::from_str(s).map_err(|e| format!("secret rejected: {e}"))?;
                    *ks.to_ksigning(args.timestamp.date_naive(), args.region, args.service).as_ref()
                }
                ResultSpec::ZeroKey => [0u8; 32],
                ResultSpec::Err(_) => return Ok(None),
            };
            let mut mac = Hmac::<Sha256>::new_from_slice(&key).map_err(|e| format!("hmac key rejected: {e}"))?;
            mac.update(&auth.get_string_to_sign());
            Ok(Some(hex::encode(mac.finalize().into_bytes())))
        })
        .map_err(|p| format!("computing the expected signature panicked: {p}"))??
    };

    // The presented signatures: "signatures" first, then "relative_to_expected".
    let mut presented: Vec<(String, Option<Value>)> = Vec::new();
    let listed = field(c, "signatures");
    for s in str_list(listed, "signatures")? {
        presented.push((s.to_string(), None));
    }
    let relative = match field(c, "relative_to_expected") {
        None => None,
        Some(Value::Array(a)) => Some(a),
        Some(_) => return Err("relative_to_expected must be a list of [pos, char]".to_string()),
    };
    if listed.is_none() && relative.is_none() {
        return Err("give \"signatures\" and/or \"relative_to_expected\"".to_string());
    }
    for entry in relative.into_iter().flatten() {
        let bad = || "relative_to_expected entries must be [pos, \"c\"] with one ASCII character".to_string();
        let (pos, ch) = match entry.as_array().map(Vec::as_slice) {
            Some([p, Value::String(s)]) if s.len() == 1 => (p.as_u64().ok_or_else(bad)?, s.as_bytes()[0]),
            _ => return Err(bad()),
        };
        let exp = expected.as_deref().ok_or("relative_to_expected needs an expected signature, but there is none \
                                             (provider result is an error or the credential has no '/')")?;
        let mut bytes = exp.as_bytes().to_vec();
        let pos = usize::try_from(pos).ok().filter(|p| *p < bytes.len()).ok_or_else(|| {
            format!("relative_to_expected position {pos} is outside the expected signature (length {})", bytes.len())
        })?;
        let used = if bytes[pos] != ch {
            ch
        } else if ch.is_ascii_digit() {
            b'0' + (ch - b'0' + 1) % 10 // another digit
        } else {
            b'a' + (ch - b'a' + 1) % 6 // the expected signature is lower-case hex: another letter of a-f
        };
        bytes[pos] = used;
        let sig = String::from_utf8(bytes).map_err(|_| bad())?;
        presented.push((sig, Some(json!([pos, (used as char).to_string()]))));
    }
    if presented.is_empty() {
        return Ok(json!({"runs": [], "all_equal": true, "expected_signature": expected}));
    }
    if presented.len() > CT_MAX_RUNS {
        return Err(format!("at most {CT_MAX_RUNS} signatures per command"));
    }

    // --- fork every child first: they all start from the very same parent state (heap included), run
    //     their setup concurrently and park in SIGSTOP until the tracer gets to them.
    let mut fds = [-1 as libc::c_int; 2];
    // SAFETY: `fds` is a valid array of two ints.
    if unsafe { libc::pipe2(fds.as_mut_ptr(), libc::O_CLOEXEC) } != 0 {
        return Err(format!("pipe2 failed: {}", io::Error::last_os_error()));
    }
    let mut kids = CtChildren {
        pids: Vec::with_capacity(presented.len()),
        rfd: fds[0],
        wfd: fds[1],
        old_alarm: None,
        old_affinity: None,
    };
    kids.old_affinity = ct_pin_to_current_cpu();
    // SAFETY: fcntl on an fd we own.
    unsafe {
        let fl = libc::fcntl(kids.rfd, libc::F_GETFL);
        libc::fcntl(kids.rfd, libc::F_SETFL, fl | libc::O_NONBLOCK);
    }
    for (sig, _) in &presented {
        // No allocation in the parent inside this loop (`pids` has its capacity already).
        // SAFETY: the process is single-threaded (serving loop on the main thread); the child only runs
        // `ct_child_main`, which ends in `_exit`.
        let pid = unsafe { libc::fork() };
        if pid == 0 {
            ct_child_main(&args, sig, kids.wfd);
        }
        if pid < 0 {
            return Err(format!("fork failed: {}", io::Error::last_os_error())); // Drop reaps the others
        }
        kids.pids.push((pid, false));
    }
    // SAFETY: closing our copy of the write end; installing a no-op handler (no SA_RESTART) for SIGALRM.
    unsafe {
        libc::close(kids.wfd);
        kids.wfd = -1;
        let mut sa: libc::sigaction = std::mem::zeroed();
        sa.sa_sigaction = ct_on_alarm as extern "C" fn(libc::c_int) as usize;
        libc::sigemptyset(&mut sa.sa_mask);
        let mut old: libc::sigaction = std::mem::zeroed();
        if libc::sigaction(libc::SIGALRM, &sa, &mut old) == 0 {
            kids.old_alarm = Some(old);
        }
    }

    let marker = ct_marker as extern "C" fn(u64) -> u64 as usize as u64;
    let segs = ct_segments();
    let mut reference: Option<Vec<u64>> = None;
    let mut first_fingerprint: Option<(u64, String)> = None;
    let mut all_equal = true;
    let mut runs: Vec<Value> = Vec::new();
    let mut seq: Vec<u64> = Vec::new();
    for (i, (sig, rel)) in presented.iter().enumerate() {
        let pid = kids.pids[i].0;
        seq.clear();
        ct_set_timer(CT_CHILD_DEADLINE_SECS);
        let traced = ct_trace_child(pid, marker, max_steps, &mut seq);
        ct_set_timer(0);
        if traced.is_err() {
            ct_kill(pid);
        }
        kids.pids[i].1 = true;
        let report = ct_read_report(kids.rfd);

        let mut run_json = json!({"signature": sig});
        if let Some(rel) = rel {
            run_json["relative"] = rel.clone();
        }
        let mut error: Option<String> = traced.as_ref().err().cloned();
        match serde_json::from_slice::<Value>(&report) {
            Ok(Value::Object(m)) => {
                for (k, v) in m {
                    if k == "error" {
                        error = Some(match (error.take(), v.as_str()) {
                            (Some(e), Some(child)) => format!("{e}; child says: {child}"),
                            (Some(e), None) => e,
                            (None, child) => child.unwrap_or("unreadable child error").to_string(),
                        });
                    } else {
                        run_json[k.as_str()] = v;
                    }
                }
            }
            _ if error.is_none() => error = Some("child sent no outcome report".to_string()),
            _ => (),
        }
        match (&traced, &error) {
            (Ok(pre), None) => {
                let hash = ct_trace_hash(&seq, &segs);
                run_json["steps"] = json!(seq.len());
                run_json["pre_steps"] = json!(pre);
                run_json["trace_hash"] = json!(hash);
                let mut first_divergence = Value::Null;
                match &reference {
                    None => (),
                    Some(r) => {
                        let common = r.iter().zip(seq.iter()).take_while(|(a, b)| a == b).count();
                        if common < r.len() || common < seq.len() {
                            first_divergence = json!(common);
                            let at = |s: &[u64], k: usize| s.get(k).map(|rip| ct_locate(*rip));
                            run_json["divergence_at"] = json!({
                                "last_common_rip": common.checked_sub(1).and_then(|k| at(&seq, k)),
                                "rip": at(&seq, common),
                                "ref_rip": at(r, common),
                            });
                        }
                    }
                }
                run_json["first_divergence"] = first_divergence;
                match &first_fingerprint {
                    None => first_fingerprint = Some((seq.len() as u64, hash)),
                    Some((n, h)) => all_equal &= *n == seq.len() as u64 && *h == hash,
                }
                if i == 0 {
                    reference = Some(std::mem::take(&mut seq));
                }
            }
            _ => {
                all_equal = false;
                run_json["error"] = json!(error.unwrap_or_else(|| "unknown failure".to_string()));
                if !run_json.as_object().is_some_and(|o| o.contains_key("outcome")) {
                    run_json["outcome"] = Value::Null;
                }
                run_json["steps"] = Value::Null;
                run_json["trace_hash"] = Value::Null;
                run_json["first_divergence"] = Value::Null;
            }
        }
        runs.push(run_json);
    }
    drop(kids);
    Ok(json!({
        "runs": runs, "all_equal": all_equal, "expected_signature": expected,
        "marker": ct_locate(marker), "max_steps": max_steps,
    }))
}

// ------------------------------------------------------------------------------------------------
// Dispatch and main loop
// ------------------------------------------------------------------------------------------------

fn dispatch(c: &Value) -> R {
    if !c.is_object() {
        return Err("command must be a JSON object".to_string());
    }
    match req_str(c, "op")? {
        "canon_path" => op_canon_path(c),
        "norm_element" => op_norm_element(c),
        "canon_query" => op_canon_query(c),
        "unescape" => op_unescape(c),
        "header_value" => op_header_value(c),
        "trim_ascii" => op_trim_ascii(c),
        "latin1" => op_latin1(c),
        "bytes_kernels" => op_bytes_kernels(c),
        "parse_iso" => op_parse_iso(c),
        "from_str" => op_from_str(c),
        "derive" => op_derive(c),
        "hmac" => op_hmac(c),
        "sha256" => op_sha256(c),
        "error_table" => op_error_table(c),
        "requirements" => op_requirements(c),
        "canonical" => op_canonical(c),
        "validate" => op_validate(c),
        "authenticator" => op_authenticator(c),
        "fmt" => op_fmt(c),
        "ct_trace" => op_ct_trace(c),
        "memcmp_probe" => op_memcmp_probe(c),
        other => Err(format!("unknown op {other:?}")),
    }
}

/// Answer one raw command line. Never panics, always returns exactly one line (no newline inside).
fn answer(line: &[u8]) -> String {
    let cmd: Result<Value, _> = serde_json::from_slice(line);
    let (id, mut reply) = match &cmd {
        Err(e) => (None, json!({"bad_input": format!("invalid JSON: {e}")})),
        Ok(c) => {
            log::set_max_level(log::LevelFilter::Off);
            // The outer guard only catches bugs of this harness (ops guard their own crate calls).
            let reply = match run(|| dispatch(c)) {
                Ok(Ok(v)) => v,
                Ok(Err(why)) => json!({"bad_input": why}),
                Err(mut p) => {
                    p["outer"] = json!(true);
                    p
                }
            };
            (c.get("id").cloned(), reply)
        }
    };
    if let (Some(id), Some(obj)) = (id, reply.as_object_mut()) {
        obj.insert("id".to_string(), id);
    }
    serde_json::to_string(&reply).unwrap_or_else(|e| format!("{{\"bad_input\":\"unserializable reply: {e}\"}}"))
}

fn main() {
    install_panic_hook();
    let _ = log::set_logger(&LOGGER);
    log::set_max_level(log::LevelFilter::Off);

    let args: Vec<String> = std::env::args().collect();
    let stdout = io::stdout();
    let mut out = stdout.lock();
    if args.len() >= 2 {
        if args.len() == 3 && args[1] == "--one" {
            let _ = writeln!(out, "{}", answer(args[2].as_bytes()));
            let _ = out.flush();
            return;
        }
        eprintln!("usage: verif-replay [--one '<json>']");
        std::process::exit(2);
    }

    let stdin = io::stdin();
    let mut input = stdin.lock();
    let mut line = Vec::new();
    loop {
        line.clear();
        match input.read_until(b'\n', &mut line) {
            Ok(0) => break,
            Ok(_) => (),
            Err(e) if e.kind() == io::ErrorKind::Interrupted => continue,
            Err(_) => break,
        }
        if line.iter().all(u8::is_ascii_whitespace) {
            continue;
        }
        if writeln!(out, "{}", answer(&line)).and_then(|_| out.flush()).is_err() {
            break; // reader went away
        }
    }
}
