"""Ideal-hash oracle for SHA-256 / HMAC-SHA256 (sha2, hmac, digest crates).

Concrete inputs are hashed for real (hashlib), so the AWS test vectors run natively
through the model.  For symbolic inputs the output is 32 fresh symbolic bytes per distinct
input; functional consistency (equal inputs => equal outputs) is asserted between every
pair of recorded calls of the same length, and every call is recorded so that specs can
state *what was hashed with which key*.  Collision resistance is an assumption of the
properties, stated in their evidence.
"""
import hashlib
import hmac as pyhmac

import z3

from .values import *
from .lib_std import elems_of, deref, concrete_bytes, bytes_eq
from .interp import zb


class OracleCall:
    __slots__ = ('kind', 'key', 'msg', 'out', 'idx')

    def __init__(self, kind, key, msg, out, idx):
        self.kind = kind          # 'sha256' | 'hmac'
        self.key = key            # list of Int (HMAC key as given, unpadded) or None
        self.msg = msg
        self.out = out            # list of 32 Int
        self.idx = idx


def pad_key(key):
    """HMAC's own key normalisation for keys <= 64 bytes: zero padding to the block size."""
    if len(key) > 64:
        return None
    return list(key) + [Int('u8', 0)] * (64 - len(key))


class Oracle:
    def __init__(self):
        self.calls = []

    def digest(self, m, kind, key, msg):
        ck = concrete_bytes(key) if key is not None else b''
        cm = concrete_bytes(msg)
        if ck is not None and cm is not None:
            if kind == 'sha256':
                out = [Int('u8', b) for b in hashlib.sha256(cm).digest()]
            else:
                out = [Int('u8', b) for b in pyhmac.new(ck, cm, hashlib.sha256).digest()]
            call = OracleCall(kind, key, msg, out, len(self.calls))
            self.calls.append(call)
            return call
        ctx = m.ctx
        out = [Int('u8', ctx.fresh_bv('%s%d_' % (kind, len(self.calls)), 8)) for _ in range(32)]
        call = OracleCall(kind, key, msg, out, len(self.calls))
        # functional consistency with earlier calls
        for prev in self.calls:
            if prev.kind != kind or len(prev.msg) != len(msg):
                continue
            if kind == 'hmac':
                pk, ck2 = pad_key(prev.key), pad_key(key)
                if pk is None or ck2 is None:
                    if len(prev.key) != len(key):
                        continue
                    same_key = bytes_eq(prev.key, key)
                else:
                    same_key = bytes_eq(pk, ck2)
            else:
                same_key = True
            same = z3.And(zb(same_key), zb(bytes_eq(prev.msg, msg)))
            same = z3.simplify(same)
            if z3.is_false(same):
                continue
            ctx.assume(z3.Implies(same, zb(bytes_eq(prev.out, out))))
        self.calls.append(call)
        return call


class HashState:
    """Sha256 hasher / Hmac<Sha256> instance being fed."""

    def __init__(self, kind, key=None):
        self.kind = kind
        self.key = key
        self.msg = []
        self.rust_type = 'Sha256' if kind == 'sha256' else 'Hmac'

    def clone(self, m):
        h = HashState(self.kind, self.key)
        h.msg = list(self.msg)
        return h


class HashOutput:
    rust_type = 'GenericArray'

    def __init__(self, out):
        self.out = out

    def to_array(self):
        return Array(list(self.out))

    @property
    def elems(self):
        return self.out


def oracle_of(m):
    o = getattr(m, 'x_oracle', None)
    if o is None:
        o = m.x_oracle = Oracle()
    return o


def install(m):
    L = m.lib

    L['Sha256::new'] = lambda m, a, c, rt: HashState('sha256')
    L['Digest::new'] = lambda m, a, c, rt: HashState('sha256')

    def new_from_slice(m, a, c, rt):
        return ok(HashState('hmac', list(elems_of(m, a[0]))))
    L['new_from_slice'] = new_from_slice

    def update(m, a, c, rt):
        h = deref(m, a[0])
        h.msg.extend(elems_of(m, a[1]))
        return unit()
    L['Digest::update'] = update
    L['Mac::update'] = update
    L['update'] = update

    def finalize(m, a, c, rt):
        h = a[0] if isinstance(a[0], HashState) else deref(m, a[0])
        call = oracle_of(m).digest(m, h.kind, h.key, h.msg)
        return HashOutput(call.out)
    L['finalize'] = finalize
    L['Digest::finalize'] = finalize
    L['Mac::finalize'] = finalize

    L['into_bytes'] = lambda m, a, c, rt: a[0]

    def conv_array(m, v):
        if isinstance(v, HashOutput):
            return v.to_array()
        raise Unsupported('array from %r' % (v,))
    L['convert:array'] = conv_array

    def digest_fn(m, a, c, rt):
        call = oracle_of(m).digest(m, 'sha256', None, list(elems_of(m, a[0])))
        return HashOutput(call.out)
    L['Sha256::digest'] = digest_fn
    L['Digest::digest'] = digest_fn
