"""Model of the `http` crate types the crate under test touches: Request/Parts, Uri (+ Builder),
HeaderMap/HeaderName/HeaderValue, Method, Version — at the level of their documented API.

HeaderMap: names are lower-case tokens (the http crate normalises them at construction);
iteration yields, for each distinct name in order of first insertion, all of its values in
arrival order (http's documented behaviour); `get` returns the first value of a name.
"""
import z3

from .values import *
from .lib_std import (elems_of, deref, concrete_bytes, new_string, ListIter, bytes_eq, display, Formatter)
from .interp import zb

URI_MAX_LEN = 65534      # u16::MAX - 1, http::uri::MAX_LEN


class HeaderValue:
    rust_type = 'HeaderValue'

    def __init__(self, elems):
        self.elems = list(elems)

    def deref(self, m, ptr, c, rt):
        return Ptr(self, (), ('slice', 0, len(self.elems)))

    def clone(self, m):
        return HeaderValue(self.elems)

    def eq(self, m, other):
        return bytes_eq(self.elems, other.elems)


class HeaderName:
    rust_type = 'HeaderName'

    def __init__(self, name):
        self.elems = [Int('u8', b) for b in name.lower().encode()]
        self.name = name.lower()

    def clone(self, m):
        return self


class HdrSlot(Cell):
    """A Cell view of the value of one HeaderMap entry (so that `*map.get_mut(name) = value` writes into the map)."""
    __slots__ = ('hm', 'idx')

    def __init__(self, hm, idx):
        self.hm, self.idx = hm, idx

    @property
    def v(self):
        return self.hm.entries[self.idx][1]

    @v.setter
    def v(self, val):
        self.hm.entries[self.idx] = (self.hm.entries[self.idx][0], val)


class HeaderMap:
    rust_type = 'HeaderMap'

    def __init__(self, pairs=()):
        self.entries = []          # [(HeaderName, HeaderValue)] in arrival order
        for n, v in pairs:
            self.append(n, v)

    def append(self, name, value_elems):
        self.entries.append((HeaderName(name), HeaderValue(value_elems)))

    def grouped(self):
        order = []
        groups = {}
        for n, v in self.entries:
            if n.name not in groups:
                groups[n.name] = []
                order.append(n.name)
            groups[n.name].append((n, v))
        return [g for k in order for g in groups[k]]

    def clone(self, m):
        h = HeaderMap()
        h.entries = [(n, HeaderValue(v.elems)) for n, v in self.entries]
        return h

    def iter(self, m):
        return ListIter([Tuple([Ptr(Cell(n), ()), Ptr(Cell(v), ())]) for n, v in self.grouped()])

    def get(self, m, key):
        k = concrete_bytes(elems_of(m, key))
        if k is None:
            raise Unsupported('symbolic header name lookup')
        k = k.decode().lower()
        for i, (n, v) in enumerate(self.entries):
            if n.name == k:
                return some(Ptr(HdrSlot(self, i), ()))
        return none()


class Uri:
    rust_type = 'Uri'

    def __init__(self, path, query=None, scheme_authority=b'', authority_form=False):
        self.path = list(path)
        self.query = None if query is None else list(query)
        self.prefix = scheme_authority
        # authority-form request target ("example.com:443", CONNECT): no scheme, no path-and-query at all
        self.authority_form = authority_form

    def clone(self, m):
        return Uri(self.path, self.query, self.prefix, self.authority_form)

    def render(self):
        out = list(self.path)
        if self.query is not None:
            out.append(Int('u8', 0x3F))
            out.extend(self.query)
        return out


class PathAndQuery:
    """View of a Uri's path-and-query component (same path / query lists)."""
    rust_type = 'PathAndQuery'

    def __init__(self, uri):
        self.path, self.query, self.prefix, self.authority_form = uri.path, uri.query, uri.prefix, False


class Method:
    rust_type = 'Method'

    def __init__(self, name):
        self.elems = [Int('u8', b) for b in name.encode()] if isinstance(name, str) else list(name)

    def display(self, m, out):
        out.extend(self.elems)

    def clone(self, m):
        return self


class UriBuilder:
    rust_type = 'Builder'

    def __init__(self):
        self.pq = None


def mk_parts(method, uri, headers, version='HTTP/1.1', extensions=None):
    return Adt('Parts', None, [method, uri, Opaque('Version', version), headers,
                               extensions if extensions is not None else Opaque('Extensions', 'ext0'), unit()],
               ['method', 'uri', 'version', 'headers', 'extensions', '_priv'])


class Request:
    rust_type = 'Request'

    def __init__(self, parts, body):
        self.parts = parts
        self.body = body


def install(m):
    L = m.lib

    L['HeaderMap::iter'] = lambda m, a, c, rt: deref(m, a[0]).iter(m)
    L['HeaderMap::get'] = lambda m, a, c, rt: deref(m, a[0]).get(m, a[1])
    L['HeaderMap::get_mut'] = L['HeaderMap::get']
    L['HeaderMap::contains_key'] = lambda m, a, c, rt: deref(m, a[0]).get(m, a[1]).variant == 'Some'

    def hv_from_static(m, a, c, rt):
        es = elems_of(m, a[0])
        # from_static panics on bytes that are not visible ASCII / tab
        for e in es:
            okb = ((0x20 <= e.v < 0x7F) or e.v == 0x09) if not e.sym else z3.Or(z3.And(z3.UGE(e.v, 0x20), z3.ULT(e.v, 0x7F)), e.v == 0x09)
            if not m.ctx.branch(okb):
                raise Panic('invalid header value')
        return HeaderValue(es)
    L['HeaderValue::from_static'] = hv_from_static

    def hv_from_bytes(m, a, c, rt):
        es = elems_of(m, a[0])
        for e in es:
            okb = ((0x20 <= e.v and e.v != 0x7F) or e.v == 0x09) if not e.sym else z3.Or(z3.And(z3.UGE(e.v, 0x20), e.v != 0x7F), e.v == 0x09)
            if not m.ctx.branch(okb):
                return err(Opaque('http::Error', 'InvalidHeaderValue'))
        return ok(HeaderValue(es))
    L['HeaderValue::from_bytes'] = hv_from_bytes
    L['HeaderMap::contains_key'] = lambda m, a, c, rt: deref(m, a[0]).get(m, a[1]).variant == 'Some'

    def hv_bytes(m, a, c, rt):
        v = deref(m, a[0])
        return Ptr(v, (), ('slice', 0, len(v.elems)))
    L['HeaderValue::as_bytes'] = hv_bytes
    L['HeaderValue as AsRef::as_ref'] = hv_bytes
    L['HeaderValue::as_ref'] = hv_bytes

    def hn_str(m, a, c, rt):
        v = deref(m, a[0])
        return Ptr(v, (), ('str', 0, len(v.elems)))
    L['HeaderName::as_str'] = hn_str

    def uri_path(m, a, c, rt):
        u = deref(m, a[0])
        # http returns "/" for an empty path of a URI that has a scheme/authority; a bare path-and-query keeps it
        buf = VecObj(u.path, 'string')
        if not u.path and u.prefix and not getattr(u, 'authority_form', False):
            buf = VecObj([Int('u8', 0x2F)], 'string')
        return Ptr(buf, (), ('str', 0, len(buf.elems)))
    L['Uri::path'] = uri_path
    L['PathAndQuery::path'] = uri_path

    def uri_paq(m, a, c, rt):
        # Some(&PathAndQuery) unless the URI has neither a scheme nor a path (authority form)
        u = deref(m, a[0])
        if getattr(u, 'authority_form', False):
            return none()
        return some(Ptr(Cell(PathAndQuery(u)), ()))
    L['Uri::path_and_query'] = uri_paq

    def uri_query(m, a, c, rt):
        u = deref(m, a[0])
        if u.query is None:
            return none()
        buf = VecObj(u.query, 'string')
        return some(Ptr(buf, (), ('str', 0, len(buf.elems))))
    L['Uri::query'] = uri_query
    L['PathAndQuery::query'] = uri_query

    L['Uri::builder'] = lambda m, a, c, rt: UriBuilder()

    def path_and_query(m, a, c, rt):
        b = a[0]
        b.pq = list(elems_of(m, a[1]))
        return b
    L['Builder::path_and_query'] = path_and_query

    def build(m, a, c, rt):
        b = a[0]
        es = b.pq or []
        # documented contract: Err for invalid bytes or more than 65534 bytes
        if getattr(m, 'x_uri_build_may_fail', False):
            if m.ctx.pick(2, 'uri-build') == 1:
                m.ctx.events.append(('uri_build_failed_by_contract', len(es)))
                return err(Opaque('http::Error', 'TooLong'))
        if len(es) > URI_MAX_LEN:
            return err(Opaque('http::Error', 'TooLong'))
        # split at the first '?' (bytes are percent-encoded output of the canonicalisers)
        path, query = es, None
        for i, e in enumerate(es):
            if m.ctx.branch((e.v == 0x3F) if not e.sym else (e.v == 0x3F)):
                path, query = es[:i], es[i + 1:]
                break
        # '#' would start a fragment; other invalid bytes would be rejected
        for e in es:
            bad = z3.Or(z3.ULE(e.z(), 0x20), e.z() == 0x7F, z3.UGE(e.z(), 0x80), e.z() == 0x23,
                        e.z() == 0x3C, e.z() == 0x3E, e.z() == 0x22) if e.sym else \
                (e.v <= 0x20 or e.v >= 0x7F or e.v in (0x23, 0x3C, 0x3E, 0x22))
            if m.ctx.branch(bad):
                return err(Opaque('http::Error', 'InvalidUriChar'))
        return ok(Uri(path, query))
    L['Builder::build'] = build

    def into_parts(m, a, c, rt):
        r = a[0]
        return Tuple([r.parts, r.body])
    L['Request::into_parts'] = into_parts
    L['into_parts'] = into_parts

    def method_to_string(m, a, c, rt):
        v = deref(m, a[0])
        return new_string(v.elems)
    L['Method::to_string'] = method_to_string
    L['Method::as_str'] = lambda m, a, c, rt: Ptr(deref(m, a[0]), (), ('str', 0, len(deref(m, a[0]).elems)))
