"""C07 — the signature comparison is constant-time with respect to the secret expected value.  PARTLY APPLICABLE.

Decided at the level of rustc MIR: MIRSE executes `validate_signature`'s MIR *and the MIR of the `subtle` crate*
(dumped from the same Cargo.lock) with the presented signature public (64 symbolic characters) and the expected
signature secret (hex of an ideal-hash output under a symbolic key).  Every executed basic block is appended to a
trace.  `<[u8] as PartialEq>::eq` / memcmp is modelled as the property prescribes: a length test followed by a
byte-wise, early-exit comparison (one fork per byte).  Obligation: all paths that refuse a 64-character
signature as a mismatch share ONE trace - no branch, index or loop bound before the final accept/reject test
depends on the secret.  A violation yields two positions of first difference, replayed natively by
single-stepping the compiled code under ptrace (`ct_trace` op of the replay binary, with a byte-wise memcmp).
Kani K2 adds that ct_eq is functionally `==` on the compiled subtle.
NOT decided: the statement is about machine instructions; that LLVM keeps subtle's volatile-read-protected loop
branch-free is assumed (the native ptrace run on the unchanged tree is supporting evidence, not the verdict).
"""
import json
import random
import sys

import z3

from .common import *
from .pipeline import *
from .c04 import mk_auth
from mirse import engine
from mirse import model_chrono as C
from mirse import model_async as A
from mirse.model_hash import oracle_of
from . import kani_util

PROP = 'C07'
DEPS = ('subtle',)


def shapes(tier, seed):
    # '-trace': the host application has raised the log level to Trace, so the arguments of every log record are evaluated
    out = [('auth', 64), ('auth', 63), ('auth', 65), ('auth', 0), ('pipeline', 64), ('auth-trace', 64), ('pipeline-trace', 64)]
    return out


def hexish(ctx, tag, n):
    es = []
    for i in range(n):
        b = ctx.fresh_bv('%s%d' % (tag, i), 8)
        ctx.assume(z3.Or(z3.And(z3.UGE(b, 0x30), z3.ULE(b, 0x39)), z3.And(z3.UGE(b, 0x61), z3.ULE(b, 0x66))))
        es.append(Int('u8', b))
    return es


def run_shape(prog, shape, tier, seed, res):
    kind, n = shape
    runs = []

    def body(m, ctx):
        m.x_memcmp_early_exit = True
        if kind.endswith('-trace'):
            m.log_max_level = 5
        key = sym_bytes(ctx, 'SECRET_key', 32)
        sig = hexish(ctx, 'sig', n)
        prov = provider_ok(key)
        m.trace = []
        if kind.startswith('auth'):
            auth = mk_auth(conc_bytes('AKID/20150830/us-east-1/service/aws4_request'), instant(T0), sig)
            fut = m.call('SigV4Authenticator::validate_signature',
                         [Ptr(Cell(auth), ()), str_ptr('us-east-1'), str_ptr('service'), instant(T0), C.TimeDelta(900),
                          Ptr(Cell(prov), (), None, True)], None)
            r, _ = A.block_on(m, fut)
        else:
            authz = conc_bytes('AWS4-HMAC-SHA256 Credential=AKID/20150830/us-east-1/service/aws4_request, SignedHeaders=host;x-amz-date, Signature=') + sig
            rq = Req('GET', b'/', None, [('host', b'h'), ('x-amz-date', b'20150830T123600Z'), ('authorization', authz)])
            r, _ = run(m, rq, 'us-east-1', 'service', prov, instant(T0))
        tr = tuple(m.trace)
        m.trace = None
        return outcome(r), tr, sig

    def on_path(pr):
        ctx = pr.ctx
        res.obligations += 1
        if pr.kind == 'panic':
            res.findings.append(Finding('panic: %s' % pr.value.msg, {'shape': list(shape)}, None, None, repr(shape)))
            return
        o, tr, sig = pr.value
        k = 'ok' if o[0] == 'ok' else o[1]
        res.witnesses.add('%s:%d' % (k, n))
        runs.append((k, tr))

    engine.explore(prog, body, on_path, stats=res.stats)
    rej = [tr for k, tr in runs if k == 'SignatureDoesNotMatch']
    distinct = sorted(set(rej), key=lambda t: len(t))
    res.obligations += 1
    res.samples.append({'shape': list(shape), 'paths': len(runs), 'rejecting_paths': len(rej), 'distinct_rejecting_traces': len(distinct),
                        'trace_length_blocks': len(distinct[0]) if distinct else 0,
                        'subtle_blocks_in_trace': sum(1 for x in (distinct[0] if distinct else ()) if isinstance(x[0], str) and 'subtle' in x[0])})
    if distinct and not any('subtle' in str(x[0]) or str(x[0]).startswith('memcmp') for x in distinct[0]):
        res.inconclusive.append('%s: neither subtle MIR nor the memcmp model occurs in the trace' % (shape,))
    if n == 64 and len(distinct) > 1:
        # where do the traces first differ, and at which byte index did the early exits happen?
        exits = sorted({x[1] for t in distinct for x in t if isinstance(x, tuple) and x[0] == 'memcmp:byte' and x[2] is False})
        a, b = distinct[0], distinct[-1]
        i = next((j for j, (p, q) in enumerate(zip(a, b)) if p != q), min(len(a), len(b)))
        res.findings.append(Finding('refusing a wrong 64-character signature executes %d different block sequences depending on where it is wrong '
                                    '(first divergence at trace step %d: %r vs %r)' % (len(distinct), i, a[i] if i < len(a) else None, b[i] if i < len(b) else None),
                                    {'shape': list(shape), 'first_difference_positions': exits[:64] or [0, 63],
                                     'log_level': 'trace' if kind.endswith('-trace') else None}, None, None, repr(shape)))


# --------------------------------------------------------------------------- concrete side

def native_trace(rp, positions, log_level=None):
    extra = {'log_level': log_level} if log_level else {}
    return rp.ask({**extra, 'op': 'ct_trace', 'canonical_request_sha256': 'ab' * 32, 'credential': 'AKID/20150830/us-east-1/service/aws4_request',
                   'session_token': None, 'timestamp': {'secs': T0, 'nanos': 0}, 'region': 'us-east-1', 'service': 'service',
                   'server_time': {'secs': T0, 'nanos': 0}, 'mismatch_secs': 900, 'provider': {'result': {'signing_key_hex': '00' * 32}},
                   'relative_to_expected': [[p, '0'] for p in positions]})


def replay_finding(rp, f):
    pos = f.inp.get('first_difference_positions') or [0, 63]
    pos = sorted(set([pos[0], pos[len(pos) // 2], pos[-1]]))
    if len(pos) < 2:
        pos = [0, 63]
    nat = native_trace(rp, pos, f.inp.get('log_level'))
    if 'runs' not in nat:
        return False, {'native': nat}
    steps = [(r.get('signature', '')[:4], r.get('steps')) for r in nat['runs']]
    return nat.get('all_equal') is False, {'native_steps_by_position': list(zip(pos, [r.get('steps') for r in nat['runs']])),
                                           'all_equal': nat.get('all_equal')}


def conformance(prog, rp, seed, tier):
    """Functional agreement of MIRSE (executing subtle's MIR) with the native crate on concrete signatures."""
    mism = []
    n = 0
    import hashlib
    import hmac as pyhmac
    sts = b'AWS4-HMAC-SHA256\n20150830T123600Z\n20150830/us-east-1/service/aws4_request\n' + b'ab' * 32
    expected = pyhmac.new(bytes(32), sts, hashlib.sha256).hexdigest()
    cases = [expected, expected[:-1] + ('0' if expected[-1] != '0' else '1'), ('0' if expected[0] != '0' else '1') + expected[1:], expected[:63],
             expected + '0', '']
    for sig in cases:
        n += 1
        nat = rp.ask({'op': 'authenticator', 'canonical_request_sha256': 'ab' * 32, 'credential': 'AKID/20150830/us-east-1/service/aws4_request',
                      'session_token': None, 'signature': sig, 'timestamp': {'secs': T0, 'nanos': 0}, 'call': 'validate_signature',
                      'region': 'us-east-1', 'service': 'service', 'server_time': {'secs': T0, 'nanos': 0}, 'mismatch_secs': 900,
                      'mismatch_nanos': 0, 'provider': {'result': {'signing_key_hex': '00' * 32}}, 'log_level': 'off'})
        res = nat.get('result', {})
        nk = 'ok' if 'ok' in res else res.get('err', {}).get('kind', 'panic')
        out = []

        def body(m, ctx):
            auth = mk_auth(conc_bytes('AKID/20150830/us-east-1/service/aws4_request'), instant(T0), conc_bytes(sig))
            fut = m.call('SigV4Authenticator::validate_signature',
                         [Ptr(Cell(auth), ()), str_ptr('us-east-1'), str_ptr('service'), instant(T0), C.TimeDelta(900),
                          Ptr(Cell(provider_ok(conc_bytes(bytes(32)))), (), None, True)], None)
            r, _ = A.block_on(m, fut)
            o = outcome(r)
            return 'ok' if o[0] == 'ok' else o[1]
        engine.explore(prog, body, out.append)
        mine = out[0].value if out[0].kind == 'ret' else 'panic'
        if mine != nk:
            mism.append({'signature': sig, 'mirse': mine, 'native': nk})
    return n, mism


def extra_checks(tier, seed, rp):
    lines = []
    status = 0
    data = kani_util.run_kani(['K2'], timeout=900)
    kstatus, rows, failed, inconc = kani_util.summarize(data)
    if failed or inconc:
        status = 2
        lines.append('INCONCLUSIVE property=C07 Kani K2 (ct_eq == `==` on compiled subtle): %s' % json.dumps(
            [(n, h.get('verdict')) for n, h in failed + inconc]))
    # supporting evidence on the compiled code: instruction traces for four positions of first difference
    nat = native_trace(rp, [0, 1, 31, 63])
    native = {'supported': 'runs' in nat}
    if 'runs' in nat:
        native.update({'all_equal': nat.get('all_equal'), 'steps': [r.get('steps') for r in nat['runs']]})
        if nat.get('all_equal') is False:
            # the compiled code is not constant-time although the MIR-level check may pass: report, never silently ignore
            lines.append('VIOLATION property=C07 replay=%s' % write_replay_file(PROP, Finding(
                'native instruction traces differ by position of first difference', {'positions': [0, 1, 31, 63]}, native)))
            lines.append('  ptrace single-step counts per position: %s' % native['steps'])
            status = 1
    # the same with the log level raised to Trace (arguments of trace!() are evaluated inside the measured region)
    nat_t = native_trace(rp, [0, 1, 31, 63], 'trace')
    native_t = {'supported': 'runs' in nat_t}
    if 'runs' in nat_t:
        native_t.update({'all_equal': nat_t.get('all_equal'), 'steps': [r.get('steps') for r in nat_t['runs']]})
        if nat_t.get('all_equal') is False and status != 1:
            lines.append('VIOLATION property=C07 replay=%s' % write_replay_file(PROP, Finding(
                'native instruction traces differ by position of first difference when the log level is Trace',
                {'positions': [0, 1, 31, 63], 'first_difference_positions': [0, 1, 31, 63], 'log_level': 'trace'}, native_t)))
            lines.append('  ptrace single-step counts per position (log level Trace): %s' % native_t['steps'])
            status = 1
    return {'status': status, 'lines': lines, 'kani': {'harnesses': rows, 'wall_s': data.get('wall_s')}, 'native_ptrace': native,
            'native_ptrace_log_level_trace': native_t}


def describe(f):
    return '%s -> %s' % (json.dumps(f.inp)[:300], json.dumps(f.detail, default=str)[:300])


def bounds(tier):
    return ('validate_signature (and the whole pipeline) with a presented signature of 64 symbolic hex characters (also 63, 65, 0) against the '
            'secret expected signature (hex of an ideal-hash output under 32 symbolic key bytes); trace = every executed MIR basic block of '
            'the crate and of subtle 2.6 plus the pseudo-blocks of the byte-wise memcmp model; Kani K2 on 64+64 bytes; native ptrace on 4 positions')


OUTSIDE = ('machine code: that LLVM preserves the branch-free structure of subtle\'s loop is assumed, not shown (native single-step counts on the '
           'unchanged tree are supporting evidence); data-dependent timing of individual instructions and cache effects (hex table lookups)')
NEED_WITNESSES = {'SignatureDoesNotMatch:64', 'ok:64', 'SignatureDoesNotMatch:63'}
ASSUMPTIONS = ['`[u8] == [u8]` is a length test plus byte-wise early-exit memcmp (the model the property prescribes)',
               'read_volatile / black_box are identity functions at MIR level']


def main(argv):
    return run_check(sys.modules[__name__], argv)


if __name__ == '__main__':
    sys.exit(main(sys.argv))
