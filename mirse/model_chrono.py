"""Model of the chrono API used by the crate: instants as (unix seconds: signed 64-bit
bit-vector, nanoseconds: 32-bit), civil fields as 32-bit bit-vectors tied to the instant by
the proleptic Gregorian relation (Hinnant's days_from_civil).  The arithmetic contract used
here (ordering, +-15 min, constructors' validity rules, local->UTC) is cross-checked on
the compiled chrono by the Kani harnesses K3 (kani/src/k3_chrono.rs).
"""
import z3

from .values import *
from .lib_std import elems_of, deref, concrete_bytes, new_string
from .interp import zb, zand, zor, znot

B32 = 32
B64 = 64


def bv(v, bits):
    if isinstance(v, int):
        return z3.BitVecVal(v, bits)
    return v


def conc(v):
    """Python int of a z3 value if it is a numeral (after simplification) else None."""
    if isinstance(v, int):
        return v
    v = z3.simplify(v)
    if z3.is_bv_value(v):
        return v.as_signed_long()
    return None


CUM = [0, 31, 61, 92, 122, 153, 184, 214, 245, 275, 306, 337]   # days before month mp (March-based)


def days_from_civil(y, mo, d):
    """Days since 1970-01-01 of proleptic Gregorian y-mo-d; y, mo, d are 32-bit BVs (y in -400..=9999+)."""
    cy, cm, cd = conc(y), conc(mo), conc(d)
    if cy is not None and cm is not None and cd is not None:
        yy = cy - (1 if cm <= 2 else 0)
        era = (yy if yy >= 0 else yy - 399) // 400
        yoe = yy - era * 400
        mp = (cm + 9) % 12
        doy = (153 * mp + 2) // 5 + cd - 1
        doe = yoe * 365 + yoe // 4 - yoe // 100 + doy
        return z3.BitVecVal(era * 146097 + doe - 719468, B32)
    y, mo, d = bv(y, B32), bv(mo, B32), bv(d, B32)
    yy = z3.If(z3.ULE(mo, 2), y - 1, y) + 400          # >= 0 for y >= -399
    y16 = z3.Extract(15, 0, yy)
    era16 = z3.UDiv(y16, z3.BitVecVal(400, 16))
    yoe16 = y16 - era16 * 400
    era = z3.ZeroExt(16, era16)
    yoe = z3.ZeroExt(16, yoe16)
    mp = z3.If(z3.UGT(mo, 2), mo - 3, mo + 9)
    cum = z3.BitVecVal(CUM[11], B32)
    for k in range(10, -1, -1):
        cum = z3.If(mp == k, z3.BitVecVal(CUM[k], B32), cum)
    doy = cum + d - 1
    doe = yoe * 365 + z3.LShR(yoe, 2) - z3.ZeroExt(16, z3.UDiv(yoe16, z3.BitVecVal(100, 16))) + doy
    return era * 146097 + doe - 719468 - 146097


def is_leap(y):
    y = bv(y, B32)
    y16 = z3.Extract(15, 0, y + 400)
    return z3.And(z3.URem(y16, 4) == 0, z3.Or(z3.URem(y16, 100) != 0, z3.URem(y16, 400) == 0))


def days_in_month(y, mo):
    mo = bv(mo, B32)
    feb = z3.If(is_leap(y), z3.BitVecVal(29, B32), z3.BitVecVal(28, B32))
    return z3.If(mo == 2, feb, z3.If(z3.Or(mo == 4, mo == 6, mo == 9, mo == 11), z3.BitVecVal(30, B32), z3.BitVecVal(31, B32)))


def valid_ymd(y, mo, d):
    y, mo, d = bv(y, B32), bv(mo, B32), bv(d, B32)
    return z3.And(z3.UGE(mo, 1), z3.ULE(mo, 12), z3.UGE(d, 1), z3.ULE(d, days_in_month(y, mo)))


class NaiveDate:
    rust_type = 'NaiveDate'

    def __init__(self, y, mo, d):
        self.y, self.mo, self.d = bv(y, B32), bv(mo, B32), bv(d, B32)

    def clone(self, m):
        return self

    def days(self):
        return days_from_civil(self.y, self.mo, self.d)

    def debug(self, m, out):
        render(m, self, b'%Y-%m-%d', out)

    def display(self, m, out):
        render(m, self, b'%Y-%m-%d', out)

    def eq(self, m, o):
        return z3.And(self.y == o.y, self.mo == o.mo, self.d == o.d)


class NaiveTime:
    rust_type = 'NaiveTime'

    def __init__(self, h, mi, s, n):
        self.h, self.mi, self.s, self.n = bv(h, B32), bv(mi, B32), bv(s, B32), bv(n, B32)

    def clone(self, m):
        return self


class NaiveDateTime:
    rust_type = 'NaiveDateTime'

    def __init__(self, date, time):
        self.date, self.time = date, time

    def clone(self, m):
        return self


class FixedOffset:
    rust_type = 'FixedOffset'

    def __init__(self, secs):
        self.secs = bv(secs, B32)

    def clone(self, m):
        return self


class TimeDelta:
    rust_type = 'TimeDelta'

    def __init__(self, secs, nanos=0):
        self.secs = bv(secs, B64)
        self.nanos = bv(nanos, B32)

    def clone(self, m):
        return self


def next_day(y, mo, d):
    last = d == days_in_month(y, mo)
    return (z3.If(z3.And(last, mo == 12), y + 1, y),
            z3.If(last, z3.If(mo == 12, z3.BitVecVal(1, B32), mo + 1), mo),
            z3.If(last, z3.BitVecVal(1, B32), d + 1))


def prev_day(y, mo, d):
    first = d == 1
    pm = z3.If(mo == 1, z3.BitVecVal(12, B32), mo - 1)
    py = z3.If(mo == 1, y - 1, y)
    return (z3.If(first, py, y), z3.If(first, pm, mo), z3.If(first, days_in_month(py, pm), d - 1))


def shift_civil(civil, delta):
    """Civil fields of (civil + delta seconds) for |delta| < 86400 (32-bit signed BV), by carry arithmetic."""
    y, mo, d, h, mi, s = civil
    cd = conc(delta)
    if cd == 0:
        return civil
    t = h * 3600 + mi * 60 + s + delta
    under = t < 0
    over = t >= 86400
    t2 = z3.If(under, t + 86400, z3.If(over, t - 86400, t))
    t17 = z3.Extract(16, 0, t2)
    hh = z3.UDiv(t17, z3.BitVecVal(3600, 17))
    rem = t17 - hh * 3600
    mm = z3.UDiv(rem, z3.BitVecVal(60, 17))
    ss = rem - mm * 60
    ny, nm, nd = next_day(y, mo, d)
    py, pm, pd = prev_day(y, mo, d)
    Y = z3.If(under, py, z3.If(over, ny, y))
    M = z3.If(under, pm, z3.If(over, nm, mo))
    D = z3.If(under, pd, z3.If(over, nd, d))
    return tuple(z3.simplify(x) for x in (Y, M, D, z3.ZeroExt(15, hh), z3.ZeroExt(15, mm), z3.ZeroExt(15, ss)))


class DateTime:
    """An instant. `civil` = (y, mo, d, h, mi, s) 32-bit BVs in UTC when known; `local`/`offset` are the
    civil fields and offset the value was constructed from (DateTime<FixedOffset>)."""
    rust_type = 'DateTime'

    def __init__(self, secs, nanos, civil=None, offset=0, local=None):
        self.secs = bv(secs, B64)
        self.nanos = bv(nanos, B32)
        self.civil = civil
        self.offset = bv(offset, B32)    # for DateTime<FixedOffset>; 0 for Utc
        self.local = local

    def clone(self, m):
        return self

    def ensure_civil(self, m):
        """Tie fresh civil fields to `secs` by the Gregorian relation (unique solution)."""
        if self.civil is not None:
            return self.civil
        cs = conc(self.secs)
        if cs is not None:
            import datetime
            days, sod = divmod(cs, 86400)
            dt = datetime.date(1970, 1, 1) + datetime.timedelta(days=days)
            self.civil = tuple(z3.BitVecVal(x, B32) for x in (dt.year, dt.month, dt.day, sod // 3600, sod % 3600 // 60, sod % 60))
            return self.civil
        ctx = m.ctx
        y, mo, d, h, mi, s = [ctx.fresh_bv('civ_' + n, B32) for n in ('y', 'mo', 'd', 'h', 'mi', 's')]
        ctx.assume(z3.And(y >= -399, y <= 20000, valid_ymd(y, mo, d), z3.ULT(h, 24), z3.ULT(mi, 60), z3.ULT(s, 60)))
        days = days_from_civil(y, mo, d)
        ctx.assume(self.secs == z3.SignExt(32, days) * 86400 + z3.ZeroExt(32, h * 3600 + mi * 60 + s))
        self.civil = (y, mo, d, h, mi, s)
        return self.civil

    def lt(self, o):
        return z3.Or(self.secs < o.secs, z3.And(self.secs == o.secs, z3.ULT(self.nanos, o.nanos)))

    def eq(self, m, o):
        return z3.And(self.secs == o.secs, self.nanos == o.nanos)

    def cmp_op(self, m, op, o):
        if op == 'lt':
            return self.lt(o)
        if op == 'gt':
            return o.lt(self)
        if op == 'le':
            return z3.Not(o.lt(self))
        return z3.Not(self.lt(o))

    # rendering used only for trace-level log lines
    def display(self, m, out):
        render(m, self, b'%Y-%m-%d %H:%M:%S UTC', out)

    def debug(self, m, out):
        render(m, self, b'%Y-%m-%dT%H:%M:%SZ', out)


def from_civil(y, mo, d, h, mi, s, nanos=0, offset=0):
    """DateTime from civil *local* fields and an offset east of UTC (seconds)."""
    y, mo, d, h, mi, s = [bv(x, B32) for x in (y, mo, d, h, mi, s)]
    days = days_from_civil(y, mo, d)
    local = z3.SignExt(32, days) * 86400 + z3.ZeroExt(32, h * 3600 + mi * 60 + s)
    off = bv(offset, B32)
    secs = local - z3.SignExt(32, off)
    civil = shift_civil((y, mo, d, h, mi, s), -off)
    return DateTime(z3.simplify(secs), nanos, civil, offset, (y, mo, d, h, mi, s))


class DelayedFormat:
    rust_type = 'DelayedFormat'

    def __init__(self, what, pattern):
        self.what = what
        self.pattern = pattern

    def display(self, m, out):
        render(m, self.what, self.pattern, out)


def digits(v, n):
    """n decimal digits (most significant first) of a 32-bit BV known to be < 10^n, as u8 Ints."""
    cv = conc(v)
    if cv is not None:
        s = ('%0' + str(n) + 'd') % cv
        return [Int('u8', ord(ch)) for ch in s]
    out = []
    v16 = z3.Extract(15, 0, v)
    for k in range(n - 1, -1, -1):
        q = z3.UDiv(v16, z3.BitVecVal(10 ** k, 16)) if k else v16
        dgt = z3.URem(q, z3.BitVecVal(10, 16))
        out.append(Int('u8', z3.simplify(z3.Extract(7, 0, dgt) + 48)))
    return out


def render(m, what, pattern, out):
    if isinstance(what, DateTime):
        y, mo, d, h, mi, s = what.ensure_civil(m)
    elif isinstance(what, NaiveDate):
        y, mo, d = what.y, what.mo, what.d
        h = mi = s = None
    else:
        raise Unsupported('format of %r' % (what,))
    i = 0
    p = pattern
    while i < len(p):
        ch = p[i]
        if ch != 0x25:
            out.append(Int('u8', ch))
            i += 1
            continue
        f = chr(p[i + 1])
        i += 2
        if f == 'Y':
            inr = z3.And(y >= 0, y <= 9999)
            if not m.ctx.branch(inr):
                raise Unsupported('%Y of a year outside 0..9999')
            out.extend(digits(y, 4))
        elif f == 'm':
            out.extend(digits(mo, 2))
        elif f == 'd':
            out.extend(digits(d, 2))
        elif f == 'H':
            out.extend(digits(h, 2))
        elif f == 'M':
            out.extend(digits(mi, 2))
        elif f == 'S':
            out.extend(digits(s, 2))
        elif f == 'y':
            y16 = z3.Extract(15, 0, y)
            out.extend(digits(z3.ZeroExt(16, z3.URem(y16, z3.BitVecVal(100, 16))), 2))
        elif f == 'G':
            # ISO 8601 week-numbering year: the calendar year of the Thursday of the date's ISO week
            days = days_from_civil(y, mo, d)
            wd = z3.SRem(z3.SRem(days + 3, 7) + 7, 7)          # Monday = 0 (1970-01-01 was a Thursday)
            t = d - wd + 3                                       # day-of-month of that Thursday (may leave the month)
            gy = z3.If(z3.And(mo == 1, t < 1), y - 1, z3.If(z3.And(mo == 12, t > 31), y + 1, y))
            if not m.ctx.branch(z3.And(gy >= 0, gy <= 9999)):
                raise Unsupported('%G outside 0..9999')
            out.extend(digits(z3.simplify(gy), 4))
        elif f == '%':
            out.append(Int('u8', 0x25))
        else:
            raise Unsupported('strftime item %%%s' % f)


def as_bv32(v):
    if isinstance(v, Int):
        x = v.z()
        b = BITS[v.ty]
        if b < 32:
            return z3.SignExt(32 - b, x) if v.ty in SIGNED else z3.ZeroExt(32 - b, x)
        if b > 32:
            return z3.Extract(31, 0, x)
        return x
    return bv(v, B32)


def install(m):
    L = m.lib

    def from_ymd_opt(m, a, c, rt):
        y, mo, d = as_bv32(a[0]), as_bv32(a[1]), as_bv32(a[2])
        inr = z3.And(y >= -262143, y <= 262142)
        if m.ctx.branch(z3.And(inr, valid_ymd(y, mo, d))):
            return some(NaiveDate(y, mo, d))
        return none()
    L['NaiveDate::from_ymd_opt'] = from_ymd_opt

    def from_hms_nano_opt(m, a, c, rt):
        h, mi, s, n = [as_bv32(x) for x in a[:4]]
        okc = z3.And(z3.ULT(h, 24), z3.ULT(mi, 60), z3.ULT(s, 60),
                     z3.Or(z3.ULT(n, 1000000000), z3.And(s == 59, z3.ULT(n, 2000000000))))
        if m.ctx.branch(okc):
            return some(NaiveTime(h, mi, s, n))
        return none()
    L['NaiveTime::from_hms_nano_opt'] = from_hms_nano_opt

    def from_hms_opt(m, a, c, rt):
        return from_hms_nano_opt(m, list(a[:3]) + [Int('u32', 0)], c, rt)
    L['NaiveTime::from_hms_opt'] = from_hms_opt

    def east_opt(m, a, c, rt):
        s = as_bv32(a[0])
        if m.ctx.branch(z3.And(s > -86400, s < 86400)):
            return some(FixedOffset(s))
        return none()
    L['FixedOffset::east_opt'] = east_opt

    L['NaiveDateTime::new'] = lambda m, a, c, rt: NaiveDateTime(a[0], a[1])

    def from_local_datetime(m, a, c, rt):
        off = deref(m, a[0])
        ndt = deref(m, a[1])
        d, t = ndt.date, ndt.time
        dt = from_civil(d.y, d.mo, d.d, t.h, t.mi, t.s, t.n, off.secs)
        # out of chrono's range only for |year| > 262000; inside always a single instant for a fixed offset
        return Adt('LocalResult', 'Single', [dt])
    L['from_local_datetime'] = from_local_datetime

    def with_timezone(m, a, c, rt):
        dt = deref(m, a[0])
        return DateTime(dt.secs, dt.nanos, dt.civil, 0)
    L['with_timezone'] = with_timezone
    L['to_utc'] = with_timezone

    def subsec(m, a, c, rt):
        """chrono::SubsecRound::{round_subsecs, trunc_subsecs}(digits) on DateTime (leap-second nanoseconds >= 1e9 outside)."""
        dt = a[0] if isinstance(a[0], DateTime) else deref(m, a[0])
        dg = a[1]
        if dg.sym:
            raise Unsupported('symbolic digit count for round_subsecs')
        if dg.v >= 9:
            return dt
        span = 10 ** (9 - dg.v)
        civil = dt.ensure_civil(m)
        down = z3.URem(dt.nanos, z3.BitVecVal(span, B32))
        if c.method == 'trunc_subsecs':
            return DateTime(dt.secs, z3.simplify(dt.nanos - down), civil, dt.offset, dt.local)
        up = z3.BitVecVal(span, B32) - down
        # chrono: if delta_down == 0 unchanged; else if delta_up <= delta_down: + delta_up else - delta_down
        go_up = z3.And(down != 0, z3.ULE(up, down))
        nn = z3.If(go_up, dt.nanos + up, dt.nanos - down)
        carry = z3.If(z3.UGE(nn, 1000000000), z3.BitVecVal(1, B32), z3.BitVecVal(0, B32))
        nn = z3.If(z3.UGE(nn, 1000000000), nn - 1000000000, nn)
        return DateTime(z3.simplify(dt.secs + z3.ZeroExt(32, carry)), z3.simplify(nn), shift_civil(civil, carry), dt.offset, None)
    L['round_subsecs'] = subsec
    L['trunc_subsecs'] = subsec

    def delta_minutes(m, a, c, rt):
        v = a[0]
        if v.sym:
            raise Unsupported('symbolic TimeDelta::minutes')
        return TimeDelta(v.v * 60)
    L['TimeDelta::minutes'] = delta_minutes
    L['TimeDelta::seconds'] = lambda m, a, c, rt: TimeDelta(a[0].v)

    def num_seconds(m, a, c, rt):
        d = deref(m, a[0])
        cs = conc(d.secs)
        return Int('i64', cs if cs is not None else d.secs)
    L['TimeDelta::num_seconds'] = num_seconds

    def num_minutes(m, a, c, rt):
        d = deref(m, a[0])
        cs = conc(d.secs)
        if cs is None:
            return Int('i64', d.secs / 60)
        q = abs(cs) // 60
        return Int('i64', q if cs >= 0 else -q)
    L['TimeDelta::num_minutes'] = num_minutes

    def checked_add(sign):
        def h(m, a, c, rt):
            dt = a[0] if isinstance(a[0], DateTime) else deref(m, a[0])
            d = a[1] if isinstance(a[1], TimeDelta) else deref(m, a[1])
            cn = conc(d.nanos)
            if cn != 0:
                raise Unsupported('TimeDelta with sub-second part')
            secs = dt.secs + d.secs if sign > 0 else dt.secs - d.secs
            secs = z3.simplify(secs)
            # chrono range: years -262143..=262142
            lo, hi = -8334601228800, 8210266876799
            inr = z3.And(secs >= lo, secs <= hi)
            if m.ctx.branch(inr):
                civ = None
                cds = conc(d.secs)
                if dt.civil is not None and cds is not None and abs(cds) < 86400:
                    civ = shift_civil(dt.civil, z3.BitVecVal(cds if sign > 0 else -cds, B32))
                return some(DateTime(secs, dt.nanos, civ, 0))
            return none()
        return h
    L['checked_add_signed'] = checked_add(1)
    L['checked_sub_signed'] = checked_add(-1)

    def dt_format(m, a, c, rt):
        what = a[0] if not isinstance(a[0], Ptr) else deref(m, a[0])
        pat = concrete_bytes(elems_of(m, a[1]))
        if pat is None:
            raise Unsupported('symbolic strftime pattern')
        return DelayedFormat(what, pat)
    L['DateTime::format'] = dt_format
    L['NaiveDate::format'] = dt_format

    def date_naive(m, a, c, rt):
        dt = a[0] if not isinstance(a[0], Ptr) else deref(m, a[0])
        y, mo, d, _, _, _ = dt.ensure_civil(m)
        return NaiveDate(y, mo, d)
    L['date_naive'] = date_naive

    L['DateTime::timestamp'] = lambda m, a, c, rt: Int('i64', (a[0] if isinstance(a[0], DateTime) else deref(m, a[0])).secs)
    L['timestamp'] = L['DateTime::timestamp']
    L['timestamp_subsec_nanos'] = lambda m, a, c, rt: Int('u32', (a[0] if isinstance(a[0], DateTime) else deref(m, a[0])).nanos)
    L['timestamp_millis'] = lambda m, a, c, rt: Int('i64', z3.simplify(
        (a[0] if isinstance(a[0], DateTime) else deref(m, a[0])).secs * 1000 +
        z3.ZeroExt(32, z3.UDiv((a[0] if isinstance(a[0], DateTime) else deref(m, a[0])).nanos, z3.BitVecVal(1000000, 32)))))

    def dt_from_str(m, a, c, rt):
        es = elems_of(m, a[0])
        if len(es) == 0:
            return err(Opaque('ParseError', 'TooShort'))
        raise Unsupported('DateTime::from_str on non-empty input')
    L['from_str:DateTime'] = dt_from_str
    L['DateTime::from_str'] = dt_from_str
