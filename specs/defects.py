"""A correctly signed request with *symbolic defect switches* (shared by C13, C14).

Every switch is a z3 Boolean that selects, byte by byte, between the good and a bad spelling of equal
length of one request component, the server clock or the provider's answer.  The pipeline is executed once
per feasible path over all switches; early exits of the code prune the 2^n space.
"""
import z3

from .common import *
from .pipeline import *
from mirse import model_chrono as C
from mirse.model_hash import oracle_of

TS = '20150830T123600Z'
SCOPE = '20150830/us-east-1/service/aws4_request'
AKID = 'AKID'

# name -> (rule rank, expected kind, message prefixes)   rank follows the documented order
RULES = [
    ('path', 1, 'InvalidURIPath', None),
    ('query', 2, 'MalformedQueryString', None),
    ('carrier', 3, None, None),                       # shape-level: none -> MissingAuthenticationToken, both -> SignatureDoesNotMatch
    ('algorithm', 4, None, None),                     # header: IncompleteSignature, query: MissingAuthenticationToken
    ('syntax', 5, 'IncompleteSignature', [b"'Extra:1' not a valid key=value pair"]),
    ('missing', 6, 'IncompleteSignature', [b'Authorization header requires', b'AWS query-string parameters must include']),
    ('host', 7, 'SignatureDoesNotMatch', [b"'Host' or ':authority' must be"]),
    ('required', 8, 'SignatureDoesNotMatch', [b"'X-Req' must be a 'SignedHeader'"]),
    ('date', 9, 'IncompleteSignature', [b'Date must be in ISO-8601']),
    ('expired', 10, 'SignatureDoesNotMatch', [b'Signature expired']),
    ('future', 11, 'SignatureDoesNotMatch', [b'Signature not yet current']),
    ('arity', 12, 'IncompleteSignature', [b'Credential must have exactly 5']),
    ('scope', 13, 'SignatureDoesNotMatch', [b'Credential should be scoped', b'Date in Credential scope']),
    ('provider', 14, 'InvalidClientTokenId', [b'no such key']),
    ('signature', 15, 'SignatureDoesNotMatch', [b'The request signature we calculated']),
]


def sel(flag, good, bad):
    """u8 Int selecting `bad` when flag else `good` (single characters)."""
    g, b = ord(good), ord(bad)
    if flag is False or (z3.is_expr(flag) and z3.is_false(flag)):
        return Int('u8', g)
    if flag is True or (z3.is_expr(flag) and z3.is_true(flag)):
        return Int('u8', b)
    return Int('u8', z3.If(flag, z3.BitVecVal(b, 8), z3.BitVecVal(g, 8)))


def text(s, subs=()):
    """Bytes of s with substitutions [(index, flag, bad char)]."""
    es = conc_bytes(s)
    for idx, flag, bad in subs:
        es[idx] = sel(flag, s[idx], bad)
    return es


class Defective:
    """Builds the request for a carrier state with the given flags (dict name -> z3 Bool or False)."""

    def __init__(self, m, ctx, carrier, flags, date_header=True, key=bytes(32), sig_variant=None, blank_authz=None):
        self.m, self.ctx, self.carrier, self.f = m, ctx, carrier, flags
        self.sig_variant = sig_variant      # None | 'sig-long' | 'sig-short' | 'sig-empty': a presented signature of another length (always wrong)
        f = lambda n: flags.get(n, False)
        self.key = key
        # ---- good variant, concretely signed (and registered in the oracle so symbolic re-computations link up)
        good_path, good_query = b'/p%41', b'x=%41'
        headers_good = [('host', b'h'), ('x-req', b'v')]
        signed = ['host', 'x-req']
        if carrier in ('header', 'both') or carrier == 'none':
            headers_good.append(('x-amz-date', TS.encode()))
            signed = sorted(signed + ['x-amz-date'])
            cq = b'x=A'
        if carrier == 'query':
            cq = None
        aq_pairs = [('X-Amz-Algorithm', 'AWS4-HMAC-SHA256'), ('X-Amz-Credential', AKID + '/' + SCOPE), ('X-Amz-Date', TS),
                    ('X-Amz-SignedHeaders', ';'.join(sorted(['host', 'x-req'])))]
        if carrier == 'query':
            signed = sorted(['host', 'x-req'])
            from . import refmodel as R
            rc = RefCtx()
            pairs = [(conc_bytes('x'), conc_bytes('A'))] + [(conc_bytes(n), conc_bytes(v)) for n, v in aq_pairs]
            cq = bytes(e.v for e in R.ref_canon_query_from_pairs(rc, pairs))
        self.signed = signed
        sig, creq, sts = py_sign(key, 'GET', b'/pA', cq, headers_good, signed, b'', TS, SCOPE, is_key=True)
        o = oracle_of(m)
        o.digest(m, 'sha256', None, conc_bytes(b''))
        o.digest(m, 'sha256', None, conc_bytes(creq))
        o.digest(m, 'hmac', conc_bytes(key), conc_bytes(sts))
        self.good_sig = sig
        # ---- wire request with switches
        path = text('/p%41', [(4, f('path'), 'z')])
        query = text('x=%41', [(4, f('query'), 'z')])
        sigb = text(sig, [(63, f('signature'), 'f' if sig[63] != 'f' else '0')])
        if sig_variant == 'sig-long':
            sigb = sigb + conc_bytes('0')
        elif sig_variant == 'sig-short':
            sigb = sigb[:63]
        elif sig_variant == 'sig-empty':
            sigb = []
        cred_s = AKID + '/' + SCOPE
        i0 = len(AKID) + 1
        # arity: too few parts (last '/' -> '_') or too many ('-' of the region -> '/'); both together give five parts again, with a foreign scope
        subs = [(cred_s.rindex('/'), f('arity'), '_'),
                (cred_s.index('us-east-1') + 2, f('arity_more'), '/'),
                (i0 + 7, f('scope_date'), '9' if cred_s[i0 + 7] != '9' else '8'),
                (cred_s.index('us-east-1') + 8, f('scope_region'), '2'),
                (cred_s.index('/service/') + 7, f('scope_service'), 'f'),
                (len(cred_s) - 1, f('scope_term'), 'u')]
        headers = [('host', conc_bytes('h')), ('x-req', conc_bytes('v'))]
        date_val = text(TS, [(15, f('date'), '0')])
        if carrier in ('header', 'both'):
            sh = ';'.join(signed)
            authz = ('AWS4-HMAC-SHA256 Credential=' + cred_s + ', SignedHeaders=' + sh + ', Signature=')
            a = conc_bytes(authz)
            a[15] = sel(f('algorithm'), '6', '5')
            ci = authz.index('Credential=')
            a[ci] = sel(f('missing_credential'), 'C', 'X')
            for idx, flag, bad in subs:
                a[ci + len('Credential=') + idx] = sel(flag, cred_s[idx], bad)
            si = authz.index('SignedHeaders=')
            a[si] = sel(f('missing_signedheaders'), 'S', 'X')
            hs = si + len('SignedHeaders=')
            a[hs + sh.index('host') + 3] = sel(f('host'), 't', 'u')
            a[hs + sh.index('x-req') + 4] = sel(f('required'), 'q', 'x')
            gi = authz.index('Signature=')
            a[gi] = sel(f('missing_signature'), 'S', 'X')
            a = a + sigb + conc_bytes(', Extra') + [sel(f('syntax'), '=', ':')] + conc_bytes('1')
            if date_header:
                headers.append(('x-amz-date', date_val))
            headers.append(('authorization', a))
            wire_q = query
            if carrier == 'both':
                wire_q = query + conc_bytes('&X-Amz-Algorithm=AWS4-HMAC-SHA256')
        elif carrier == 'query':
            enc = cred_s.replace('/', '%2F')
            credv = conc_bytes(enc)
            # map substitutions into the encoded credential (each '/' became 3 bytes)
            def epos(i):
                return i + 2 * cred_s[:i].count('/')
            for idx, flag, bad in subs:
                if cred_s[idx] == '/':
                    p = epos(idx)
                    # '%2F' -> '%5F' ('_')
                    credv[p + 1] = sel(flag, '2', '5')
                else:
                    credv[epos(idx)] = sel(flag, cred_s[idx], bad)
            sh = '%3B'.join(signed)
            shv = conc_bytes(sh)
            shv[sh.index('host') + 3] = sel(f('host'), 't', 'u')
            shv[sh.index('x-req') + 4] = sel(f('required'), 'q', 'x')
            alg = text('AWS4-HMAC-SHA256', [(15, f('algorithm'), '5')])
            wire_q = (query + conc_bytes('&X-Amz-Algorithm=') + alg
                      + conc_bytes('&') + [sel(f('missing_credential'), 'X', 'Y')] + conc_bytes('-Amz-Credential=') + credv
                      + conc_bytes('&') + [sel(f('missing_date'), 'X', 'Y')] + conc_bytes('-Amz-Date=') + date_val
                      + conc_bytes('&') + [sel(f('missing_signedheaders'), 'X', 'Y')] + conc_bytes('-Amz-SignedHeaders=') + shv
                      + conc_bytes('&') + [sel(f('missing_signature'), 'X', 'Y')] + conc_bytes('-Amz-Signature=') + sigb)
        else:   # none
            headers.append(('x-amz-date', date_val))
            wire_q = query
        if blank_authz is not None:
            # a present but blank Authorization header is still the header carrier being present
            headers.append(('authorization', conc_bytes(blank_authz)))
        self.req = Req('GET', path, wire_q, headers, b'', 'bytes')
        # ---- server clock
        delta = z3.If(zb(f('expired')), z3.BitVecVal(1000, 32), z3.If(zb(f('future')), z3.BitVecVal(-1000, 32), z3.BitVecVal(0, 32)))
        base = instant(T0)
        self.server = C.DateTime(z3.simplify(base.secs + z3.SignExt(32, delta)), 0, C.shift_civil(base.civil, delta), 0)
        # ---- provider
        pf = f('provider')

        def result(mm, req):
            if pf is not False and mm.ctx.branch(pf):
                return err(BoxObj(sig_error('InvalidClientTokenId', 'no such key'), dyn='SignatureError'))
            return ok(key_response(conc_bytes(key)))
        self.result = result
        self.reqs = requirements('slice', always=['X-Req'])

    def cond(self, name):
        f = self.f
        if name == 'missing':
            names = ['missing_credential', 'missing_signature', 'missing_signedheaders', 'missing_date']
            return zor(*[zb(f[n]) for n in names if f.get(n, False) is not False])
        few, more = f.get('arity', False), f.get('arity_more', False)
        if name == 'scope':
            both = zand(zb(few), zb(more)) if (few is not False and more is not False) else False
            return zor(*([zb(f[n]) for n in ('scope_date', 'scope_region', 'scope_service', 'scope_term') if f.get(n, False) is not False] + [both]))
        if name == 'arity':
            if few is False and more is False:
                return False
            if few is False or more is False:
                return zb(few if more is False else more)
            return znot(zb(few) == zb(more))
        if name == 'signature' and self.sig_variant:
            return True
        v = f.get(name, False)
        return zb(v) if v is not False else False


def flag_names(carrier):
    names = ['path', 'query', 'algorithm', 'missing_credential', 'missing_signature', 'missing_signedheaders', 'host', 'required', 'date',
             'expired', 'future', 'arity', 'arity_more', 'scope_date', 'scope_region', 'scope_service', 'scope_term', 'provider', 'signature']
    if carrier == 'header':
        names.insert(3, 'syntax')
    if carrier == 'query':
        names.append('missing_date')
    return names


def classify(res):
    """(kind | 'ok', concrete message prefix bytes)."""
    o = outcome(res)
    if o[0] == 'ok':
        return 'ok', b''
    e = o[2]
    msg = b''
    try:
        f = e.fields[0] if isinstance(e, Adt) and e.fields else None
        if isinstance(f, Adt):
            f = f.fields[0] if f.fields else None
        if f is not None and hasattr(f, 'elems'):
            out = bytearray()
            for x in f.elems[:48]:
                if x.sym:
                    break
                out.append(x.v)
            msg = bytes(out)
    except Exception:
        pass
    return o[1], msg
