//! K5 — `SignatureError` variant → (`error_code()`, `http_status()`) table
//! (`/repo/src/error.rs`), through the public `ServiceError` trait.
//!
//! All 12 variants are constructed: the ten `String` variants with `String::new()`,
//! `SignatureDoesNotMatch` with both `None` and `Some(String::new())`, `IO` with
//! `io::Error::from(ErrorKind::Other)` (the allocation-free "simple" representation) and
//! `InternalServiceError` with a boxed zero-sized error (`KeyTooLongError`).
//!
//! Unwind bound: the only loop is the byte comparison in `str_is`, at most
//! `len("MissingAuthenticationToken") = 26` iterations: `unwind = 26 + 1`, rounded to 28.

use scratchstack_aws_signature::{errors::ServiceError, KeyTooLongError, SignatureError};
use std::error::Error;

/// `a == b` for strings, as an explicit loop (avoids the `memcmp` model).
fn str_is(a: &str, b: &str) -> bool {
    let (a, b) = (a.as_bytes(), b.as_bytes());
    if a.len() != b.len() {
        return false;
    }
    let mut i = 0;
    while i < a.len() {
        if a[i] != b[i] {
            return false;
        }
        i += 1;
    }
    true
}

fn check(e: SignatureError, code: &str, status: u16) {
    let got_code = e.error_code();
    let got_status = e.http_status().as_u16();
    assert!(str_is(got_code, code), "k5: error_code differs from the table");
    assert!(got_status == status, "k5: http_status differs from the table");
    assert!(!(got_status >= 200 && got_status < 300), "k5: an error maps to a 2xx status");
    assert!(got_status == 400 || got_status == 403 || got_status == 500, "k5: status outside {400,403,500}");
}

#[kani::proof]
#[kani::unwind(28)]
fn k5_error_table() {
    let s = String::new;

    // 400
    check(SignatureError::IncompleteSignature(s()), "IncompleteSignature", 400);
    check(SignatureError::InvalidBodyEncoding(s()), "InvalidBodyEncoding", 400);
    check(SignatureError::InvalidRequestMethod(s()), "InvalidRequestMethod", 400);
    check(SignatureError::InvalidURIPath(s()), "InvalidURIPath", 400);
    check(SignatureError::MalformedQueryString(s()), "MalformedQueryString", 400);
    check(SignatureError::MissingAuthenticationToken(s()), "MissingAuthenticationToken", 400);

    // 500
    check(SignatureError::IO(std::io::Error::from(std::io::ErrorKind::Other)), "InternalFailure", 500);
    let boxed: Box<dyn Error + Send + Sync> = Box::new(KeyTooLongError);
    check(SignatureError::InternalServiceError(boxed), "InternalFailure", 500);

    // 403
    check(SignatureError::ExpiredToken(s()), "ExpiredToken", 403);
    check(SignatureError::InvalidClientTokenId(s()), "InvalidClientTokenId", 403);
    check(SignatureError::InvalidContentType(s()), "InvalidContentType", 403);
    check(SignatureError::SignatureDoesNotMatch(None), "SignatureDoesNotMatch", 403);
    check(SignatureError::SignatureDoesNotMatch(Some(s())), "SignatureDoesNotMatch", 403);

    // The `From<Box<dyn Error>>` conversion keeps the kind of a boxed SignatureError and wraps
    // anything else as InternalServiceError.
    let foreign: Box<dyn Error + Send + Sync> = Box::new(KeyTooLongError);
    check(SignatureError::from(foreign), "InternalFailure", 500);

    kani::cover!(true, "k5: end of table reached");
    // A symbolic selector shows that the comparison helper can fail (the asserts above are not
    // trivially true because `str_is` always answers true).
    let pick: bool = kani::any();
    let probe = if pick { SignatureError::ExpiredToken(s()) } else { SignatureError::InvalidURIPath(s()) };
    let is_expired = str_is(probe.error_code(), "ExpiredToken");
    assert!(is_expired == pick, "k5: str_is distinguishes codes");
    kani::cover!(is_expired, "k5: probe is ExpiredToken");
    kani::cover!(!is_expired, "k5: probe is not ExpiredToken");
}
