"""Shared harness machinery: shape-parallel exploration, replay, known findings, evidence."""
import json
import multiprocessing as mp
import os
import subprocess
import sys
import time
import traceback

import z3

sys.path.insert(0, os.path.dirname(os.path.dirname(os.path.abspath(__file__))))

from mirse import engine                              # noqa: E402
from mirse.values import *                            # noqa: E402,F401
from mirse.interp import zand, zor, znot, zb, Infeasible   # noqa: E402,F401
from mirse.lib_std import elems_of, concrete_bytes, bytes_eq, bytes_lt   # noqa: E402,F401

VERIF = os.path.dirname(os.path.dirname(os.path.abspath(__file__)))
REPO = engine.REPO
CACHE = engine.CACHE
NPROC = int(os.environ.get('VERIF_JOBS', '16'))


# --------------------------------------------------------------------------- symbols

def sym_bytes(ctx, name, n):
    return [Int('u8', ctx.fresh_bv('%s%d' % (name, i), 8)) for i in range(n)]


def conc_bytes(data):
    if isinstance(data, str):
        data = data.encode('utf-8')
    return [Int('u8', b) for b in data]


def mk_str(elems):
    """&str fat pointer over a fresh buffer holding `elems`."""
    buf = VecObj(list(elems), 'string')
    return Ptr(buf, (), ('str', 0, len(elems)))


def mk_slice(elems):
    buf = VecObj(list(elems), 'vec')
    return Ptr(buf, (), ('slice', 0, len(elems)))


def model_bytes(model, elems):
    out = bytearray()
    for e in elems:
        if e.sym:
            v = model.eval(e.v, model_completion=True)
            out.append(v.as_long())
        else:
            out.append(e.v)
    return bytes(out)


def model_int(model, iv):
    if isinstance(iv, Int):
        if not iv.sym:
            return iv.v
        return wrap(iv.ty, model.eval(iv.v, model_completion=True).as_long())
    if isinstance(iv, bool):
        return iv
    v = model.eval(iv, model_completion=True)
    if z3.is_bool(v):
        return z3.is_true(v)
    return v.as_long()


class RefCtx:
    """Concrete stand-in for Ctx so reference models can run on concrete data."""

    def branch(self, c):
        if isinstance(c, bool):
            return c
        c = z3.simplify(c)
        if z3.is_true(c):
            return True
        if z3.is_false(c):
            return False
        raise Unsupported('symbolic condition in concrete reference run')


# --------------------------------------------------------------------------- native replay

class Replay:
    """Line-mode client of the native replay binary (rebuilt from /repo's working tree)."""

    _built = False

    def __init__(self):
        self.proc = None

    @classmethod
    def build(cls):
        if cls._built:
            return
        t = time.time()
        r = subprocess.run(['bash', os.path.join(VERIF, 'replay', 'build.sh')], stdout=subprocess.PIPE,
                           stderr=subprocess.PIPE)
        if r.returncode != 0:
            sys.stderr.write(r.stderr.decode('utf-8', 'replace')[-3000:])
            raise RuntimeError('replay binary build failed')
        cls.binary = r.stdout.decode().strip().split('\n')[-1]
        cls.build_s = round(time.time() - t, 2)
        cls._built = True

    def start(self):
        Replay.build()
        self.proc = subprocess.Popen([Replay.binary], stdin=subprocess.PIPE, stdout=subprocess.PIPE,
                                     stderr=subprocess.DEVNULL)

    def ask(self, cmd):
        if self.proc is None or self.proc.poll() is not None:
            self.start()
        self.proc.stdin.write((json.dumps(cmd) + '\n').encode())
        self.proc.stdin.flush()
        line = self.proc.stdout.readline()
        if not line:
            raise RuntimeError('replay binary died on %r' % (cmd,))
        return json.loads(line)

    def ask_many(self, cmds):
        """Batch: write everything, then read (binary answers in order)."""
        if self.proc is None or self.proc.poll() is not None:
            self.start()
        out = []
        CH = 200
        for i in range(0, len(cmds), CH):
            chunk = cmds[i:i + CH]
            self.proc.stdin.write(('\n'.join(json.dumps(c) for c in chunk) + '\n').encode())
            self.proc.stdin.flush()
            for _ in chunk:
                out.append(json.loads(self.proc.stdout.readline()))
        return out

    def close(self):
        if self.proc is not None:
            try:
                self.proc.stdin.close()
                self.proc.wait(timeout=5)
            except Exception:
                self.proc.kill()
            self.proc = None


# --------------------------------------------------------------------------- known findings

def load_known_findings(prop):
    p = os.path.join(VERIF, 'known_findings.json')
    if not os.path.exists(p):
        return []
    data = json.load(open(p))
    return [f for f in data.get('findings', []) if f.get('property') == prop and f.get('status', 'open') == 'open']


# --------------------------------------------------------------------------- shape-parallel driver

class Finding:
    """A property violation found on a path (picklable)."""

    def __init__(self, what, inp, detail=None, known=None, shape=None):
        self.what = what          # short description of the failed obligation
        self.inp = inp            # JSON-able concrete input reproducing it
        self.detail = detail
        self.known = known        # id of the known finding it falls under, or None
        self.shape = shape

    def to_json(self):
        return {'what': self.what, 'input': self.inp, 'detail': self.detail, 'known': self.known, 'shape': self.shape}


class ShapeResult:
    def __init__(self, shape):
        self.shape = shape
        self.stats = {}
        self.findings = []
        self.inconclusive = []
        self.witnesses = set()
        self.samples = []
        self.obligations = 0
        self.wall = 0.0


_WORK = {}


def _worker(args):
    modname, shape, tier, seed = args
    mod = sys.modules.get(modname) or __import__(modname, fromlist=['x'])
    res = ShapeResult(shape)
    t = time.time()
    try:
        prog, _ = engine.load_program(deps=getattr(mod, 'DEPS', ()))
        mod.run_shape(prog, shape, tier, seed, res)
    except Unsupported as e:
        res.inconclusive.append('%s: %s' % (shape, e))
    except Exception as e:
        res.inconclusive.append('%s: internal error %r at %s' % (shape, e, ' <- '.join(l.strip() for l in traceback.format_exc().splitlines()[-6:-1] if l.strip().startswith('File'))))
    res.wall = time.time() - t
    st = res.stats
    for k in ('fns', 'summaries'):
        if k in st:
            st[k] = sorted(st[k])
    return res


def run_shapes(modname, shapes, tier, seed, jobs=NPROC, progress=True):
    """Run `run_shape` of module `modname` over all shapes in a process pool."""
    # make sure the MIR is dumped once, before forking
    engine.load_program(deps=getattr(sys.modules.get(modname), 'DEPS', ()))
    args = [(modname, s, tier, seed) for s in shapes]
    results = []
    t0 = time.time()
    if jobs <= 1 or len(args) <= 1:
        for a in args:
            results.append(_worker(a))
    else:
        with mp.get_context('fork').Pool(min(jobs, len(args))) as pool:
            for i, r in enumerate(pool.imap_unordered(_worker, args, chunksize=1)):
                results.append(r)
                if progress and (i + 1) % max(1, len(args) // 10) == 0:
                    sys.stderr.write('  [%s] %d/%d shapes, %.0fs\n' % (modname, i + 1, len(args), time.time() - t0))
    return results


def merge_stats(results):
    tot = {}
    fns, sums = set(), set()
    for r in results:
        for k, v in r.stats.items():
            if k == 'fns':
                fns.update(v)
            elif k == 'summaries':
                sums.update(v)
            elif isinstance(v, (int, float)):
                tot[k] = tot.get(k, 0) + v
    tot['fns'] = sorted(fns)
    tot['summaries'] = sorted(sums)
    return tot


# --------------------------------------------------------------------------- evidence / exit protocol

def write_evidence(prop, tier, seed, t0, coverage, assumptions, violations, extra=None):
    evdir = os.environ.get('VERIF_EVIDENCE_DIR') or os.path.join(VERIF, 'evidence')
    os.makedirs(evdir, exist_ok=True)
    ev = {
        'property_id': prop,
        'tier': tier,
        'seed': seed,
        'level': 'model_checking',
        'coverage': coverage,
        'assumptions': assumptions,
        'wall_s': round(time.time() - t0, 2),
        'violations': violations,
    }
    if extra:
        ev.update(extra)
    path = os.path.join(evdir, prop + '.json')
    tmp = path + '.tmp'
    with open(tmp, 'w') as f:
        json.dump(ev, f, indent=1, sort_keys=True, default=str)
    os.replace(tmp, path)
    return path


def write_replay_file(prop, finding):
    d = os.path.join(CACHE, 'violations')
    os.makedirs(d, exist_ok=True)
    path = os.path.join(d, '%s-%d.json' % (prop, int(time.time() * 1000) % 10 ** 9))
    with open(path, 'w') as f:
        json.dump({'property': prop, 'finding': finding.to_json()}, f, indent=1, default=str)
    return path


def tier_and_seed(argv):
    tier = os.environ.get('VERIF_TIER', 'quick')
    for i, a in enumerate(argv):
        if a == '--tier' and i + 1 < len(argv):
            tier = argv[i + 1]
    if tier not in ('quick', 'thorough'):
        tier = 'quick'
    try:
        seed = int(os.environ.get('VERIF_SEED', '0'))
    except ValueError:
        seed = 0
    return tier, seed


# --------------------------------------------------------------------------- generic check driver

def run_check(spec, argv):
    """Exit protocol wrapper: any unexpected exception of the machinery itself is an inconclusive run (exit 2), never exit 1."""
    try:
        return _run_check(spec, argv)
    except (Unsupported, Exception) as e:
        tb = traceback.format_exc().strip().splitlines()
        print('INCONCLUSIVE property=%s internal error: %r' % (spec.PROP, e))
        print('  ' + ' <- '.join(l.strip() for l in tb[-8:] if l.strip().startswith('File'))[:900])
        return 2


def _run_check(spec, argv):
    """Drive one property check.  `spec` is a module providing PROP, shapes(tier, seed),
    run_shape(prog, shape, tier, seed, res), conformance(prog, rp, seed, tier) -> (n, mismatches),
    replay_finding(rp, finding) -> (reproduced, detail), describe(finding), bounds(tier), OUTSIDE,
    NEED_WITNESSES, ASSUMPTIONS and optionally extra_checks(tier, seed, rp) -> dict."""
    PROP = spec.PROP
    if '--replay' in argv:
        # replay a recorded violation against the natively compiled crate of /repo's current working tree
        path = argv[argv.index('--replay') + 1]
        rec = json.load(open(path))
        fj = rec['finding']
        f = Finding(fj['what'], fj['input'], fj.get('detail'), fj.get('known'), fj.get('shape'))
        rp = Replay()
        try:
            rep, detail = spec.replay_finding(rp, f)
        finally:
            rp.close()
        print('%s property=%s %s' % ('REPRODUCED' if rep else 'NOT-REPRODUCED', PROP, json.dumps(detail, default=str)[:1500]))
        return 1 if rep else 0
    tier, seed = tier_and_seed(argv)
    t0 = time.time()
    # second-opinion solvers on every N-th deciding (validity) query of each worker; MIRSE_CROSS_EVERY overrides, 0 disables
    from mirse import interp as _interp
    if 'MIRSE_CROSS_EVERY' not in os.environ:
        _interp.CROSS_EVERY = 40 if tier == 'quick' else 15
    prog, mir_info = engine.load_program(deps=getattr(spec, 'DEPS', ()))
    rp = Replay()
    try:
        ncases, mism = spec.conformance(prog, rp, seed, tier)
    except Unsupported as e:
        ncases, mism = 0, [{'unsupported': str(e)[:500]}]
    if mism:
        print('INCONCLUSIVE property=%s conformance mismatch between MIRSE and native code: %s' % (
            PROP, json.dumps(mism[:3], default=str)))
        write_evidence(PROP, tier, seed, t0, {'evaluations': max(ncases, 1), 'distinct_nontrivial': 2, 'states': 1,
                                              'transitions': 1, 'traces_validated_against_impl': ncases,
                                              'samples': mism[:3], 'explanation': 'conformance mismatch: run is inconclusive'},
                       [], 0, {'inconclusive': mism[:10]})
        rp.close()
        return 2
    extra = {}
    extra_status = 0
    extra_lines = []
    if hasattr(spec, 'extra_checks'):
        extra = spec.extra_checks(tier, seed, rp) or {}
        extra_status = extra.pop('status', 0)
        extra_lines = extra.pop('lines', [])
    sh = spec.shapes(tier, seed)
    results = run_shapes(spec.__name__, sh, tier, seed)
    stats = merge_stats(results)
    inconclusive = [x for r in results for x in r.inconclusive]
    findings = [f for r in results for f in r.findings]
    witnesses = set()
    for r in results:
        witnesses |= r.witnesses
    samples = [s for r in results for s in r.samples][:12]
    obligations = sum(r.obligations for r in results)

    confirmed, known_lines, unconfirmed = [], {}, []
    seen = set()
    for f in findings:
        key = json.dumps([f.what.split(':')[0], f.inp], sort_keys=True, default=str)
        if key in seen:
            continue
        seen.add(key)
        try:
            rep, detail = spec.replay_finding(rp, f)
        except Exception as e:
            rep, detail = False, {'replay_error': repr(e)}
        f.detail = detail
        if not rep:
            unconfirmed.append(f)
        elif f.known:
            known_lines.setdefault(f.known, f)
        else:
            confirmed.append(f)
    rp.close()

    missing = set(spec.NEED_WITNESSES) - witnesses
    coverage = {
        'states': max(1, int(stats.get('paths', 0))),
        'transitions': max(1, int(stats.get('steps', 0))),
        'traces_validated_against_impl': ncases,
        'samples': samples or [{'note': 'no sample recorded'}],
        'obligations': obligations,
        'discharged': obligations - len(findings),
        'shapes': len(sh),
        'solver_queries': int(stats.get('queries', 0)),
        'validity_queries': int(stats.get('validity_queries', 0)),
        'solver_s': round(stats.get('solver_s', 0.0), 2),
        'forks': int(stats.get('forks', 0)),
        'merged_calls': int(stats.get('merged_calls', 0)),
        'functions_encoded': stats.get('fns', []),
        'summaries_used': stats.get('summaries', []),
        'bounds': spec.bounds(tier),
        'outside': spec.OUTSIDE,
        'witnesses': sorted(witnesses),
        'mir': mir_info,
        'exhaustive': False,
        'known_findings_hit': sorted(known_lines),
        # second-opinion solvers on sampled deciding queries (MIRSE_CROSS_EVERY=N: every N-th validity query per worker)
        'cross_solver': {k[6:]: (round(v, 2) if isinstance(v, float) else v) for k, v in stats.items() if k.startswith('cross_')} or
                        {'enabled': False},
    }
    coverage.update(extra)
    assumptions = ['the nightly MIR (-Zunpretty=mir, overflow checks on) of /repo\'s working tree is what is executed; '
                   'rustc stable vs nightly share the front end',
                   'std/alloc and dependency summaries in /verif/mirse (validated by the conformance run against the '
                   'natively compiled crate: %d inputs, 0 mismatches)' % ncases] + list(spec.ASSUMPTIONS)
    status = 0
    for kid, f in sorted(known_lines.items()):
        print('KNOWN-FINDING: property=%s %s (%s)' % (PROP, kid, spec.describe(f)))
    for ln in extra_lines:
        print(ln)
    if confirmed:
        f = confirmed[0]
        path = write_replay_file(PROP, f)
        print('VIOLATION property=%s replay=%s' % (PROP, path))
        for g in confirmed[:5]:
            print('  %s: %s' % (g.what, spec.describe(g)))
        status = 1
    elif extra_status == 1:
        status = 1
    elif unconfirmed or inconclusive or missing or extra_status == 2:
        print('INCONCLUSIVE property=%s unconfirmed=%d unsupported=%d missing_witnesses=%s' % (
            PROP, len(unconfirmed), len(inconclusive), sorted(missing)))
        for x in inconclusive[:6]:
            print('  ' + x[:600])
        for f in unconfirmed[:5]:
            print('  unconfirmed (model not reproduced natively): %s %s' % (f.what, spec.describe(f)))
        status = 2
    write_evidence(PROP, tier, seed, t0, coverage, assumptions, len(confirmed),
                   {'inconclusive': inconclusive[:20], 'unconfirmed': [f.to_json() for f in unconfirmed[:20]]})
    if status == 0:
        print('OK property=%s tier=%s paths=%d obligations=%d shapes=%d wall=%.0fs' % (
            PROP, tier, coverage['states'], obligations, len(sh), time.time() - t0))
    return status
