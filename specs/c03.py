"""C03 — the credential scope binds the signature to this server's region, service and date.

Decided by MIRSE on `SigV4Authenticator::validate_signature` (MIR of prevalidate, get_signing_key, the
coroutine wrappers) with a recording provider.  The credential is a '/'-joined list of k symbolic parts
(k = 1..7, lengths around the expected ones), server region/service are symbolic strings, the request
instant is symbolic (civil fields, years 1-9999) and the presented signature is the reference signature
*for the presented scope* under the provider's key, so a scope mismatch cannot hide behind a wrong
signature.  Per path z3 proves: Ok => exactly five parts, region/service/terminator byte-equal, date =
UTC YYYYMMDD of the instant; k != 5 => IncompleteSignature; k = 5 and any mismatch =>
SignatureDoesNotMatch with zero provider calls; provider called => arguments are (part 0, token, UTC
date, server region, server service).
"""
import itertools
import json
import random
import sys

import z3

from .common import *
from .pipeline import *
from .c04 import mk_auth
from mirse import engine
from mirse import model_chrono as C
from mirse import model_async as A
from mirse.model_hash import oracle_of
from mirse.model_misc import hex_encode_elems

PROP = 'C03'
TERM = b'aws4_request'


def shapes(tier, seed):
    out = []
    q = tier == 'quick'
    rs = [(1, 1), (2, 1), (0, 2)] if q else [(0, 1), (1, 1), (2, 1), (1, 2), (3, 2), (0, 2)]
    for Lr, Ls in rs:
        base = (2, 8, Lr, Ls, 12)
        cand = {base}
        # vary one field at a time: shorter, longer, empty
        for i in range(5):
            for nl in {max(base[i] - 1, 0), base[i] + 1, 0}:
                c = list(base)
                c[i] = nl
                cand.add(tuple(c))
        if not q:
            for i, j in itertools.combinations(range(1, 5), 2):
                c = list(base)
                c[i] += 1
                c[j] = max(c[j] - 1, 0)
                cand.add(tuple(c))
        for lens in sorted(cand):
            # token: absent, two symbolic bytes, the empty string (Some("") is a token, not the absence of one), one byte
            for token in ((False, True, 0, 1) if lens == base else (False,)):
                out.append(('five', Lr, Ls, lens, token))
        # other arities
        for k in (1, 2, 3, 4, 6, 7):
            lens = tuple(([2, 8, Lr, Ls, 12, 1, 1])[:k])
            out.append(('arity', Lr, Ls, lens, False))
        out.append(('arity', Lr, Ls, (0,), False))
    return out


def run_shape(prog, shape, tier, seed, res):
    kind, Lr, Ls, lens, token = shape

    def body(m, ctx):
        y, mo, d, h, mi, s = [ctx.fresh_bv(n, 32) for n in ('y', 'mo', 'd', 'h', 'mi', 's')]
        ctx.assume(z3.And(y >= 1, y <= 9999, C.valid_ymd(y, mo, d), z3.ULT(h, 24), z3.ULT(mi, 60), z3.ULT(s, 60)))
        req_dt = C.from_civil(y, mo, d, h, mi, s, 0, 0)
        # the server clock is anywhere inside the window, hence possibly on another UTC day than the request
        delta = ctx.fresh_bv('delta', 32)
        ctx.assume(z3.And(delta >= -900, delta <= 900))
        srv_dt = C.DateTime(z3.simplify(req_dt.secs + z3.SignExt(32, delta)), 0, C.shift_civil(req_dt.civil, delta), 0)
        region = sym_bytes(ctx, 'R', Lr)
        service = sym_bytes(ctx, 'S', Ls)
        for e in region + service:
            ctx.assume(z3.ULT(e.v, 0x80))
        parts = []
        for j, ln in enumerate(lens):
            p = sym_bytes(ctx, 'c%d_' % j, ln)
            for e in p:
                ctx.assume(z3.And(z3.ULT(e.v, 0x80), e.v != 0x2F))
            parts.append(p)
        cred = []
        for j, p in enumerate(parts):
            if j:
                cred.append(Int('u8', 0x2F))
            cred += p
        key = sym_bytes(ctx, 'key', 32)
        tok = None if token is False else sym_bytes(ctx, 'tok', 2 if token is True else token)
        # reference signature for the *presented* scope under the provider's key
        o = oracle_of(m)
        scope = cred[len(parts[0]) + 1:] if len(parts) > 1 else []
        sts = ref_string_to_sign(compact_ts(req_dt.civil), scope, hex_encode_elems([Int('u8', 0xAB)] * 32))
        sig = hex_encode_elems(o.digest(m, 'hmac', list(key), sts).out)
        prov = provider_ok(key)
        auth = mk_auth(cred, req_dt, sig)
        if tok is not None:
            auth.fields[2] = some(VecObj(list(tok), 'string'))
        fut = m.call('SigV4Authenticator::validate_signature',
                     [Ptr(Cell(auth), ()), mk_str(region), mk_str(service), srv_dt, C.TimeDelta(900), Ptr(Cell(prov), (), None, True)], None)
        r, polls = A.block_on(m, fut)
        return (req_dt, region, service, parts, tok, r, prov, delta)

    def on_path(pr):
        ctx = pr.ctx
        res.obligations += 1
        if pr.kind == 'panic':
            res.findings.append(Finding('panic: %s' % pr.value.msg, {'shape': repr(shape)}, None, None, repr(shape)))
            return
        req_dt, region, service, parts, tok, r, prov, delta = pr.value
        o = outcome(r)
        k = len(parts)

        def fail(what, prop=None):
            sat, model = ctx.satisfiable(z3.Not(prop) if prop is not None else None)
            if not sat:
                return
            civ = [model.eval(v, model_completion=True).as_long() for v in req_dt.civil]
            inp = {'credential': '/'.join(model_bytes(model, p).decode('latin-1') for p in parts), 'region': model_bytes(model, region).decode('latin-1'),
                   'service': model_bytes(model, service).decode('latin-1'), 'instant': civ,
                   'server_delta': model.eval(delta, model_completion=True).as_signed_long(),
                   'token': model_bytes(model, tok).decode('latin-1') if tok is not None else None}
            res.findings.append(Finding(what, inp, None, None, repr(shape)))
        if k == 5:
            scope_ok = zand(bytes_eq(parts[2], region), bytes_eq(parts[3], service), bytes_eq(parts[4], conc_bytes(TERM)),
                            bytes_eq(parts[1], date8(req_dt.civil)))
        else:
            scope_ok = False
        ncalls = len(prov.calls)
        if o[0] == 'ok':
            res.witnesses.add('ok')
            if k != 5:
                fail('accepted a credential with %d parts' % k)
                return
            okv, _ = ctx.valid(zb(scope_ok))
            if not okv:
                fail('accepted although region/service/terminator/date of the credential do not all match', zb(scope_ok))
            if ncalls != 1:
                fail('accepted with %d provider calls' % ncalls)
        else:
            res.witnesses.add('err:' + o[1])
            if k != 5:
                if o[1] != 'IncompleteSignature':
                    fail('credential with %d parts refused as %s, expected IncompleteSignature' % (k, o[1]))
                if ncalls:
                    fail('provider consulted for a credential with %d parts' % k)
            else:
                if o[1] != 'SignatureDoesNotMatch':
                    fail('five-part credential refused as %s, expected SignatureDoesNotMatch' % o[1])
                    return
                if ncalls == 0:
                    # refused before key lookup: must be a genuine scope mismatch
                    okv, _ = ctx.valid(z3.Not(zb(scope_ok)))
                    if not okv:
                        fail('matching scope refused before the key lookup', z3.Not(zb(scope_ok)))
                else:
                    # refused after key lookup although the signature is the reference signature for this scope
                    fail('correctly signed request with matching scope refused after the key lookup')
        if ncalls:
            res.witnesses.add('provider-called')
            okv, _ = ctx.valid(zb(scope_ok))
            if not okv:
                fail('key provider consulted although the credential scope does not match (probe for foreign scopes)', zb(scope_ok))
            rq = request_record(None, prov.calls[0])
            ak = rq['access_key'].elems
            props = [bytes_eq(ak, parts[0]) if len(ak) == len(parts[0]) else False,
                     bytes_eq(rq['region'].elems, region) if len(rq['region'].elems) == len(region) else False,
                     bytes_eq(rq['service'].elems, service) if len(rq['service'].elems) == len(service) else False]
            dt = rq['request_date']
            props.append(z3.And(dt.y == req_dt.civil[0], dt.mo == req_dt.civil[1], dt.d == req_dt.civil[2]))
            st = rq['session_token']
            if tok is None:
                props.append(st.variant == 'None')
            else:
                props.append(st.variant == 'Some' and bytes_eq(st.fields[0].elems, tok))
            okv, _ = ctx.valid(zb(zand(*props)))
            if not okv:
                fail('provider asked for a different (access key, token, date, region, service) than the request carries', zb(zand(*props)))
        if len(res.samples) < 1:
            sat, model = ctx.satisfiable()
            res.samples.append({'credential': '/'.join(model_bytes(model, p).decode('latin-1') for p in parts), 'outcome': o[0] if o[0] == 'ok' else o[1]})

    engine.explore(prog, body, on_path, stats=res.stats)


# --------------------------------------------------------------------------- concrete side

import datetime
import hashlib
import hmac as pyhmac


def native_case(rp, cred, region, service, civ, token, sig=None, server_delta=0):
    y, mo, d, h, mi, s = civ
    secs = int((datetime.datetime(max(y, 1), mo, d, h, mi, s) - datetime.datetime(1970, 1, 1)).total_seconds())
    if sig is None:
        scope = cred.split('/', 1)[1] if '/' in cred else ''
        sts = ('AWS4-HMAC-SHA256\n%04d%02d%02dT%02d%02d%02dZ\n%s\n%s' % (y, mo, d, h, mi, s, scope, 'ab' * 32)).encode('latin-1')
        sig = pyhmac.new(bytes(32), sts, hashlib.sha256).hexdigest()
    r = rp.ask({'op': 'authenticator', 'canonical_request_sha256': 'ab' * 32, 'credential': cred, 'session_token': token, 'signature': sig,
                'timestamp': {'secs': secs, 'nanos': 0}, 'call': 'validate_signature', 'region': region, 'service': service,
                'server_time': {'secs': secs + server_delta, 'nanos': 0}, 'mismatch_secs': 900, 'mismatch_nanos': 0,
                'provider': {'result': {'signing_key_hex': '00' * 32}}, 'log_level': 'off'})
    res = r.get('result', {})
    calls = r.get('provider', {}).get('calls', [])
    if 'ok' in res:
        return ('ok', calls)
    if 'err' in res:
        return (res['err']['kind'], calls)
    return ('panic', json.dumps(res)[:200])


def ref_case(cred, region, service, civ):
    parts = cred.split('/')
    if len(parts) != 5:
        return 'IncompleteSignature'
    y, mo, d = civ[:3]
    if parts[2] == region and parts[3] == service and parts[4] == 'aws4_request' and parts[1] == '%04d%02d%02d' % (y, mo, d):
        return 'ok'
    return 'SignatureDoesNotMatch'


def replay_finding(rp, f):
    inp = f.inp
    if 'credential' not in inp:
        return False, None
    nat = native_case(rp, inp['credential'], inp['region'], inp['service'], inp['instant'], inp['token'], None, inp.get('server_delta', 0))
    ref = ref_case(inp['credential'], inp['region'], inp['service'], inp['instant'])
    bad = nat[0] != ref or (ref != 'ok' and len(nat[1]) != 0) or (ref == 'ok' and len(nat[1]) != 1)
    if not bad and ref == 'ok':
        c = nat[1][0]
        y, mo, d = inp['instant'][:3]
        bad = (c['access_key'] != inp['credential'].split('/')[0] or c['region'] != inp['region'] or c['service'] != inp['service']
               or c['date'] != [y, mo, d] or c.get('session_token') != inp['token'])
    return bad, {'native': nat, 'reference': ref}


def conformance(prog, rp, seed, tier):
    rnd = random.Random(seed)
    cases = [('AKID/20150830/us-east-1/service/aws4_request', 'us-east-1', 'service', [2015, 8, 30, 12, 36, 0], None),
             ('AKID/20150830/us-east-1/service/aws4_request', 'us-east-1', 'service', [2015, 8, 30, 12, 36, 0], 'tok'),
             ('AKID/20150830/us-east-1/service/aws4_request/x', 'us-east-1', 'service', [2015, 8, 30, 12, 36, 0], None),
             ('AKID/20150830/us-east-2/service/aws4_request', 'us-east-1', 'service', [2015, 8, 30, 12, 36, 0], None),
             ('AKID/20150831/us-east-1/service/aws4_request', 'us-east-1', 'service', [2015, 8, 30, 23, 59, 59], None),
             ('AKID/20150830/US-EAST-1/service/aws4_request', 'us-east-1', 'service', [2015, 8, 30, 12, 36, 0], None),
             ('/20150830//s/aws4_request', '', 's', [2015, 8, 30, 0, 0, 0], None), ('', 'r', 's', [2015, 8, 30, 0, 0, 0], None)]
    for _ in range(12 if tier == 'quick' else 100):
        y, mo, d = rnd.randint(1, 9999), rnd.randint(1, 12), rnd.randint(1, 28)
        region, service = rnd.choice(['r', 'eu', '']), rnd.choice(['s', 'iam'])
        parts = ['AK', '%04d%02d%02d' % (y, mo, rnd.choice([d, d, d % 28 + 1])), rnd.choice([region, region, region + 'x']),
                 rnd.choice([service, service, service[:-1]]), rnd.choice(['aws4_request', 'aws4_request', 'aws4_reques'])]
        if rnd.random() < 0.2:
            parts = parts[:rnd.randint(1, 4)]
        cases.append(('/'.join(parts), region, service, [y, mo, d, rnd.randint(0, 23), rnd.randint(0, 59), rnd.randint(0, 59)],
                      rnd.choice([None, 'tk'])))
    mism = []
    for cred, region, service, civ, token in cases:
        nat = native_case(rp, cred, region, service, civ, token)
        out = []

        def body(m, ctx):
            y, mo, d, h, mi, s = civ
            req_dt = C.from_civil(y, mo, d, h, mi, s, 0, 0)
            scope = cred.split('/', 1)[1] if '/' in cred else ''
            sts = ('AWS4-HMAC-SHA256\n%04d%02d%02dT%02d%02d%02dZ\n%s\n%s' % (y, mo, d, h, mi, s, scope, 'ab' * 32)).encode('latin-1')
            sig = pyhmac.new(bytes(32), sts, hashlib.sha256).hexdigest()
            prov = provider_ok(conc_bytes(bytes(32)))
            auth = mk_auth(conc_bytes(cred), req_dt, conc_bytes(sig))
            if token is not None:
                auth.fields[2] = some(mk_string(token))
            fut = m.call('SigV4Authenticator::validate_signature',
                         [Ptr(Cell(auth), ()), str_ptr(region), str_ptr(service), req_dt, C.TimeDelta(900), Ptr(Cell(prov), (), None, True)], None)
            r, _ = A.block_on(m, fut)
            return r, prov
        engine.explore(prog, body, out.append)
        pr = out[0]
        if pr.kind == 'panic':
            mine = ('panic', pr.value.msg)
        else:
            r, prov = pr.value
            o = outcome(r)
            calls = []
            for c in prov.calls:
                rq = request_record(None, c)
                dt = rq['request_date']
                calls.append({'access_key': bytes(e.v for e in rq['access_key'].elems).decode('latin-1'),
                              'date': [C.conc(dt.y), C.conc(dt.mo), C.conc(dt.d)],
                              'region': bytes(e.v for e in rq['region'].elems).decode('latin-1'),
                              'service': bytes(e.v for e in rq['service'].elems).decode('latin-1'),
                              'session_token': None if rq['session_token'].variant == 'None' else
                              bytes(e.v for e in rq['session_token'].fields[0].elems).decode('latin-1')})
            mine = ('ok' if o[0] == 'ok' else o[1], calls)
        if mine != nat:
            mism.append({'case': [cred, region, service, civ, token], 'mirse': mine, 'native': nat})
    return len(cases), mism


def describe(f):
    return '%s -> %s' % (json.dumps(f.inp), json.dumps(f.detail, default=str)[:400])


def bounds(tier):
    return ('credentials of 1..7 slash-separated symbolic ASCII parts; for five parts every single-field length variation (shorter, longer, empty) '
            'around (2, 8, |region|, |service|, 12)%s; server region/service symbolic ASCII strings of lengths %s; request instant every civil '
            'date-time of years 1-9999, server clock = request + delta with delta in [-900 s, +900 s] symbolic (so possibly on another UTC day); with and without session token; signature = reference signature for the presented scope' % (
                '' if tier == 'quick' else ' and pairwise variations', '{(1,1),(2,1),(0,2)}' if tier == 'quick' else 'up to (3,2)'))


OUTSIDE = 'regions/services longer than 3 bytes, non-ASCII bytes in the credential, access keys longer than 3 bytes'
NEED_WITNESSES = {'ok', 'err:IncompleteSignature', 'err:SignatureDoesNotMatch', 'provider-called'}
ASSUMPTIONS = ['HMAC-SHA256 as ideal hash; chrono formatting/date model as in C16 (Kani K3 backs constructors and date arithmetic)']


def main(argv):
    return run_check(sys.modules[__name__], argv)


if __name__ == '__main__':
    sys.exit(main(sys.argv))
