"""C14 — the key provider is consulted once, last, and its failures never authenticate.

Decided by MIRSE on the whole pipeline with the symbolic defect switches of specs/defects.py and a *scripted*
provider (mirse/model_async.Provider): poll_ready pending 0..2 times or failing, call returning a future that is
pending 0..2 times and then yields Ok(key), Err(SignatureError of several kinds) or a foreign error.  Per path:
 * `call` happens at most once and only after poll_ready returned Ready(Ok);
 * if any defect of rules 1-13 is switched on (z3: path condition implies it) the provider saw no poll_ready
   and no call; conversely a provider interaction implies (z3) that none of those switches is on;
 * provider Err(SignatureError e) => the caller gets e (same kind, same message); foreign error =>
   InternalServiceError; poll_ready errors likewise; no such path is Ok, whatever the signature;
 * a provider that never becomes ready / never answers never yields Ok;
 * histories: two validations in sequence on one provider instance (second one defective or not).
"""
import itertools
import json
import random
import sys

import z3

from .common import *
from .pipeline import *
from .defects import *
from mirse import engine
from mirse import model_async as A

PROP = 'C14'
ERR_KINDS = ['InvalidClientTokenId', 'ExpiredToken', 'SignatureDoesNotMatch', 'IncompleteSignature']
PRE_PROVIDER = ['path', 'query', 'algorithm', 'syntax', 'missing_credential', 'missing_signature', 'missing_signedheaders', 'missing_date',
                'host', 'required', 'date', 'expired', 'future', 'arity', 'arity_more', 'scope_date', 'scope_region', 'scope_service', 'scope_term']


def shapes(tier, seed):
    out = []
    q = tier == 'quick'
    pend = (0, 2) if q else (0, 1, 2)
    for carrier in ('header', 'query'):
        for p in pend:
            for qq in pend:
                out.append(('script', carrier, p, None, qq, 'ok'))
        for kind in (ERR_KINDS[:2] if q else ERR_KINDS):
            out.append(('script', carrier, 1, None, 1, 'err:' + kind))
            out.append(('script', carrier, 0, 'err:' + kind, 0, 'ok'))
        out.append(('script', carrier, 0, None, 2, 'foreign'))
        out.append(('script', carrier, 1, 'foreign', 0, 'ok'))
        # the provider's own infrastructure failure whose payload happens to be a SignatureError: returned unchanged (500), not unwrapped
        out.append(('script', carrier, 0, None, 1, 'wrapped:ExpiredToken'))
        out.append(('script', carrier, 0, 'wrapped:InvalidClientTokenId', 0, 'ok'))
        out.append(('script', carrier, 0, None, 10 ** 6, 'ok'))        # future never completes
        out.append(('script', carrier, 10 ** 6, None, 0, 'ok'))        # never ready
        out.append(('history', carrier, 'good-then-defective'))
        out.append(('history', carrier, 'error-then-good'))
    for carrier in ('none', 'both'):
        out.append(('script', carrier, 0, None, 0, 'ok'))
    return out


def mk_err(spec):
    if spec == 'foreign':
        return BoxObj(Opaque('foreign_error', 'backend down'), dyn='StringError')
    kind = spec.split(':', 1)[1]
    if spec.startswith('wrapped:'):
        inner = BoxObj(sig_error(kind, 'inner says ' + kind), dyn='SignatureError')
        return BoxObj(Adt('SignatureError', 'InternalServiceError', [inner]), dyn='SignatureError')
    return BoxObj(sig_error(kind, 'provider says ' + kind), dyn='SignatureError')


def block_on_bounded(m, fut, max_polls=12):
    try:
        return A.block_on(m, fut, max_polls)
    except Unsupported as e:
        if 'still pending' in str(e):
            return None, max_polls
        raise


def run_once(m, D, prov):
    request = D.req.build()
    fut = m.call(ENTRY, [request, str_ptr('us-east-1'), str_ptr('service'), Ptr(Cell(prov), (), None, True), D.server,
                         Ptr(Cell(D.reqs), ()), options()], None)
    return block_on_bounded(m, fut)


def run_shape(prog, shape, tier, seed, res):
    kind = shape[0]

    def mkflags(ctx, carrier, tag=''):
        flags = {}
        names = [n for n in flag_names(carrier if carrier in ('header', 'query') else 'header') if n != 'provider']
        for n in names:
            flags[n] = ctx.fresh_bool('f%s_%s' % (tag, n))
        ctx.assume(z3.Not(z3.And(flags['expired'], flags['future'])))
        return flags

    def body(m, ctx):
        if kind == 'script':
            _, carrier, p, rerr, qq, result = shape
            flags = mkflags(ctx, carrier)
            D = Defective(m, ctx, carrier, flags)
            if result == 'ok':
                rfun = lambda mm, rq: ok(key_response(conc_bytes(D.key)))
            else:
                e = mk_err(result)
                rfun = lambda mm, rq: err(e)
            prov = A.Provider(rfun, ready_pending=p, ready_err=mk_err(rerr) if rerr else None, future_pending=qq)
            r, polls = run_once(m, D, prov)
            return [(D, flags, r, prov, list(prov.events), rerr, result)]
        _, carrier, hist = shape
        runs = []
        if hist == 'good-then-defective':
            prov = A.Provider(lambda mm, rq: ok(key_response(conc_bytes(bytes(32)))), ready_pending=1, future_pending=1)
            f1 = {n: False for n in flag_names(carrier)}
            D1 = Defective(m, ctx, carrier, f1)
            r1, _ = run_once(m, D1, prov)
            ev1 = list(prov.events)
            f2 = mkflags(ctx, carrier, '2')
            D2 = Defective(m, ctx, carrier, f2)
            prov.ready_pending, prov.future_pending = 1, 0
            r2, _ = run_once(m, D2, prov)
            runs = [(D1, f1, r1, prov, ev1, None, 'ok'), (D2, f2, r2, prov, list(prov.events)[len(ev1):], None, 'ok')]
        else:
            e = mk_err('err:ExpiredToken')
            state = {'n': 0}

            def rfun(mm, rq):
                state['n'] += 1
                return err(e) if state['n'] == 1 else ok(key_response(conc_bytes(bytes(32))))
            prov = A.Provider(rfun)
            f1 = {n: False for n in flag_names(carrier)}
            D1 = Defective(m, ctx, carrier, f1)
            r1, _ = run_once(m, D1, prov)
            ev1 = list(prov.events)
            f2 = mkflags(ctx, carrier, '2')
            D2 = Defective(m, ctx, carrier, f2)
            r2, _ = run_once(m, D2, prov)
            runs = [(D1, f1, r1, prov, ev1, None, 'err:ExpiredToken'), (D2, f2, r2, prov, list(prov.events)[len(ev1):], None, 'ok')]
        return runs

    def on_path(pr):
        ctx = pr.ctx
        if pr.kind == 'panic':
            res.obligations += 1
            res.findings.append(Finding('panic: %s' % pr.value.msg, {'shape': repr(shape)}, None, None, repr(shape)))
            return
        for idx, (D, flags, r, prov, events, rerr, result) in enumerate(pr.value):
            res.obligations += 1

            def fail(what, prop=None):
                sat, model = ctx.satisfiable(None if prop is None else z3.Not(prop))
                if not sat:
                    return
                on = sorted(n for n, fl in flags.items() if fl is not False and z3.is_true(model.eval(zb(fl), model_completion=True)))
                res.findings.append(Finding(what, {'carrier': shape[1], 'script': list(shape[2:]), 'run': idx, 'defects': on, 'events': events,
                                                   'request': D.req.to_json(model)}, None, None, repr(shape)))
            ncall = sum(1 for e in events if e.startswith('call'))
            nready = sum(1 for e in events if e.startswith('poll_ready'))
            if ncall > 1:
                fail('provider called %d times in one validation' % ncall)
            if 'call-before-ready' in events:
                fail('provider called before poll_ready signalled readiness')
            pre = zor(*[zb(flags[n]) for n in PRE_PROVIDER if flags.get(n, False) is not False])
            if shape[1] in ('none', 'both'):
                pre = True
            if nready or ncall:
                res.witnesses.add('provider-consulted')
                okv, _ = ctx.valid(z3.Not(zb(pre)))
                if not okv:
                    fail('key provider consulted (%s) although the request fails an earlier structural / header / freshness / scope check' % events,
                         z3.Not(zb(pre)))
            else:
                res.witnesses.add('provider-untouched')
                okv, _ = ctx.valid(zb(pre))
                if not okv:
                    fail('request passing every pre-check never reached the key provider', zb(pre))
            if r is None:
                res.witnesses.add('pending-forever')
                continue
            kind_, msg = classify(r)
            if nready or ncall:
                expect_err = rerr or (result if result != 'ok' else None)
                never = shape[0] == 'script' and (shape[2] >= 10 ** 6 or shape[4] >= 10 ** 6)
                if expect_err:
                    if kind_ == 'ok':
                        fail('accepted although the provider failed (%s)' % expect_err)
                    elif expect_err == 'foreign':
                        if kind_ != 'InternalServiceError':
                            fail('foreign provider error surfaced as %s, expected InternalServiceError' % kind_)
                        else:
                            res.witnesses.add('foreign->InternalServiceError')
                    elif expect_err.startswith('wrapped:'):
                        if kind_ != 'InternalServiceError':
                            fail('provider error InternalServiceError(%s) returned as %s' % (expect_err.split(':', 1)[1], kind_))
                        else:
                            res.witnesses.add('provider-error-passed-through')
                    else:
                        ek = expect_err.split(':', 1)[1]
                        if kind_ != ek or not msg.startswith(b'provider says ' + ek.encode()):
                            fail('provider error %s returned as %s %r' % (ek, kind_, msg[:40]))
                        else:
                            res.witnesses.add('provider-error-passed-through')
                elif never and kind_ == 'ok':
                    fail('accepted although the provider never answered')
                elif kind_ == 'ok':
                    res.witnesses.add('ok')
                    sigf = flags.get('signature', False)
                    if sigf is not False:
                        okv, _ = ctx.valid(z3.Not(zb(sigf)))
                        if not okv:
                            fail('accepted with a wrong signature', z3.Not(zb(sigf)))
                    if events.count('call') != 1 or 'future:ready' not in events:
                        fail('accepted without exactly one completed provider call (%s)' % events)
            elif kind_ == 'ok':
                fail('accepted without consulting the key provider')
        if len(res.samples) < 1:
            res.samples.append({'shape': repr(shape), 'events': pr.value[0][4]})

    engine.explore(prog, body, on_path, stats=res.stats)


# --------------------------------------------------------------------------- concrete side

def native_script(rp, request_json, script, server=T0):
    _, carrier, p, rerr, qq, result = script

    def ne(spec):
        if spec == 'foreign':
            return {'foreign': 'backend down'}
        k = spec.split(':', 1)[1]
        if spec.startswith('wrapped:'):
            return {'sig': {'kind': 'InternalServiceError', 'msg': 'wrap:%s:inner says %s' % (k, k)}}
        return {'sig': {'kind': k, 'msg': 'provider says ' + k}}
    prov = {'ready_pending': min(p, 2000), 'ready_err': ne(rerr) if rerr else None, 'future_pending': min(qq, 2000),
            'result': {'signing_key_hex': '00' * 32} if result == 'ok' else {'err': ne(result)}}
    nat = native_validate(rp, request_json, 'us-east-1', 'service', server, provider=prov,
                          reqs={'kind': 'slice', 'always': ['X-Req'], 'if_in': [], 'prefixes': []})
    return nat


def replay_finding(rp, f):
    inp = f.inp
    if 'request' not in inp or inp.get('run', 0) != 0 or len(inp['script']) != 4:
        return False, {'note': 'history findings are replayed manually'}
    on = inp['defects']
    server = T0 + (1000 if 'expired' in on else -1000 if 'future' in on else 0)
    script = ('script', inp['carrier']) + tuple(inp['script'])
    nat = native_script(rp, inp['request'], script, server)
    if 'bad_input' in nat:
        return False, {'native': nat}
    res = nat.get('result', {})
    ev = nat.get('provider', {}).get('events', [])
    pre = bool(set(on) & set(PRE_PROVIDER)) or inp['carrier'] in ('none', 'both')
    consulted = bool(ev)
    bad = (pre and consulted) or (not pre and not consulted) or ev.count('call') > 1
    # a call that is not directly preceded by a successful readiness signal
    for i, e in enumerate(ev):
        if e == 'call' and (i == 0 or ev[i - 1] != 'poll_ready:ready'):
            bad = True
    provider_failed = script[3] is not None or script[5] != 'ok'
    if 'ok' in res and (provider_failed or 'signature' in on):
        bad = True
    if provider_failed and consulted and 'err' in res:
        spec = script[3] or script[5]
        want = 'InternalServiceError' if (spec == 'foreign' or spec.startswith('wrapped:')) else spec.split(':', 1)[1]
        if res['err']['kind'] != want:
            bad = True
    return bad, {'native_result': res.get('err', {}).get('kind', 'ok' if 'ok' in res else res), 'native_events': ev, 'pre_defect': pre}


def conformance(prog, rp, seed, tier):
    rnd = random.Random(seed)
    mism = []
    n = 0
    scripts = [s for s in shapes('quick', 0) if s[0] == 'script' and s[2] < 1000 and s[4] < 1000]
    for script in scripts:
        for on in ([], [rnd.choice(PRE_PROVIDER)], ['signature']):
            carrier = script[1]
            names = flag_names(carrier if carrier in ('header', 'query') else 'header')
            on = [x for x in on if x in names]
            n += 1
            out = []

            def body(m, ctx):
                flags = {nm: (z3.BoolVal(True) if nm in on else False) for nm in names if nm != 'provider'}
                D = Defective(m, ctx, carrier, flags)
                result = script[5]
                if result == 'ok':
                    rfun = lambda mm, rq: ok(key_response(conc_bytes(D.key)))
                else:
                    e = mk_err(result)
                    rfun = lambda mm, rq: err(e)
                prov = A.Provider(rfun, ready_pending=script[2], ready_err=mk_err(script[3]) if script[3] else None, future_pending=script[4])
                r, polls = run_once(m, D, prov)
                return classify(r), prov.events, D.req.to_json()
            engine.explore(prog, body, out.append)
            pr = out[0]
            if pr.kind == 'panic':
                mism.append({'script': script, 'on': on, 'mirse': 'panic ' + pr.value.msg})
                continue
            (kind_, msg), events, j = pr.value
            server = T0 + (1000 if 'expired' in on else -1000 if 'future' in on else 0)
            nat = native_script(rp, j, script, server)
            res = nat.get('result', {})
            nk = 'ok' if 'ok' in res else res.get('err', {}).get('kind', 'panic')
            nev = nat.get('provider', {}).get('events', [])
            # the native test provider does not label a premature call: compare modulo that label (the symbolic part reports it)
            if nk != kind_ or nev != [('call' if e == 'call-before-ready' else e) for e in events]:
                mism.append({'script': script, 'on': on, 'mirse': [kind_, events], 'native': [nk, nev]})
    return n, mism


def describe(f):
    return '%s -> %s' % (json.dumps({k: v for k, v in f.inp.items() if k != 'request'}), json.dumps(f.detail, default=str)[:400])


def bounds(tier):
    return ('both carriers (and the missing / duplicated carrier); every subset of the 18 pre-provider defect switches and the wrong-signature '
            'switch; provider scripts: poll_ready pending %s times, failing with %d SignatureError kinds or a foreign error, call future pending '
            '%s times, answering Ok / Err(kinds) / foreign error, never ready, never answering (12 polls); two-validation histories on one '
            'provider instance (good then any defect subset; provider error then any defect subset)' % (
                '{0,2}' if tier == 'quick' else '{0,1,2}', 2 if tier == 'quick' else 4, '{0,2}' if tier == 'quick' else '{0,1,2}'))


OUTSIDE = 'providers that panic; wakers (the harness polls eagerly); histories longer than two validations (the authenticator keeps no state: shown by C18)'
NEED_WITNESSES = {'ok', 'provider-consulted', 'provider-untouched', 'provider-error-passed-through', 'foreign->InternalServiceError', 'pending-forever'}
ASSUMPTIONS = ['tower::ServiceExt::oneshot modelled by its documented state machine (NotReady -> poll_ready* -> call once -> poll future*)']


def main(argv):
    return run_check(sys.modules[__name__], argv)


if __name__ == '__main__':
    sys.exit(main(sys.argv))
