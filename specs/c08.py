"""C08 — totality: no input makes any public operation panic.

Decided by MIRSE: overflow checks are compiled into the MIR, so every arithmetic overflow, bounds check,
`unwrap`/`expect`/`assert!` is an explicit assert terminator or a call to a panicking function, and a panic is
simply a path outcome.  The obligation on every feasible path of every shape is "the path does not end in a
panic".  Shapes: the whole pipeline with wide alphabets (arbitrary Authorization header bytes, parameter
lists, credentials, date strings through both carriers, content types and charset labels with folding on,
arbitrary path / query bytes, arbitrary X-Amz-* values), the public canonicalisers, the three derive-builders
with every subset of fields set, the error conversions, validate_signature on arbitrary credentials, key
derivation, and - by *contract* rather than by size - the URI rebuild after form folding, where
`http::uri::Builder::build` is modelled as "may return Err" (its documented behaviour for > 65534 bytes) and
the witness (a form body > 64 KiB) is constructed for the native replay.  Kani K1/K4 cover from_str and the
byte kernels on the compiled code.
"""
import itertools
import json
import random
import sys

import z3

from .common import *
from .pipeline import *
from . import refmodel as R
from mirse import engine
from mirse import model_chrono as C
from mirse import model_async as A
from mirse import model_misc
from . import kani_util

PROP = 'C08'
TS = '20150830T123600Z'
SCOPE = '20150830/us-east-1/service/aws4_request'
FORM = 'application/x-www-form-urlencoded'
GOOD_AUTHZ = 'AWS4-HMAC-SHA256 Credential=AKID/' + SCOPE + ', SignedHeaders=host;x-amz-date, Signature=' + '0' * 64


def shapes(tier, seed):
    q = tier == 'quick'
    out = []
    for n in range(0, (4 if q else 6)):
        out.append(('authz', n))
    for n in range(0, (4 if q else 5)):
        out.append(('authz-params', n))
    for n in range(0, (4 if q else 6)):
        out.append(('cred', 'header', n))
        out.append(('cred', 'query', n))
    for n in range(0, (5 if q else 7)):
        out.append(('date', 'header', n))
        out.append(('date', 'query', n))
        out.append(('date', 'date-header', n))
    # an authority-form request target (CONNECT host:port): a legal http::Uri without path-and-query
    out.append(('authority-form', 'header'))
    out.append(('authority-form', 'none'))
    # well-formed timestamps with long fractions (digit runs that overflow u32 / u64 / u128 when taken as one number)
    for n in ((10, 20, 40) if q else (10, 19, 20, 21, 39, 40, 64)):
        out.append(('date-frac', 'header', n))
        out.append(('date-frac', 'query', n))
    for n in range(0, (4 if q else 5)):
        out.append(('ctype', n))
    for n in range(0, (3 if q else 4)):
        out.append(('charset', n))
    labels = sorted(model_misc.whatwg_labels()) if model_misc.whatwg_labels() else ['utf-8']
    for i in range(0, len(labels), 8 if q else 1):
        out.append(('charset-label', labels[i]))
    for n in range(0, (4 if q else 5)):
        out.append(('path', n, False))
        out.append(('path', n, True))
        out.append(('query', n))
    for which in ('X-Amz-SignedHeaders', 'X-Amz-Signature', 'X-Amz-Security-Token', 'X-Amz-Algorithm'):
        for n in (0, 2, 3):
            out.append(('qvalue', which, n))
    for where in ('path', 'query', 'form'):
        for k in (0, 1, 2):
            out.append(('pct-utf8', where, k))
    out.append(('fold-contract',))
    out.append(('fold-body', 3))
    for b in ('SigV4AuthenticatorBuilder', 'GetSigningKeyRequestBuilder', 'GetSigningKeyResponseBuilder', 'SigV4AuthenticatorResponseBuilder'):
        out.append(('builder', b))
    out.append(('errors',))
    for fn in ('normalize_uri_path_component', 'normalize_query_string_element', 'query_string_to_normalized_map', 'latin1_to_string',
               'normalize_header_value', 'trim_ascii', 'unescape_after_normalize'):
        for n in range(0, (4 if q else 6)):
            out.append(('canon', fn, n))
    for n in range(0, 3):
        out.append(('authenticator', n))
    return out


def header_bytes(ctx, tag, n):
    es = []
    for i in range(n):
        b = ctx.fresh_bv('%s%d' % (tag, i), 8)
        ctx.assume(z3.Or(b == 0x09, z3.And(z3.UGE(b, 0x20), b != 0x7F)))
        es.append(Int('u8', b))
    return es


def uri_bytes(ctx, tag, n, query=False):
    es = []
    for i in range(n):
        b = ctx.fresh_bv('%s%d' % (tag, i), 8)
        c = z3.And(z3.UGT(b, 0x20), z3.ULT(b, 0x7F), b != 0x23, b != 0x3C, b != 0x3E, b != 0x22)
        if not query:
            c = z3.And(c, b != 0x3F, b != 0x60)
        ctx.assume(c)
        es.append(Int('u8', b))
    return es


def ascii_bytes(ctx, tag, n):
    es = sym_bytes(ctx, tag, n)
    for e in es:
        ctx.assume(z3.ULT(e.v, 0x80))
    return es


def run_shape(prog, shape, tier, seed, res):
    kind = shape[0]

    def pipeline(m, rq, opts=None, reqs=None):
        m.ctx.x_rq = (rq, opts)
        prov = provider_ok(conc_bytes(bytes(32)))
        r, _ = run(m, rq, 'us-east-1', 'service', prov, instant(T0), reqs, opts)
        return outcome(r)[0:2]

    def body(m, ctx):
        base = [('host', conc_bytes('h')), ('x-amz-date', conc_bytes(TS))]
        if kind == 'authz':
            rq = Req('GET', b'/', None, base + [('authorization', header_bytes(ctx, 'a', shape[1]))])
            return rq, pipeline(m, rq)
        if kind == 'authz-params':
            rq = Req('GET', b'/', None, base + [('authorization', conc_bytes('AWS4-HMAC-SHA256 ') + header_bytes(ctx, 'a', shape[1]))])
            return rq, pipeline(m, rq)
        if kind == 'cred':
            cred = header_bytes(ctx, 'c', shape[2]) if shape[1] == 'header' else uri_bytes(ctx, 'c', shape[2], True)
            if shape[1] == 'header':
                for e in cred:
                    ctx.assume(e.v != 0x2C)
                authz = conc_bytes('AWS4-HMAC-SHA256 Credential=') + cred + conc_bytes(', SignedHeaders=host;x-amz-date, Signature=' + '0' * 64)
                rq = Req('GET', b'/', None, base + [('authorization', authz)])
            else:
                for e in cred:
                    ctx.assume(e.v != 0x26)
                q = conc_bytes('X-Amz-Algorithm=AWS4-HMAC-SHA256&X-Amz-Credential=') + cred + conc_bytes(
                    '&X-Amz-Date=' + TS + '&X-Amz-SignedHeaders=host&X-Amz-Signature=' + '0' * 64)
                rq = Req('GET', b'/', q, [('host', conc_bytes('h'))])
            return rq, pipeline(m, rq)
        if kind == 'authority-form':
            hdrs = [('host', conc_bytes('example.com:443')), ('x-amz-date', conc_bytes(TS))]
            if shape[1] == 'header':
                hdrs.append(('authorization', conc_bytes(GOOD_AUTHZ)))
            rq = Req('CONNECT', b'', None, hdrs, sym_bytes(ctx, 'ab', 1), authority_form='example.com:443')
            return rq, pipeline(m, rq, options(bool(ctx.pick(2, 's3')), bool(ctx.pick(2, 'fold'))))
        if kind == 'date-frac':
            d = []
            for i in range(shape[2]):
                b = ctx.fresh_bv('fd%d' % i, 8)
                ctx.assume(z3.And(z3.UGE(b, 0x30), z3.ULE(b, 0x39)))
                d.append(Int('u8', b))
            text = conc_bytes('20150830T123600.') + d + conc_bytes('Z')
            if shape[1] == 'header':
                rq = Req('GET', b'/', None, [('host', conc_bytes('h')), ('x-amz-date', text), ('authorization', conc_bytes(GOOD_AUTHZ))])
            else:
                q = conc_bytes('X-Amz-Algorithm=AWS4-HMAC-SHA256&X-Amz-Credential=AKID%2F' + SCOPE.replace('/', '%2F') + '&X-Amz-Date=') + text + \
                    conc_bytes('&X-Amz-SignedHeaders=host&X-Amz-Signature=' + '0' * 64)
                rq = Req('GET', b'/', q, [('host', conc_bytes('h'))])
            return rq, pipeline(m, rq)
        if kind == 'date':
            if shape[1] == 'header':
                rq = Req('GET', b'/', None, [('host', conc_bytes('h')), ('x-amz-date', header_bytes(ctx, 'd', shape[2])),
                                             ('authorization', conc_bytes(GOOD_AUTHZ))])
            elif shape[1] == 'date-header':
                authz = GOOD_AUTHZ.replace('host;x-amz-date', 'date;host')
                rq = Req('GET', b'/', None, [('host', conc_bytes('h')), ('date', header_bytes(ctx, 'd', shape[2])),
                                             ('authorization', conc_bytes(authz))])
            else:
                d = uri_bytes(ctx, 'd', shape[2], True)
                for e in d:
                    ctx.assume(e.v != 0x26)
                q = conc_bytes('X-Amz-Algorithm=AWS4-HMAC-SHA256&X-Amz-Credential=AKID%2F' + SCOPE.replace('/', '%2F') + '&X-Amz-Date=') + d + \
                    conc_bytes('&X-Amz-SignedHeaders=host&X-Amz-Signature=' + '0' * 64)
                rq = Req('GET', b'/', q, [('host', conc_bytes('h'))])
            return rq, pipeline(m, rq)
        if kind in ('ctype', 'charset', 'charset-label'):
            if kind == 'ctype':
                ct = header_bytes(ctx, 't', shape[1])
            elif kind == 'charset':
                ct = conc_bytes(FORM + '; charset=') + header_bytes(ctx, 't', shape[1])
            else:
                ct = conc_bytes(FORM + ';charset=' + shape[1])
            bodyb = conc_bytes('a=1&b=%41') if kind != 'charset-label' else sym_bytes(ctx, 'bb', 2)
            rq = Req('POST', b'/', b'x=1', base + [('content-type', ct), ('authorization', conc_bytes(GOOD_AUTHZ))], bodyb)
            try:
                return rq, pipeline(m, rq, options(False, True))
            except Unsupported as e:
                if 'decoder' in str(e) and 'not modelled' in str(e):
                    return rq, ('dontcare', 'non-UTF-8 decoder (trusted not to panic)')
                raise
        if kind == 'path':
            rq = Req('GET', conc_bytes('/') + uri_bytes(ctx, 'p', shape[1]), None, base + [('authorization', conc_bytes(GOOD_AUTHZ))])
            return rq, pipeline(m, rq, options(shape[2], False))
        if kind == 'query':
            rq = Req('GET', b'/', uri_bytes(ctx, 'q', shape[1], True), base + [('authorization', conc_bytes(GOOD_AUTHZ))])
            return rq, pipeline(m, rq)
        if kind == 'qvalue':
            v = uri_bytes(ctx, 'v', shape[2], True)
            for e in v:
                ctx.assume(e.v != 0x26)
            parts = {'X-Amz-Algorithm': conc_bytes('AWS4-HMAC-SHA256'), 'X-Amz-Credential': conc_bytes('AKID%2F' + SCOPE.replace('/', '%2F')),
                     'X-Amz-Date': conc_bytes(TS), 'X-Amz-SignedHeaders': conc_bytes('host'), 'X-Amz-Signature': conc_bytes('0' * 64)}
            parts[shape[1]] = v
            q = []
            for n, val in parts.items():
                if q:
                    q.append(Int('u8', 0x26))
                q += conc_bytes(n + '=') + list(val)
            rq = Req('GET', b'/', q, [('host', conc_bytes('h'))])
            return rq, pipeline(m, rq)
        if kind == 'pct-utf8':
            # '%' + k hex digits + a 2-byte UTF-8 scalar + one more byte: malformed escapes around a non-ASCII character
            _, where, k = shape
            b0 = ctx.fresh_bv('u0', 8)
            b1 = ctx.fresh_bv('u1', 8)
            ctx.assume(z3.And(z3.UGE(b0, 0xC2), z3.ULE(b0, 0xDF), z3.UGE(b1, 0x80), z3.ULE(b1, 0xBF)))
            hexd = []
            for i in range(k):
                hb = ctx.fresh_bv('hx%d' % i, 8)
                ctx.assume(z3.Or(z3.And(z3.UGE(hb, 0x30), z3.ULE(hb, 0x39)), z3.And(z3.UGE(hb, 0x61), z3.ULE(hb, 0x66))))
                hexd.append(Int('u8', hb))
            tail = uri_bytes(ctx, 'tl', 1, True)
            for e in tail:
                ctx.assume(z3.And(e.v != 0x26, e.v != 0x3D))
            blob = conc_bytes('%') + hexd + [Int('u8', b0), Int('u8', b1)] + tail
            if where == 'path':
                rq = Req('GET', conc_bytes('/p') + blob, None, base + [('authorization', conc_bytes(GOOD_AUTHZ))])
                return rq, pipeline(m, rq)
            if where == 'query':
                rq = Req('GET', b'/', conc_bytes('k=') + blob, base + [('authorization', conc_bytes(GOOD_AUTHZ))])
                return rq, pipeline(m, rq)
            rq = Req('POST', b'/', None, base + [('content-type', conc_bytes(FORM)), ('authorization', conc_bytes(GOOD_AUTHZ))], conc_bytes('k=') + blob)
            return rq, pipeline(m, rq, options(False, True))
        if kind == 'fold-contract':
            m.x_uri_build_may_fail = True
            rq = Req('POST', b'/', b'x=1', base + [('content-type', conc_bytes(FORM)), ('authorization', conc_bytes(GOOD_AUTHZ))], b'a=1')
            return rq, pipeline(m, rq, options(False, True))
        if kind == 'fold-body':
            rq = Req('POST', b'/', None, base + [('content-type', conc_bytes(FORM)), ('authorization', conc_bytes(GOOD_AUTHZ))],
                     sym_bytes(ctx, 'fb', shape[1]))
            return rq, pipeline(m, rq, options(False, True))
        if kind == 'builder':
            name = shape[1]
            fields = {'SigV4AuthenticatorBuilder': 5, 'GetSigningKeyRequestBuilder': 5, 'GetSigningKeyResponseBuilder': 3,
                      'SigV4AuthenticatorResponseBuilder': 2}[name]
            b = m.call(name + '::create_empty', [], None)
            vals = {
                'SigV4AuthenticatorBuilder': [Array([Int('u8', 1)] * 32), mk_string('c'), some(mk_string('t')), mk_string('s'), instant(T0)],
                'GetSigningKeyRequestBuilder': [mk_string('a'), none(), C.NaiveDate(2015, 8, 30), mk_string('r'), mk_string('s')],
                'GetSigningKeyResponseBuilder': [PRINCIPAL, SESSION, Adt('KSigningKey', None, [Array([Int('u8', 0)] * 32)], ['key'])],
                'SigV4AuthenticatorResponseBuilder': [PRINCIPAL, SESSION],
            }[name]
            results = []
            # every subset of fields set: the subset is chosen by nondeterministic picks
            for i in range(fields):
                if ctx.pick(2, 'field') == 1:
                    b.fields[i] = some(vals[i])
            r = m.call(name + '::build', [Ptr(Cell(b), ())], None)
            return None, ('built', r.variant)
        if kind == 'errors':
            outs = []
            for k in ('InvalidClientTokenId', 'SignatureDoesNotMatch'):
                bx = BoxObj(sig_error(k), dyn='SignatureError')
                e = m.call('<SignatureError as From<Box<dyn Error + Send + Sync>>>::from', [bx], None)
                outs.append(e.variant)
            bx = BoxObj(Opaque('foreign_error', 'x'), dyn='StringError')
            e = m.call('<SignatureError as From<Box<dyn Error + Send + Sync>>>::from', [bx], None)
            outs.append(e.variant)
            e = m.call('<SignatureError as From<std::io::Error>>::from', [Opaque('io::Error', 'x')], None)
            outs.append(e.variant)
            for k in ('ExpiredToken', 'IO', 'InternalServiceError', 'InvalidBodyEncoding', 'SignatureDoesNotMatch'):
                v = e if k == 'IO' else Adt('SignatureError', 'InternalServiceError', [BoxObj(Opaque('foreign_error', 'x'))]) if k == 'InternalServiceError' \
                    else sig_error(k)
                m.call('SignatureError::error_code', [Ptr(Cell(v), ())], None)
                m.call('SignatureError::http_status', [Ptr(Cell(v), ())], None)
            return None, ('errors', outs)
        if kind == 'canon':
            fn, n = shape[1], shape[2]
            if fn in ('latin1_to_string', 'normalize_header_value', 'trim_ascii'):
                r = m.call(fn, [mk_slice(sym_bytes(ctx, 'x', n))], None)
                return None, ('canon', fn)
            es = ascii_bytes(ctx, 'x', n)
            if fn == 'unescape_after_normalize':
                r = m.call('normalize_query_string_element', [mk_str(es)], None)
                if r.variant == 'Ok':
                    m.call('unescape_uri_encoding', [Ptr(r.fields[0], (), ('str', 0, len(r.fields[0].elems)))], None)
                return None, ('canon', fn)
            r = m.call(fn, [mk_str(es)], None)
            if fn == 'query_string_to_normalized_map' and r.variant == 'Ok':
                m.hash_order = 'two'
                m.call('canonicalize_query_to_string', [Ptr(Cell(r.fields[0]), ())], None)
            return None, ('canon', fn)
        if kind == 'authenticator':
            from .c04 import mk_auth
            cred = ascii_bytes(ctx, 'cr', shape[1] + 2)
            auth = mk_auth(cred, instant(T0), conc_bytes('0' * 64))
            prov = provider_ok(conc_bytes(bytes(32)))
            fut = m.call('SigV4Authenticator::validate_signature',
                         [Ptr(Cell(auth), ()), str_ptr('r'), str_ptr('s'), instant(T0), C.TimeDelta(900), Ptr(Cell(prov), (), None, True)], None)
            r, _ = A.block_on(m, fut)
            m.call('<SigV4Authenticator as Debug>::fmt', [Ptr(Cell(auth), ()), Ptr(Cell(__import__('mirse.lib_std', fromlist=['Formatter']).Formatter()), ())], None)
            return None, ('authenticator', r.variant)
        raise ValueError(shape)

    def on_path(pr):
        ctx = pr.ctx
        res.obligations += 1
        if pr.kind == 'panic':
            sat, model = ctx.satisfiable()
            inp = {'shape': list(shape), 'panic': pr.value.msg}
            if sat and getattr(ctx, 'x_rq', None):
                rq_, opts_ = ctx.x_rq
                inp['request'] = rq_.to_json(model)
                inp['options'] = {'s3': bool(opts_.fields[0]), 'url_encode_form': bool(opts_.fields[1])} if opts_ is not None else {'s3': False, 'url_encode_form': False}
            ev = [e for e in ctx.events if e and e[0] == 'uri_build_failed_by_contract']
            if ev:
                inp['contract'] = 'http::uri::Builder::build returned Err (documented for > 65534 bytes)'
            res.findings.append(Finding('panic: %s' % pr.value.msg[:120], inp, None, None, repr(shape)))
            res.witnesses.add('panic')
            return
        rq, o = pr.value
        res.witnesses.add(str(o[0]) if o[0] in ('ok', 'built', 'errors', 'canon', 'authenticator', 'dontcare') else 'err')
        if len(res.samples) < 1 and rq is not None:
            sat, model = ctx.satisfiable()
            res.samples.append({'shape': list(shape), 'uri': rq.to_json(model)['uri'][:60], 'outcome': list(o)})

    engine.explore(prog, body, on_path, stats=res.stats)


# --------------------------------------------------------------------------- concrete side

def replay_finding(rp, f):
    inp = f.inp
    shape = inp.get('shape', [])
    if shape and shape[0] == 'fold-contract':
        # witness named by the contract: a folded form body larger than the http crate's URI limit
        big = ('a=' + 'x' * 70000).encode()
        j = {'method': 'POST', 'uri': '/?x=1', 'version': 'HTTP/1.1',
             'headers': [['host', b'h'.hex()], ['x-amz-date', TS.encode().hex()], ['content-type', FORM.encode().hex()],
                         ['authorization', GOOD_AUTHZ.encode().hex()]], 'body_hex': big.hex(), 'body_kind': 'bytes'}
        nat = native_validate(rp, j, 'us-east-1', 'service', T0, provider={'result': {'signing_key_hex': '00' * 32}},
                              opts={'s3': False, 'url_encode_form': True})
        res = nat.get('result', {})
        return 'panic' in res, {'native': {k: (v if k != 'ok' else 'ok') for k, v in res.items()}, 'witness': 'form body of %d bytes' % len(big)}
    if 'request' in inp:
        nat = native_validate(rp, inp['request'], 'us-east-1', 'service', T0, provider={'result': {'signing_key_hex': '00' * 32}}, opts=inp.get('options'))
        res = nat.get('result', {})
        if 'bad_input' in nat:
            return False, {'native': nat, 'note': 'the http crate does not admit this request'}
        return 'panic' in res, {'native': res.get('panic', res.get('err', {}).get('kind', 'ok'))}
    return False, {'note': 'no generic native replay for this shape; panic message: %s' % inp.get('panic')}


def conformance(prog, rp, seed, tier):
    """Concrete odd inputs through MIRSE and natively: same outcome kind, and no panic on either side."""
    rnd = random.Random(seed)
    mism = []
    n = 0
    authzs = [b'', b' ', b'AWS4-HMAC-SHA256', b'AWS4-HMAC-SHA256 ,,,', b'AWS4-HMAC-SHA256 =', b'AWS4-HMAC-SHA256 Credential', b'\xe9\xff',
              b'AWS4-HMAC-SHA256 Credential=, SignedHeaders=, Signature=', b'AWS4-HMAC-SHA256 a=b=c, Credential=/', b'AWS4-HMAC-SHA256\tx=1']
    for a in authzs:
        for ct, fold in ((None, False), (b'application/x-www-form-urlencoded; charset', True), (b';;;=', True), (b'a/b;charset=', True)):
            n += 1
            headers = [['host', b'h'.hex()], ['x-amz-date', rnd.choice([TS.encode(), b'', b'\xff', b'2015']).hex()], ['authorization', a.hex()]]
            if ct is not None:
                headers.append(['content-type', ct.hex()])
            j = {'method': 'POST', 'uri': rnd.choice(['/', '/%41?x=%20', '/a/../b?&&=', '/?X-Amz-Algorithm=x']), 'version': 'HTTP/1.1',
                 'headers': headers, 'body_hex': rnd.choice([b'', b'a=1', b'\xff', b'=&=']).hex(), 'body_kind': 'bytes'}
            nat = native_validate(rp, j, 'us-east-1', 'service', T0, provider={'result': {'signing_key_hex': '00' * 32}},
                                  opts={'s3': False, 'url_encode_form': fold})
            res = nat.get('result', {})
            nk = 'ok' if 'ok' in res else res.get('err', {}).get('kind', 'panic')
            out = []

            def body(m, ctx):
                uri = j['uri']
                path, sep, query = uri.partition('?')
                rq = Req(j['method'], path.encode(), query.encode() if sep else None, [(x, bytes.fromhex(y)) for x, y in j['headers']],
                         bytes.fromhex(j['body_hex']), 'bytes')
                r, _ = run(m, rq, 'us-east-1', 'service', provider_ok(conc_bytes(bytes(32))), instant(T0), None, options(False, fold))
                o = outcome(r)
                return 'ok' if o[0] == 'ok' else o[1]
            engine.explore(prog, body, out.append)
            pr = out[0]
            mine = pr.value if pr.kind == 'ret' else 'panic'
            if mine != nk:
                mism.append({'request': j, 'fold': fold, 'mirse': mine, 'native': nk})
    return n, mism


def extra_checks(tier, seed, rp):
    data = kani_util.run_kani(['K1', 'K4'], timeout=600)
    status, rows, failed, inconc = kani_util.summarize(data)
    lines = []
    if failed:
        confirmed = None
        for name, h in failed:
            if name.startswith('k1_from_str_m'):
                M = int(name.split('_m')[1].split('_')[0])
                for n in range(0, M + 3):
                    nat = rp.ask({'op': 'from_str', 'secret': 'a' * n, 'm': M})
                    if 'panic' in nat:
                        confirmed = (name, M, n, nat)
                        break
            if confirmed:
                break
        if confirmed:
            name, M, n, nat = confirmed
            lines.append('VIOLATION property=C08 replay=%s' % write_replay_file(PROP, Finding('Kani %s' % name, {'secret': 'a' * n, 'm': M}, {'native': nat})))
            lines.append('  KSecretKey::<%d>::from_str(%d bytes) panics natively: %s' % (M, n, json.dumps(nat)))
            status = 1
        else:
            status = 2
            lines.append('INCONCLUSIVE property=C08 Kani failures not reproduced natively: %s' % json.dumps([n for n, _ in failed]))
    elif inconc:
        lines.append('INCONCLUSIVE property=C08 Kani: %s' % json.dumps([(n, h.get('verdict')) for n, h in inconc]))
    return {'status': status, 'lines': lines, 'kani': {'harnesses': rows, 'wall_s': data.get('wall_s')}}


def describe(f):
    return '%s -> %s' % (json.dumps(f.inp)[:400], json.dumps(f.detail, default=str)[:400])


def bounds(tier):
    q = tier == 'quick'
    return ('pipeline: Authorization header of <= %d arbitrary http-admitted bytes (HTAB, 0x20-0x7E, 0x80-0xFF), parameter lists of <= %d arbitrary '
            'bytes after the algorithm, credentials of <= %d arbitrary bytes (both carriers), date strings of <= %d arbitrary bytes through X-Amz-Date '
            'header, Date header and X-Amz-Date parameter, content types of <= %d and charset labels of <= %d arbitrary bytes with folding on, %s '
            'WHATWG labels of the encoding crate, path / query of <= %d arbitrary URI bytes (both modes), X-Amz-SignedHeaders / -Signature / -Token / '
            '-Algorithm values of <= 3 arbitrary bytes, folded form bodies of 3 arbitrary bytes, malformed escapes next to a 2-byte UTF-8 scalar in path / query / '
            'form body, the URI rebuild by contract; builders: every subset of '
            'fields; error conversions and tables; canonicalisers on <= %d bytes; validate_signature + Debug on arbitrary short credentials; '
            'Kani K1 (from_str, all lengths/capacities) and K4 (byte kernels)' % (
                3 if q else 5, 3 if q else 4, 3 if q else 5, 4 if q else 6, 3 if q else 4, 2 if q else 3, 'every 8th of the' if q else 'all',
                3 if q else 4, 3 if q else 5))


OUTSIDE = ('panics inside dependencies on inputs the models treat as total (non-UTF-8 decoders of the encoding crate, http, chrono, regex engine); '
           'allocation failure; operations documented to panic on inputs violating their documented precondition (unescape_uri_encoding on malformed '
           'escapes, get_string_to_sign without prevalidate); larger inputs except through the contract model of Builder::build')
NEED_WITNESSES = {'ok', 'err', 'built', 'errors', 'canon', 'authenticator'}
ASSUMPTIONS = ['every other check of this suite also reports a panic on any of its paths as a finding (no path of C01-C19 harnesses ends in a panic)',
               'http::uri::Builder::build may fail exactly as documented (invalid bytes or more than 65534 bytes)']


def main(argv):
    return run_check(sys.modules[__name__], argv)


if __name__ == '__main__':
    sys.exit(main(sys.argv))
