"""Parser for rustc's `-Zunpretty=mir` text (nightly 1.97).  Produces Program objects.

Only the structure is parsed eagerly (items, locals, basic blocks, raw statement
strings); statements, places, operands and rvalues are parsed on first execution and
cached (see `parse_stmt`, `parse_term`).
"""
import re

# ----------------------------------------------------------------------------
# string-literal aware scanning helpers

_CHAR_LIT = re.compile(r"'(\\u\{[0-9a-fA-F]+\}|\\x[0-9a-fA-F]{2}|\\.|[^\\'])'")

OPEN = '([{<'
CLOSE = ')]}>'
PAIR = {')': '(', ']': '[', '}': '{', '>': '<'}


def scan(s, start=0):
    """Yield (index, char, depth_before) for structural characters outside literals.
    Depth counts (), [], {} and <> (with `->`, `=>`, `<=`, `>=`, ` < `, ` > ` not counted)."""
    i = start
    n = len(s)
    depth = 0
    while i < n:
        c = s[i]
        if c == '"':
            # string literal
            j = i + 1
            while j < n:
                if s[j] == '\\':
                    j += 2
                    continue
                if s[j] == '"':
                    break
                j += 1
            i = j + 1
            continue
        if c == "'":
            m = _CHAR_LIT.match(s, i)
            if m:
                i = m.end()
                continue
            i += 1
            continue
        if c in '([{':
            yield i, c, depth
            depth += 1
        elif c in ')]}':
            depth -= 1
            yield i, c, depth
        elif c == '<':
            # generic bracket unless comparison-like (surrounded by spaces) or `<=`/`<<`
            if i + 1 < n and s[i + 1] in '=<' or (i > 0 and s[i - 1] == ' ' and i + 1 < n and s[i + 1] == ' '):
                pass
            else:
                yield i, c, depth
                depth += 1
        elif c == '>':
            if i > 0 and s[i - 1] in '-=':
                pass
            elif i > 0 and s[i - 1] == ' ' and i + 1 < n and s[i + 1] == ' ':
                pass
            elif i + 1 < n and s[i + 1] == '=' :
                pass
            else:
                depth -= 1
                yield i, c, depth
        else:
            yield i, c, depth
        i += 1


def split_top(s, sep=','):
    """Split on `sep` (single char) at depth 0, literal aware."""
    out = []
    last = 0
    for i, c, d in scan(s):
        if c == sep and d == 0:
            out.append(s[last:i].strip())
            last = i + 1
    tail = s[last:].strip()
    if tail or out:
        out.append(tail)
    return [x for x in out if x != '']


def find_top(s, needle, start=0):
    """Index of first occurrence of `needle` at depth 0 (outside literals), or -1."""
    L = len(needle)
    for i, c, d in scan(s, 0):
        if i < start:
            continue
        if d == 0 and c == needle[0] and s.startswith(needle, i):
            return i
    return -1


def match_close(s, open_idx):
    """Index of the bracket closing the one at open_idx."""
    want_depth = None
    for i, c, d in scan(s, 0):
        if i == open_idx:
            want_depth = d
        elif want_depth is not None and c in CLOSE and d == want_depth and i > open_idx:
            return i
    raise ValueError('unbalanced: %r' % s)


def last_group(s):
    """For 'callee(args)' return (callee, args_str) using the last top-level (...) group."""
    assert s.endswith(')'), s
    opens = []
    for i, c, d in scan(s):
        if c == '(' and d == 0:
            opens.append(i)
    o = opens[-1]
    return s[:o], s[o + 1:-1]


# ----------------------------------------------------------------------------
# program structure

class Block:
    __slots__ = ('stmts', 'term', 'cleanup', 'pstmts', 'pterm')

    def __init__(self):
        self.stmts = []
        self.term = None
        self.cleanup = False
        self.pstmts = None
        self.pterm = None


class Fn:
    def __init__(self, kind, name, params, ret_ty):
        self.kind = kind          # 'fn' | 'const' | 'static' | 'promoted'
        self.name = name
        self.params = params      # [(local_index, type)]
        self.ret_ty = ret_ty
        self.locals = {0: ret_ty}
        self.blocks = {}
        self.simple_const = None  # for `const X: T = const V;`
        self.line = 0
        self.debug_names = {}
        for i, t in params:
            self.locals[i] = t

    def __repr__(self):
        return '<Fn %s %s>' % (self.kind, self.name)


class Program:
    def __init__(self):
        self.fns = []             # all non-CTFE function bodies
        self.consts = {}          # full printed name -> Fn (const / promoted / static)
        self.by_last = {}         # last path segment -> [Fn]

    def add(self, f):
        if f.kind == 'fn':
            self.fns.append(f)
        else:
            self.consts[f.name] = f
        last = f.name.rsplit('::', 1)[-1]
        self.by_last.setdefault(last, []).append(f)


_RE_LET = re.compile(r'^\s+let (mut )?_(\d+): (.*);$')
_RE_BB = re.compile(r'^\s+bb(\d+)( \(cleanup\))?: \{$')
_RE_DEBUG = re.compile(r'^\s+debug (\S+) => (.*);$')


def parse_program(text):
    prog = Program()
    lines = text.split('\n')
    i = 0
    n = len(lines)
    ctfe_next = False
    while i < n:
        ln = lines[i]
        if not ln or ln.startswith('//'):
            if ln.startswith('// MIR FOR CTFE'):
                ctfe_next = True
            i += 1
            continue
        if ln.startswith('alloc'):
            # allocation dump: skip to closing brace
            if ln.rstrip().endswith('{}'):
                i += 1
                continue
            i += 1
            while i < n and lines[i] != '}':
                i += 1
            i += 1
            continue
        kind = None
        if ln.startswith('fn '):
            kind = 'fn'
            head = ln[3:]
        elif ln.startswith('const '):
            kind = 'const'
            head = ln[6:]
        elif ln.startswith('static mut '):
            kind = 'static'
            head = ln[11:]
        elif ln.startswith('static '):
            kind = 'static'
            head = ln[7:]
        elif ln.rstrip().endswith(' = {') and find_top(ln, ': ') > 0:
            # keyword-less item (e.g. the accessor constant of a `thread_local!`): treat as a const body
            kind = 'const'
            head = ln
        else:
            raise ValueError('unrecognised top-level line %d: %r' % (i + 1, ln[:120]))
        if kind == 'fn':
            assert head.endswith(' {'), ln
            head = head[:-2]
            po = head.index('(')
            # name may contain '(' only inside `{async fn body of X()}`-like types: not in fn names
            name = head[:po]
            pc = match_close(head, po)
            params_s = head[po + 1:pc]
            rest = head[pc + 1:].strip()
            ret_ty = rest[3:].strip() if rest.startswith('->') else '()'
            params = []
            for p in split_top(params_s):
                m = re.match(r'^_(\d+): (.*)$', p)
                assert m, (p, ln)
                params.append((int(m.group(1)), m.group(2)))
            f = Fn('fn', name, params, ret_ty)
        else:
            # const NAME: TYPE = {   |  const NAME: TYPE = const V;
            eq = head.rfind(' = ')
            decl, rhs = head[:eq], head[eq + 3:]
            ci = find_top(decl, ': ')
            name, ty = decl[:ci], decl[ci + 2:]
            k = 'promoted' if '::promoted[' in name else kind
            f = Fn(k, name, [], ty)
            if rhs != '{':
                assert rhs.endswith(';'), ln
                f.simple_const = rhs[:-1]
                f.line = i + 1
                prog.add(f)
                i += 1
                continue
        f.line = i + 1
        i += 1
        cur = None
        while i < n and lines[i] != '}':
            b = lines[i]
            i += 1
            if not b.strip():
                continue
            m = _RE_LET.match(b)
            if m and cur is None:
                f.locals[int(m.group(2))] = m.group(3)
                continue
            m = _RE_BB.match(b)
            if m:
                cur = Block()
                cur.cleanup = bool(m.group(2))
                f.blocks[int(m.group(1))] = cur
                continue
            if cur is None:
                m = _RE_DEBUG.match(b)
                if m:
                    f.debug_names[m.group(1)] = m.group(2)
                continue      # scope / debug lines
            s = b.strip()
            if s == '}':
                cur = None
                continue
            # multi-line statements do not occur except for long string consts with embedded newlines
            cur.stmts.append(s)
        i += 1
        for blk in f.blocks.values():
            if blk.stmts:
                blk.term = blk.stmts.pop()
        if kind == 'fn' and ctfe_next:
            ctfe_next = False
            continue
        ctfe_next = False
        prog.add(f)
    return prog


# ----------------------------------------------------------------------------
# places, operands, rvalues

class Place:
    __slots__ = ('local', 'proj')

    def __init__(self, local, proj):
        self.local = local
        self.proj = proj          # list of tuples

    def __repr__(self):
        return 'Place(_%d%s)' % (self.local, ''.join(str(p) for p in self.proj))


def _parse_place_at(s, pos):
    """Parse a place starting at s[pos]; returns (Place, newpos)."""
    if s[pos] == '_':
        m = re.compile(r'_(\d+)').match(s, pos)
        pl = Place(int(m.group(1)), [])
        pos = m.end()
    elif s[pos] == '(':
        if s[pos + 1] == '*':
            inner, p2 = _parse_place_at(s, pos + 2)
            assert s[p2] == ')', s
            pl = Place(inner.local, inner.proj + [('deref',)])
            pos = p2 + 1
        else:
            inner, p2 = _parse_place_at(s, pos + 1)
            close = match_close(s, pos)
            if s[p2] == '.':
                m = re.compile(r'\.(\d+): ').match(s, p2)
                assert m, s
                ty = s[m.end():close]
                pl = Place(inner.local, inner.proj + [('field', int(m.group(1)), ty)])
            elif s.startswith(' as ', p2):
                pl = Place(inner.local, inner.proj + [('downcast', s[p2 + 4:close])])
            else:
                raise ValueError('bad place %r at %d' % (s, p2))
            pos = close + 1
    else:
        raise ValueError('bad place %r at %d' % (s, pos))
    while pos < len(s) and s[pos] == '[':
        close = match_close(s, pos)
        idx = s[pos + 1:close]
        m = re.match(r'^_(\d+)$', idx)
        if m:
            pl = Place(pl.local, pl.proj + [('index', int(m.group(1)))])
        else:
            m = re.match(r'^(-?)(\d+) of (\d+)$', idx)
            if m:
                pl = Place(pl.local, pl.proj + [('cindex', int(m.group(2)), bool(m.group(1)), int(m.group(3)))])
            else:
                m = re.match(r'^(\d*):(-?)(\d*)$', idx)
                assert m, s
                # `[a:]` / `[a:-b]` count the end from the back; `[a:b]` is absolute
                from_end = bool(m.group(2)) or m.group(3) == ''
                pl = Place(pl.local, pl.proj + [('subslice', int(m.group(1) or 0), from_end,
                                                  int(m.group(3)) if m.group(3) else 0)])
        pos = close + 1
    return pl, pos


def parse_place(s):
    s = s.strip()
    pl, pos = _parse_place_at(s, 0)
    assert pos == len(s), ('trailing in place', s, pos)
    return pl


_ESC = {'n': '\n', 't': '\t', 'r': '\r', '0': '\0', '\\': '\\', '"': '"', "'": "'"}


def unescape_bytes(body, is_bytes):
    """Decode the inside of a Rust string / byte-string literal into bytes."""
    out = bytearray()
    i = 0
    n = len(body)
    while i < n:
        c = body[i]
        if c == '\\':
            d = body[i + 1]
            if d == 'x':
                out.append(int(body[i + 2:i + 4], 16))
                i += 4
            elif d == 'u':
                j = body.index('}', i)
                out += chr(int(body[i + 3:j], 16)).encode('utf-8')
                i = j + 1
            elif d == '\n':
                # line continuation
                i += 2
                while i < n and body[i] in ' \t\n':
                    i += 1
            else:
                out += _ESC[d].encode('utf-8')
                i += 2
        else:
            out += c.encode('utf-8')
            i += 1
    return bytes(out)


_INT_TYS = {'u8', 'u16', 'u32', 'u64', 'u128', 'usize', 'i8', 'i16', 'i32', 'i64', 'i128', 'isize'}
_RE_INTLIT = re.compile(r'^(-?\d+)_(u8|u16|u32|u64|u128|usize|i8|i16|i32|i64|i128|isize)$')


def parse_const(s):
    """Parse text after `const `. Returns a tuple describing the constant."""
    s = s.strip()
    m = _RE_INTLIT.match(s)
    if m:
        return ('int', m.group(2), int(m.group(1)))
    if s == 'true':
        return ('bool', True)
    if s == 'false':
        return ('bool', False)
    if s == '()':
        return ('unit',)
    if s.startswith('"'):
        return ('str', unescape_bytes(s[1:-1], False))
    if s.startswith('b"'):
        return ('bstr', unescape_bytes(s[2:-1], True))
    if s.startswith("b'"):
        return ('int', 'u8', unescape_bytes(s[2:-1], True)[0])
    if s.startswith("'"):
        b = unescape_bytes(s[1:-1], False)
        return ('int', 'char', ord(b.decode('utf-8')))
    if s.startswith('{alloc'):
        m = re.match(r'^\{alloc\d+: (.*)\}$', s)
        return ('alloc', m.group(1))
    return ('named', s)


def parse_operand(s):
    s = s.strip()
    if s.startswith('no_retag '):
        s = s[9:]
    if s.startswith('copy '):
        return ('copy', parse_place(s[5:]))
    if s.startswith('move '):
        return ('move', parse_place(s[5:]))
    if s.startswith('const '):
        return ('const', parse_const(s[6:]))
    # bare function item used as a value (fn pointer / ZST fn item)
    return ('const', ('named', s))


BINOPS = {'Add', 'Sub', 'Mul', 'Div', 'Rem', 'BitAnd', 'BitOr', 'BitXor', 'Shl', 'Shr', 'Eq', 'Ne', 'Lt', 'Le',
          'Gt', 'Ge', 'AddWithOverflow', 'SubWithOverflow', 'MulWithOverflow', 'Offset', 'Cmp',
          'AddUnchecked', 'SubUnchecked', 'MulUnchecked', 'ShlUnchecked', 'ShrUnchecked'}
UNOPS = {'Not', 'Neg', 'PtrMetadata'}


def parse_rvalue(s):
    s = s.strip()
    if s.startswith('no_retag '):
        s = s[9:]
    if s.startswith('&raw const '):
        return ('ref', 'raw', parse_place(s[11:]))
    if s.startswith('&raw mut '):
        return ('ref', 'rawmut', parse_place(s[9:]))
    if s.startswith('&mut '):
        return ('ref', 'mut', parse_place(s[5:]))
    if s.startswith('&/*tls*/ '):
        return ('static_ref', s[len('&/*tls*/ '):].strip())
    if s.startswith('&fake shallow '):
        return ('ref', 'shared', parse_place(s[14:]))
    if s.startswith('&'):
        return ('ref', 'shared', parse_place(s[1:]))
    if s.startswith(('copy ', 'move ', 'const ')):
        ai = find_top(s, ' as ')
        if ai >= 0 and s.endswith(')'):
            op = parse_operand(s[:ai])
            rest = s[ai + 4:]
            ko = rest.rindex(' (')
            ty = rest[:ko]
            kind = rest[ko + 2:-1]
            return ('cast', kind, op, ty)
        return ('use', parse_operand(s))
    m = re.match(r'^([A-Za-z]+)\(', s)
    if m and s.endswith(')'):
        name = m.group(1)
        inner = s[len(name) + 1:-1]
        if name in BINOPS:
            a, b = split_top(inner)
            return ('binop', name, parse_operand(a), parse_operand(b))
        if name in UNOPS:
            return ('unop', name, parse_operand(inner))
        if name == 'discriminant':
            return ('discriminant', parse_place(inner))
        if name == 'Len':
            return ('len', parse_place(inner))
        if name == 'CopyForDeref':
            return ('use', ('copy', parse_place(inner)))
        if name in ('SizeOf', 'AlignOf'):
            return ('nullop', name, inner)
        if name == 'ShallowInitBox':
            a, b = split_top(inner)
            return ('shallow_box', parse_operand(a), b)
    if s.startswith('['):
        inner = s[1:-1]
        si = find_top(inner, ';')
        if si >= 0:
            cnt = inner[si + 1:].strip()
            return ('repeat', parse_operand(inner[:si]), cnt)
        return ('array', [parse_operand(x) for x in split_top(inner)])
    if s.startswith('('):
        inner = s[1:-1].strip()
        if inner.endswith(','):
            inner = inner[:-1]
        return ('tuple', [parse_operand(x) for x in split_top(inner)] if inner else [])
    # aggregates: Path { f: op, .. } | Path(op, ..) | Path
    if s.endswith('}') and not s.startswith('{'):
        bo = find_top(s, ' {')
        if bo >= 0:
            path = s[:bo]
            inner = s[bo + 2:-1].strip()
            fields = []
            for part in split_top(inner):
                ci = find_top(part, ': ')
                fields.append((part[:ci], parse_operand(part[ci + 2:])))
            return ('adt', path, fields, True)
    if s.startswith('{') and s.endswith('}'):
        # {closure@...} or {coroutine@...} possibly with `{ captures }`
        close = match_close(s, 0)
        path = s[:close + 1]
        rest = s[close + 1:].strip()
        fields = []
        if rest:
            inner = rest[1:-1].strip()
            for part in split_top(inner):
                ci = find_top(part, ': ')
                fields.append((part[:ci], parse_operand(part[ci + 2:])))
        return ('closure', path, fields)
    if s.endswith(')'):
        path, args = last_group(s)
        return ('adt', path, [(str(i), parse_operand(a)) for i, a in enumerate(split_top(args))], False)
    return ('adt', s, [], False)


def parse_stmt(s):
    assert s.endswith(';'), s
    s = s[:-1]
    if s.startswith(('StorageLive(', 'StorageDead(', 'FakeRead(', 'PlaceMention(', 'AscribeUserType(', 'Retag(',
                     'Coverage::', 'ConstEvalCounter', 'nop', 'BackwardIncompatibleDropHint')):
        return ('nop',)
    if s.startswith('assume('):
        return ('nop',)
    if s.startswith('Deinit('):
        return ('nop',)
    if s.startswith('discriminant('):
        m = re.match(r'^discriminant\((.*)\) = (\d+)$', s)
        return ('setdiscr', parse_place(m.group(1)), int(m.group(2)))
    eq = find_top(s, ' = ')
    assert eq >= 0, s
    return ('assign', parse_place(s[:eq]), parse_rvalue(s[eq + 3:]))


def _targets(s):
    """Parse `[return: bb1, unwind: bb2]`-style lists → dict."""
    out = {}
    for part in split_top(s[1:-1]):
        k, v = part.split(': ', 1) if ': ' in part else (part, None)
        if v and v.startswith('bb'):
            out[k] = int(v[2:])
        elif v is None and part.startswith('unwind'):
            out['unwind'] = None
        else:
            out[k] = v
    return out


def parse_term(s):
    if s.endswith(';'):
        s = s[:-1]
    if s == 'return':
        return ('return',)
    if s in ('unreachable',):
        return ('unreachable',)
    if s.startswith('resume') or s.startswith('terminate') or s == 'coroutine_drop':
        return ('resume',)
    if s.startswith('goto -> bb'):
        return ('goto', int(s[10:]))
    ai = s.rfind(' -> ')
    if s.startswith('switchInt('):
        head, tg = s[:ai], s[ai + 4:]
        op = parse_operand(head[10:-1])
        cases = []
        other = None
        for part in split_top(tg[1:-1]):
            k, v = part.split(': ')
            if k == 'otherwise':
                other = int(v[2:])
            else:
                cases.append((int(k), int(v[2:])))
        return ('switch', op, cases, other)
    if s.startswith('drop('):
        head, tg = s[:ai], s[ai + 4:]
        t = _targets(tg)
        return ('drop', parse_place(head[5:-1]), t.get('return'))
    if s.startswith('assert('):
        head, tg = s[:ai], s[ai + 4:]
        t = _targets(tg)
        parts = split_top(head[7:-1])
        cond = parts[0]
        neg = False
        if cond.startswith('!'):
            neg = True
            cond = cond[1:]
        msg = parts[1] if len(parts) > 1 else ''
        return ('assert', neg, parse_operand(cond), msg, [parse_operand(p) for p in parts[2:] if p.startswith(('copy', 'move', 'const'))], t.get('success'))
    # call
    head, tg = s[:ai], s[ai + 4:]
    ret = None
    if tg.startswith('['):
        t = _targets(tg)
        ret = t.get('return')
    eq = find_top(head, ' = ')
    dest = parse_place(head[:eq])
    callee, args = last_group(head[eq + 3:])
    return ('call', dest, callee.strip(), [parse_operand(a) for a in split_top(args)], ret)
