"""C05 — mandatory signed headers are enforced before a request can be accepted.

Decided by MIRSE on the whole pipeline with *correctly signed* requests (real digests) whose signed-header
list is a chosen subset of the present headers, against requirement sets built through all three routes
(SliceSignedHeaderRequirements::new, VecSignedHeaderRequirements::new, sequences of add_* / remove_*), with
the *letter case of every declared name symbolic* (one z3 Boolean per letter).  On every path:
  Ok  <=>  host (or :authority) signed  and  every always-name signed  and  every if-in-request name that is
           present is signed  and  every present header starting with a declared prefix is signed;
  otherwise SignatureDoesNotMatch (403) although the signature over the signed headers is correct.
"""
import itertools
import json
import random
import sys

import z3

from .common import *
from .pipeline import *
from mirse import engine

PROP = 'C05'
TS = '20150830T123600Z'
SCOPE = '20150830/us-east-1/service/aws4_request'
HVALS = {'host': b'h', 'x-amz-date': TS.encode(), 'content-type': b'text/plain', 'etag': b'"e"', 'x-amz-meta-a': b'1', 'x-amz-meta-b': b'2',
         'x-other': b'o'}
CONFIGS = [
    # (always, if_in, prefixes)
    ((), (), ()),
    (('content-type',), (), ()),
    ((), ('etag',), ()),
    ((), (), ('x-amz-',)),
    (('content-type',), ('etag',), ('x-amz-',)),
    (('content-type', 'etag'), (), ()),
    ((), ('etag', 'x-other'), ()),
    ((), (), ('x-amz-meta', 'x-o')),
    (('x-amz-meta-a',), ('x-amz-meta-b',), ()),
    ((), (), ('',)),
    (('host',), (), ('h',)),
    ((), (), ('x-amz-meta-', 'x-amz-')),
    ((), (), ('x-amz-', 'x-amz-meta-')),
    (('etag', 'content-type'), ('etag',), ('x-amz-meta-a', 'x-')),
    (('host',), (), ()),            # 14: host itself declared (rule 8 accepts :authority in its place, the declaration does not)
    ((), ('host',), ()),            # 15
    (('host', 'x-amz-date'), (), ()),
]
PRESENCE = [
    ('host', 'x-amz-date'),
    ('host', 'x-amz-date', 'content-type'),
    ('host', 'x-amz-date', 'etag', 'x-other'),
    ('host', 'x-amz-date', 'content-type', 'etag', 'x-amz-meta-a'),
    ('host', 'x-amz-date', 'x-amz-meta-a', 'x-amz-meta-b'),
    ('host', 'x-amz-date', 'content-type', 'etag', 'x-amz-meta-a', 'x-amz-meta-b', 'x-other'),
]


def shapes(tier, seed):
    out = []
    rnd = random.Random(seed)
    q = tier == 'quick'
    for ci, cfg in enumerate(CONFIGS):
        for pi, present in enumerate(PRESENCE):
            subs = []
            rest = [h for h in present if h != 'host']
            if len(rest) <= 3 or not q:
                for r in range(len(rest) + 1):
                    for comb in itertools.combinations(rest, r):
                        subs.append(('host',) + comb)
            else:
                subs.append(tuple(present))
                subs.append(('host',))
                for _ in range(6):
                    subs.append(('host',) + tuple(h for h in rest if rnd.random() < 0.6))
            for s in sorted(set(subs)):
                route = ('slice', 'vec', 'ops')[(ci + pi + len(s)) % 3] if q else None
                for rt in ([route] if route else ['slice', 'vec', 'ops']):
                    out.append(('req', ci, pi, s, rt))
    # blank values: a header that is present with an empty / all-space value (once or twice) is still present
    for ci in range(len(CONFIGS)):
        for pi in (3, 5):
            present = PRESENCE[pi]
            for sg in (('host', 'x-amz-date'), tuple(present)):
                for k, vals in enumerate(('blank', 'spaces', 'twice-blank')):
                    if q and (ci + pi + k) % 2:
                        continue
                    out.append(('req', ci, pi, sg, ('slice', 'vec', 'ops')[(ci + k) % 3], vals))
    # SignedHeaders entries are compared as presented: an entry spelled with capitals names no header of the (lower-case) header map,
    # so the required header is NOT signed although a case-insensitive look would find it
    for rt in ('slice', 'vec', 'ops'):
        out.append(('req', 1, 1, ('host', 'x-amz-date', 'Content-Type'), rt))
        out.append(('req', 2, 2, ('host', 'x-amz-date', 'ETag', 'x-other'), rt))
        out.append(('req', 3, 4, ('host', 'x-amz-date', 'X-Amz-Meta-A', 'x-amz-meta-b'), rt))
        out.append(('req', 3, 4, ('host', 'x-amz-date', 'x-amz-meta-a', 'X-AMZ-META-B'), rt))
    # host itself unsigned / :authority signed instead
    for pi in (0, 1):
        out.append(('req', 0, pi, ('x-amz-date',), 'slice'))
        out.append(('req', 1, pi, (':authority', 'x-amz-date'), 'slice'))
        out.append(('req', 1, pi, (':authority', 'content-type'), 'vec'))
        # host declared as required while the request signs :authority in its place
        for ci in (14, 15, 16):
            for rt in ('slice', 'vec', 'ops'):
                out.append(('req', ci, pi, (':authority', 'x-amz-date'), rt))
                out.append(('req', ci, pi, (':authority', 'host', 'x-amz-date'), rt))
    return out


def cased(ctx, name, tag):
    """Bytes of `name` with the case of every letter symbolic."""
    es = []
    for i, ch in enumerate(name):
        if ch.isalpha():
            up = ctx.fresh_bool('%s_%d' % (tag, i))
            es.append(Int('u8', z3.If(up, z3.BitVecVal(ord(ch.upper()), 8), z3.BitVecVal(ord(ch.lower()), 8))))
        else:
            es.append(Int('u8', ord(ch)))
    return es


def build_requirements(m, ctx, cfg, route):
    always, if_in, prefixes = cfg
    A_ = [cased(ctx, n, 'a%d' % i) for i, n in enumerate(always)]
    I_ = [cased(ctx, n, 'i%d' % i) for i, n in enumerate(if_in)]
    P_ = [cased(ctx, n, 'p%d' % i) for i, n in enumerate(prefixes)]
    if route == 'slice':
        return requirements('slice', A_, I_, P_)
    if route == 'vec':
        def refs(items):
            arr = Array([mk_str(x) for x in items])
            return Ptr(Cell(arr), (), ('slice', 0, len(items)))
        return m.call('VecSignedHeaderRequirements::new::<str, str, str>', [refs(A_), refs(I_), refs(P_)], None)
    # ops: start empty, add a decoy and remove it again (in another case), add the real names (some twice)
    v = m.default_of(m, 'VecSignedHeaderRequirements')
    vp = Ptr(Cell(v), (), None, True)
    m.call('VecSignedHeaderRequirements::add_always_present', [vp, str_ptr('X-Decoy')], None)
    m.call('VecSignedHeaderRequirements::add_prefix', [vp, str_ptr('X-Dec')], None)
    m.call('VecSignedHeaderRequirements::add_if_in_request', [vp, str_ptr('Etag-Decoy')], None)
    for x in A_:
        m.call('VecSignedHeaderRequirements::add_always_present', [vp, mk_str(x)], None)
    for x in I_:
        m.call('VecSignedHeaderRequirements::add_if_in_request', [vp, mk_str(x)], None)
        m.call('VecSignedHeaderRequirements::add_if_in_request', [vp, mk_str(x)], None)
    for x in P_:
        m.call('VecSignedHeaderRequirements::add_prefix', [vp, mk_str(x)], None)
    m.call('VecSignedHeaderRequirements::remove_always_present', [vp, str_ptr('x-DECOY')], None)
    m.call('VecSignedHeaderRequirements::remove_prefix', [vp, str_ptr('x-dec')], None)
    m.call('VecSignedHeaderRequirements::remove_if_in_request', [vp, str_ptr('ETAG-decoy')], None)
    return v


def reference_ok(cfg, present, signed):
    always, if_in, prefixes = cfg
    s = set(signed)
    # the Authorization header is itself a request header (it can never be signed: a declared prefix matching it is unsatisfiable)
    present = list(present) + ['authorization']
    if 'host' not in s and ':authority' not in s:
        return False
    if any(a not in s for a in always):
        return False
    if any(i in present and i not in s for i in if_in):
        return False
    for p in prefixes:
        for h in present:
            if h.startswith(p) and h not in s:
                return False
    return True


def signed_request(present, signed, vals='plain'):
    headers = []
    for h in present:
        if vals == 'plain' or h in ('host', 'x-amz-date'):
            headers.append((h, HVALS[h]))
        elif vals == 'blank':
            headers.append((h, b''))
        elif vals == 'spaces':
            headers.append((h, b'   '))
        else:
            headers += [(h, b''), (h, b' ')]
    sl = sorted(signed)
    sig, _, _ = py_sign(bytes(32), 'GET', b'/', b'', headers, sl, b'', TS, SCOPE, is_key=True)
    authz = 'AWS4-HMAC-SHA256 Credential=AKID/%s, SignedHeaders=%s, Signature=%s' % (SCOPE, ';'.join(sl), sig)
    return Req('GET', b'/', None, headers + [('authorization', authz.encode())], b'', 'bytes')


def run_shape(prog, shape, tier, seed, res):
    _, ci, pi, signed, route = shape[:5]
    vals = shape[5] if len(shape) > 5 else 'plain'
    cfg, present = CONFIGS[ci], PRESENCE[pi]

    def body(m, ctx):
        reqs = build_requirements(m, ctx, cfg, route)
        rq = signed_request(present, signed, vals)
        prov = provider_ok(conc_bytes(bytes(32)))
        r, polls = run(m, rq, 'us-east-1', 'service', prov, instant(T0), reqs)
        return rq, r, prov

    def on_path(pr):
        ctx = pr.ctx
        res.obligations += 1
        if pr.kind == 'panic':
            res.findings.append(Finding('panic: %s' % pr.value.msg, {'shape': repr(shape)}, None, None, repr(shape)))
            return
        rq, r, prov = pr.value
        o = outcome(r)
        want = reference_ok(cfg, present, signed)

        def fail(what):
            sat, model = ctx.satisfiable()
            # concrete letter cases of the declared names
            def conc_names(names, tag):
                out = []
                for i, n in enumerate(names):
                    s = ''
                    for j, ch in enumerate(n):
                        if ch.isalpha():
                            v = model.eval(z3.Bool('%s%d_%d!0' % (tag, i, j)), model_completion=True)
                        s += ch
                    out.append(s)
                return out
            decls = {}
            for d in model.decls():
                decls[d.name()] = model[d]
            def cased_name(n, tag):
                s = ''
                for j, ch in enumerate(n):
                    up = False
                    for k, v in decls.items():
                        if k.startswith('%s_%d!' % (tag, j)) and z3.is_true(v):
                            up = True
                    s += ch.upper() if up else ch
                return s
            always = [cased_name(n, 'a%d' % i) for i, n in enumerate(cfg[0])]
            if_in = [cased_name(n, 'i%d' % i) for i, n in enumerate(cfg[1])]
            prefixes = [cased_name(n, 'p%d' % i) for i, n in enumerate(cfg[2])]
            res.findings.append(Finding(what, {'always': always, 'if_in': if_in, 'prefixes': prefixes, 'route': route, 'present': list(present),
                                               'signed': list(signed), 'request': rq.to_json()}, None, None, repr(shape)))
        if o[0] == 'ok':
            res.witnesses.add('ok')
            if not want:
                fail('accepted although a mandatory header is missing from the signed-header list')
        else:
            res.witnesses.add('err:' + o[1])
            if want:
                fail('correctly signed request that signs every mandatory header refused (%s)' % o[1])
            elif o[1] != 'SignatureDoesNotMatch':
                fail('missing mandatory signed header refused as %s instead of SignatureDoesNotMatch' % o[1])
            elif prov.calls:
                fail('key provider consulted for a request whose signed-header list misses a mandatory header')
        if len(res.samples) < 1:
            res.samples.append({'config': cfg, 'present': present, 'signed': signed, 'route': route, 'outcome': o[0] if o[0] == 'ok' else o[1]})

    engine.explore(prog, body, on_path, stats=res.stats)


# --------------------------------------------------------------------------- concrete side

def native_case(rp, inp):
    kind = 'slice' if inp['route'] == 'slice' else 'vec'
    reqs = {'kind': kind, 'always': inp['always'], 'if_in': inp['if_in'], 'prefixes': inp['prefixes']}
    if inp['route'] == 'ops':
        # exactly the sequence of operations the MIRSE harness performs (build_requirements, route 'ops')
        ops = [['add_always_present', 'X-Decoy'], ['add_prefix', 'X-Dec'], ['add_if_in_request', 'Etag-Decoy']]
        ops += [['add_always_present', x] for x in inp['always']]
        for x in inp['if_in']:
            ops += [['add_if_in_request', x], ['add_if_in_request', x]]
        ops += [['add_prefix', x] for x in inp['prefixes']]
        ops += [['remove_always_present', 'x-DECOY'], ['remove_prefix', 'x-dec'], ['remove_if_in_request', 'ETAG-decoy']]
        reqs = {'kind': 'vec', 'always': [], 'if_in': [], 'prefixes': [], 'ops': ops}
    nat = native_validate(rp, inp['request'], 'us-east-1', 'service', T0, provider={'result': {'signing_key_hex': '00' * 32}}, reqs=reqs)
    res = nat.get('result', {})
    return 'ok' if 'ok' in res else res.get('err', {}).get('kind', 'panic')


def replay_finding(rp, f):
    inp = f.inp
    if 'request' not in inp:
        return False, None
    nat = native_case(rp, inp)
    want = reference_ok(([x.lower() for x in inp['always']], [x.lower() for x in inp['if_in']], [x.lower() for x in inp['prefixes']]),
                        inp['present'], inp['signed'])
    bad = (nat == 'ok') != want or (not want and nat != 'SignatureDoesNotMatch')
    return bad, {'native': nat, 'reference_ok': want}


def conformance(prog, rp, seed, tier):
    rnd = random.Random(seed)
    mism = []
    n = 0
    for _ in range(30 if tier == 'quick' else 200):
        n += 1
        cfg = rnd.choice(CONFIGS)
        present = rnd.choice(PRESENCE)
        signed = ['host'] + [h for h in present if h != 'host' and rnd.random() < 0.6]
        route = rnd.choice(['slice', 'vec', 'ops'])

        def rc(s):
            return ''.join(ch.upper() if rnd.random() < 0.4 else ch for ch in s)
        inp = {'always': [rc(x) for x in cfg[0]], 'if_in': [rc(x) for x in cfg[1]], 'prefixes': [rc(x) for x in cfg[2]], 'route': route,
               'present': list(present), 'signed': signed, 'request': signed_request(present, signed).to_json()}
        nat = native_case(rp, inp)
        out = []

        def body(m, ctx):
            if route == 'slice':
                reqs = requirements('slice', inp['always'], inp['if_in'], inp['prefixes'])
            elif route == 'vec':
                reqs = requirements('vec', inp['always'], inp['if_in'], inp['prefixes'])
            else:
                v = m.default_of(m, 'VecSignedHeaderRequirements')
                vp = Ptr(Cell(v), (), None, True)
                m.call('VecSignedHeaderRequirements::add_always_present', [vp, str_ptr('X-Decoy')], None)
                for x in inp['always']:
                    m.call('VecSignedHeaderRequirements::add_always_present', [vp, str_ptr(x)], None)
                for x in inp['if_in']:
                    m.call('VecSignedHeaderRequirements::add_if_in_request', [vp, str_ptr(x)], None)
                for x in inp['prefixes']:
                    m.call('VecSignedHeaderRequirements::add_prefix', [vp, str_ptr(x)], None)
                m.call('VecSignedHeaderRequirements::remove_always_present', [vp, str_ptr('x-DECOY')], None)
                reqs = v
            r, _ = run(m, signed_request(present, signed), 'us-east-1', 'service', provider_ok(conc_bytes(bytes(32))), instant(T0), reqs)
            o = outcome(r)
            return 'ok' if o[0] == 'ok' else o[1]
        engine.explore(prog, body, out.append)
        pr = out[0]
        mine = pr.value if pr.kind == 'ret' else 'panic'
        if mine != nat:
            mism.append({'input': {k: v for k, v in inp.items() if k != 'request'}, 'mirse': mine, 'native': nat})
    return n, mism


def describe(f):
    return '%s -> %s' % (json.dumps({k: v for k, v in f.inp.items() if k != 'request'}), json.dumps(f.detail, default=str))


def bounds(tier):
    return ('%d requirement configurations (always / if-in-request / prefix sets over content-type, etag, x-amz-meta-a/b, x-other, prefixes x-amz-, '
            'x-amz-meta, x-o, h, the empty prefix, nested prefixes in both declaration orders) x %d header presence sets x %s signed-header subsets, each through the slice, vec and add/remove '
            'construction routes%s; the letter case of every declared name symbolic (2^letters assignments per shape); requests correctly signed '
            'with real digests; host unsigned and :authority variants' % (
                len(CONFIGS), len(PRESENCE), 'sampled' if tier == 'quick' else 'all', ' (one route per shape)' if tier == 'quick' else ''))


OUTSIDE = 'declared names outside the alphabet; non-ASCII letters in declared names (Unicode lower-casing); more than two names per set'
NEED_WITNESSES = {'ok', 'err:SignatureDoesNotMatch'}
ASSUMPTIONS = ['http::HeaderMap stores header names lower-cased (http crate contract)']


def main(argv):
    return run_check(sys.modules[__name__], argv)


if __name__ == '__main__':
    sys.exit(main(sys.argv))
