"""Front end (MIR regeneration from /repo's working tree) and the exploration driver."""
import hashlib
import os
import subprocess
import sys
import time

from . import mirparse
from .interp import Machine, Ctx, Infeasible
from .values import Panic, Unsupported

REPO = os.environ.get('VERIF_REPO', '/repo')
CACHE = os.environ.get('VERIF_CACHE', '/verif/.cache')


def _tree_digest(repo):
    h = hashlib.sha256()
    for root, dirs, files in os.walk(os.path.join(repo, 'src')):
        dirs.sort()
        for f in sorted(files):
            p = os.path.join(root, f)
            h.update(p.encode())
            h.update(open(p, 'rb').read())
    for f in ('Cargo.toml', 'Cargo.lock'):
        p = os.path.join(repo, f)
        if os.path.exists(p):
            h.update(open(p, 'rb').read())
    return h.hexdigest()[:24]


def dump_mir(repo=REPO, force=False):
    """Run rustc on the crate in `repo` and return (mir_text, info).  The dump is keyed by a
    digest of the working tree's sources, so an edited tree is always re-compiled."""
    os.makedirs(os.path.join(CACHE, 'mir'), exist_ok=True)
    dig = _tree_digest(repo)
    out = os.path.join(CACHE, 'mir', 'crate-%s.mir' % dig)
    info = {'digest': dig, 'cached': True, 'rustc_s': 0.0}
    if force or not os.path.exists(out) or os.path.getsize(out) == 0:
        t = time.time()
        env = dict(os.environ)
        env['CARGO_TARGET_DIR'] = os.path.join(CACHE, 'mir-target')
        env['CARGO_NET_OFFLINE'] = 'true'
        # make sure the crate itself is rebuilt so that MIR is printed
        os.utime(os.path.join(repo, 'src', 'lib.rs'), None)
        cmd = ['cargo', '+nightly', 'rustc', '--offline', '--lib', '--features', 'unstable',
               '--manifest-path', os.path.join(repo, 'Cargo.toml'), '--',
               '-Zunpretty=mir', '-C', 'debug-assertions=off', '-C', 'overflow-checks=on']
        r = subprocess.run(cmd, env=env, stdout=subprocess.PIPE, stderr=subprocess.PIPE)
        if r.returncode != 0 or not r.stdout:
            sys.stderr.write(r.stderr.decode('utf-8', 'replace')[-4000:])
            raise RuntimeError('MIR dump failed (rustc exit %d)' % r.returncode)
        tmp = out + '.tmp%d' % os.getpid()
        with open(tmp, 'wb') as f:
            f.write(r.stdout)
        os.replace(tmp, out)
        info['cached'] = False
        info['rustc_s'] = round(time.time() - t, 2)
        # drop older dumps
        for fn in os.listdir(os.path.join(CACHE, 'mir')):
            if fn.startswith('crate-') and fn != os.path.basename(out) and not fn.endswith('.tmp%d' % os.getpid()):
                try:
                    os.remove(os.path.join(CACHE, 'mir', fn))
                except OSError:
                    pass
    text = open(out, encoding='utf-8').read()
    info['lines'] = text.count('\n')
    return text, info


_prog_cache = {}


def dump_dep_mir(repo, crate):
    """MIR of a dependency crate (as resolved by /repo's Cargo.lock), e.g. `subtle`."""
    os.makedirs(os.path.join(CACHE, 'mir'), exist_ok=True)
    out = os.path.join(CACHE, 'mir', 'dep-%s-%s.mir' % (crate, _tree_digest(repo)))
    if not os.path.exists(out) or os.path.getsize(out) == 0:
        env = dict(os.environ)
        env['CARGO_TARGET_DIR'] = os.path.join(CACHE, 'mir-target')
        env['CARGO_NET_OFFLINE'] = 'true'
        # force a rebuild of the dependency so that rustc prints its MIR
        subprocess.run(['cargo', '+nightly', 'clean', '--offline', '-p', crate, '--manifest-path', os.path.join(repo, 'Cargo.toml')],
                       env=env, stdout=subprocess.DEVNULL, stderr=subprocess.DEVNULL)
        r = subprocess.run(['cargo', '+nightly', 'rustc', '--offline', '-p', crate, '--manifest-path', os.path.join(repo, 'Cargo.toml'), '--',
                            '-Zunpretty=mir', '-C', 'debug-assertions=off', '-C', 'overflow-checks=on'],
                           env=env, stdout=subprocess.PIPE, stderr=subprocess.PIPE)
        if r.returncode != 0 or not r.stdout:
            sys.stderr.write(r.stderr.decode('utf-8', 'replace')[-3000:])
            raise RuntimeError('MIR dump of %s failed' % crate)
        with open(out, 'wb') as f:
            f.write(r.stdout)
    return open(out, encoding='utf-8').read()


def load_program(repo=REPO, deps=()):
    text, info = dump_mir(repo)
    key = (info['digest'], tuple(deps))
    if key not in _prog_cache:
        _prog_cache.clear()
        prog = mirparse.parse_program(text)
        for crate in deps:
            dp = mirparse.parse_program(dump_dep_mir(repo, crate))
            for f in dp.fns:
                f.crate = crate
                prog.add(f)
            for f in dp.consts.values():
                if f.name not in prog.consts:
                    prog.add(f)
        _prog_cache[key] = prog
    info = dict(info)
    info['deps'] = list(deps)
    return _prog_cache[key], info


_machine_cache = {}


def new_machine(prog, repo=REPO):
    m = _machine_cache.get(id(prog))
    if m is not None:
        m.reset()
        return m
    m = Machine(prog, os.path.join(repo, 'src'))
    _machine_cache.clear()
    _machine_cache[id(prog)] = m
    from . import model_regex
    model_regex.install(m)
    for modname in ('model_hash', 'model_chrono', 'model_http', 'model_misc', 'model_async'):
        try:
            mod = __import__('mirse.' + modname, fromlist=['install'])
        except ImportError:
            continue
        mod.install(m)
    return m


class PathResult:
    __slots__ = ('kind', 'value', 'ctx', 'machine', 'decisions')

    def __init__(self, kind, value, ctx, machine):
        self.kind = kind          # 'ret' | 'panic'
        self.value = value
        self.ctx = ctx
        self.machine = machine
        self.decisions = list(ctx.decisions)


def explore(prog, body, on_path, max_paths=200000, stats=None, repo=REPO, deadline=None):
    """Depth-first exploration.  `body(m, ctx)` builds inputs and runs the code under test,
    returning a value; `on_path(PathResult)` is called for every feasible terminal path
    (with the path's solver still live) and may return False to stop.  Returns number of paths."""
    stats = stats if stats is not None else {}
    stack = [[]]
    npaths = 0
    while stack:
        if deadline is not None and time.time() > deadline:
            raise Unsupported('exploration deadline exceeded')
        pre = stack.pop()
        ctx = Ctx(pre, stats)
        m = new_machine(prog, repo)
        m.ctx = ctx
        try:
            try:
                v = body(m, ctx)
                res = PathResult('ret', v, ctx, m)
            except Panic as p:
                res = PathResult('panic', p, ctx, m)
            except Infeasible:
                stack.extend(ctx.siblings)
                stats['infeasible'] = stats.get('infeasible', 0) + 1
                continue
        finally:
            stats['steps'] = stats.get('steps', 0) + m.steps
        npaths += 1
        stats['paths'] = stats.get('paths', 0) + 1
        stats.setdefault('fns', set()).update(m.fns_executed)
        stats.setdefault('summaries', set()).update(m.summaries_used)
        try:
            cont = on_path(res)
        except Infeasible:
            cont = True
        stack.extend(ctx.siblings)
        if cont is False:
            break
        if npaths >= max_paths:
            raise Unsupported('path limit %d exceeded' % max_paths)
    return npaths
