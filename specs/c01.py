"""C01 — forgery resistance: success implies a correct signature over the request as received.

Decided by MIRSE on the whole pipeline with the ideal-hash oracle.  Shapes leave the path, query, a
signed header value, the body, all 64 signature characters and the 32 key bytes symbolic (both carriers,
S3 / folding options, session token, requirement sets).  On every *accepting* path z3 must prove:
 (1) exactly one HMAC evaluation happened after key lookup, keyed with the provider's key for this call,
     over  "AWS4-HMAC-SHA256\\n" + compact-UTC(t) + "\\n" + scope + "\\n" + hex(D);
 (2) D is the digest of  method \\n path \\n query \\n (name:values\\n)* \\n signed-list \\n hex(B)  where B is
     the digest of the received body (of the empty string when folding applied), path / query are what the
     crate's own canonicalisers give for the received URI (their normal-form correctness is C09/C10), the
     header block is the reference block for the received headers;
 (3) the presented signature equals hex(HMAC output), all 64 characters.
Mutation shapes: the reference signature of request A is presented with request B that differs in one
covered component; under collision-freeness of the oracle (stated assumption, asserted as injectivity)
no accepting path may exist.
"""
import itertools
import json
import random
import sys

import z3

from .common import *
from .pipeline import *
from . import refmodel as R
from . import c02
from mirse import engine
from mirse.model_hash import oracle_of, pad_key
from mirse.model_misc import hex_encode_elems

PROP = 'C01'
TS = c02.TS
SCOPE = c02.SCOPE
AKID = c02.AKID


def shapes(tier, seed):
    out = []
    q = tier == 'quick'
    for carrier in ('header', 'query'):
        for s3 in (False, True):
            out.append(('accept', carrier, 1, 0, None, 0, s3, False, False))
        out.append(('accept', carrier, 2, 0, None, 0, False, False, False))
        out.append(('accept', carrier, 0, 2 if q else 3, None, 0, False, False, False))
        out.append(('accept', carrier, 0, 0, 'hdr', 2, False, True, False))
        out.append(('accept', carrier, 0, 0, None, 2, False, False, True))       # form folding on, non-form body
        out.append(('accept', carrier, 0, 0, 'form', 3, False, False, True))     # folded form body
        # a client-declared payload hash (x-amz-content-sha256, S3 style) next to a symbolic body: the hash that counts is that of the body received
        out.append(('accept', carrier, 0, 0, 'sha', 2, True, False, False))
        out.append(('accept', carrier, 0, 0, 'sha-unsigned', 1, False, False, False))
        # extension methods / unusual letter case: the method signed is the method received, byte for byte
        out.append(('accept', carrier, 0, 0, 'm:get', 0, False, False, False))
        out.append(('accept', carrier, 0, 0, 'm:Purge', 1, False, False, False))
        if not q:
            out.append(('accept', carrier, 3, 0, None, 0, False, False, False))
            out.append(('accept', carrier, 1, 2, 'hdr', 1, True, True, False))
        for what in ('path', 'query', 'header', 'body', 'key', 'sig', 'method', 'methodcase', 'signedlist', 'signedlist-stray', 'signedlist-leading', 'duppair', 'dupheader', 'timestamp'):
            if what == 'timestamp' and carrier == 'query':
                continue        # in the query carrier X-Amz-Date is part of the canonical query anyway
            out.append(('mutate', carrier, what))
    return out


def ascii_any(ctx, name, n, exclude=()):
    es = []
    for i in range(n):
        b = ctx.fresh_bv('%s%d' % (name, i), 8)
        c = z3.And(z3.UGT(b, 0x20), z3.ULT(b, 0x7F), b != 0x23, b != 0x3F, b != 0x22, b != 0x3C, b != 0x3E, b != 0x60)
        for x in exclude:
            c = z3.And(c, b != x)
        ctx.assume(c)
        es.append(Int('u8', b))
    return es


def crate_canon(m, path, query_parts):
    """Canonical path / query of the received request through the crate's own canonicalisers."""
    rp = m.call('canonicalize_uri_path', [mk_str(path), False], None)
    return rp


def build_accept(m, ctx, shape):
    _, carrier, plen, qlen, extra, blen, s3, token, fold = shape
    path = [Int('u8', 0x2F)] + ascii_any(ctx, 'p', plen)
    qraw = ascii_any(ctx, 'q', qlen)
    headers = [('host', conc_bytes('h'))]
    signed = ['host']
    if extra == 'hdr':
        hv = []
        for i in range(2):
            b = ctx.fresh_bv('hv%d' % i, 8)
            ctx.assume(z3.Or(b == 0x09, z3.And(z3.UGE(b, 0x20), b != 0x7F)))
            hv.append(Int('u8', b))
        headers.append(('x-e', hv))
        signed.append('x-e')
    if extra in ('sha', 'sha-unsigned'):
        dv = []
        for i in range(2):
            b = ctx.fresh_bv('dh%d' % i, 8)
            ctx.assume(z3.And(z3.UGT(b, 0x20), z3.ULT(b, 0x7F)))
            dv.append(Int('u8', b))
        headers.append(('x-amz-content-sha256', dv))
        if extra == 'sha':
            signed.append('x-amz-content-sha256')
    body = sym_bytes(ctx, 'body', blen)
    if extra == 'form':
        headers.append(('content-type', conc_bytes('application/x-www-form-urlencoded')))
        for e in body:
            ctx.assume(z3.ULT(e.v, 0x80))
    tok = None
    if token:
        tok = ascii_any(ctx, 'tok', 2, exclude=(0x25, 0x26, 0x3D, 0x2B))
    sig = sym_bytes(ctx, 'sig', 64)
    for e in sig:
        if carrier == 'query':
            # in a query string every non-unreserved character doubles the paths (it is re-encoded); keep the 64 characters
            # inside the unreserved class, which contains every hex digit a correct signature can consist of
            ctx.assume(zb(R.unreserved_f(e)))
        else:
            ctx.assume(z3.And(z3.UGT(e.v, 0x20), z3.ULT(e.v, 0x7F), e.v != 0x2C))
    cred = conc_bytes(AKID + '/' + SCOPE)
    if carrier == 'header':
        headers.append(('x-amz-date', conc_bytes(TS)))
        signed.append('x-amz-date')
        if tok is not None:
            headers.append(('x-amz-security-token', tok))
        signed.sort()
        headers.append(('authorization', auth_header(cred, signed, sig)))
        query = qraw if qlen else None
    else:
        signed.sort()
        aq = conc_bytes('X-Amz-Algorithm=AWS4-HMAC-SHA256&X-Amz-Credential=' + (AKID + '/' + SCOPE).replace('/', '%2F') +
                        '&X-Amz-Date=' + TS + '&X-Amz-SignedHeaders=' + '%3B'.join(signed))
        if tok is not None:
            aq += conc_bytes('&X-Amz-Security-Token=') + tok
        aq += conc_bytes('&X-Amz-Signature=') + sig
        query = (qraw + [Int('u8', 0x26)] if qlen else []) + aq
    method = extra[2:] if (extra or '').startswith('m:') else ('POST' if blen else 'GET')
    rq = Req(method, path, query, headers, body, 'bytes')
    return dict(rq=rq, path=path, query=query, headers=[h for h in headers if h[0] != 'authorization'], signed=signed, body=body,
                sig=sig, tok=tok, s3=s3, fold=fold, form=(extra == 'form'), carrier=carrier)


def run_shape(prog, shape, tier, seed, res):
    known = load_known_findings(PROP)
    kind = shape[0]

    def body(m, ctx):
        key = sym_bytes(ctx, 'key', 32)
        prov = provider_ok(key)
        if kind == 'accept':
            B = build_accept(m, ctx, shape)
            before = len(oracle_of(m).calls)
            r, polls = run(m, B['rq'], 'us-east-1', 'service', prov, instant(T0), None, options(B['s3'], B['fold']))
            calls = oracle_of(m).calls[before:]
            return ('accept', B, key, prov, r, calls)
        # ---- mutation: sign A with the reference signer, present the signature with B
        _, carrier, what = shape
        a = Int('u8', ctx.fresh_bv('a', 8))
        b = Int('u8', ctx.fresh_bv('b', 8))
        unres = lambda e: R.unreserved_f(e)
        ctx.assume(z3.And(unres(a), unres(b), a.v != b.v))

        def parts(x, keyx):
            path = conc_bytes('/') + ([x] if what == 'path' else conc_bytes('p'))
            pairs = [(conc_bytes('k'), [x] if what == 'query' else conc_bytes('v'))]
            wire_q = conc_bytes('k=') + ([x] if what == 'query' else conc_bytes('v'))
            if what == 'duppair' and x is b:
                # B repeats an identical parameter: a different multiset, hence a different canonical query
                pairs = pairs + pairs
                wire_q = wire_q + conc_bytes('&') + wire_q
            headers = [('host', conc_bytes('h')), ('x-e', [x] if what == 'header' else conc_bytes('e'))]
            if what == 'dupheader' and x is b:
                headers = headers + [('x-e', conc_bytes('e'))]
            signed = ['host', 'x-e'] if not (what == 'signedlist' and x is b) else ['host']
            bodyb = [x] if what == 'body' else conc_bytes('B')
            method = 'GET' if not (what == 'method' and x is b) else 'PUT'
            if what == 'methodcase' and x is b:
                method = 'get'
            return path, pairs, wire_q, headers, signed, bodyb, method
        keyA = list(key)
        keyB = list(key)
        if what == 'key':
            keyB = [Int('u8', ctx.fresh_bv('kb', 8))] + key[1:]
            ctx.assume(keyB[0].v != key[0].v)
        pathA, pairsA, wqA, hdrA, signedA, bodyA, methA = parts(a, keyA)
        pathB, pairsB, wqB, hdrB, signedB, bodyB, methB = parts(b, keyB)
        cred = conc_bytes(AKID + '/' + SCOPE)

        def finish(path, pairs, wire_q, headers, signed, bodyb, method, sig_from=None, list_text=None, ts=None):
            headers = list(headers)
            signed = list(signed)
            pairs = list(pairs)
            wire_q = list(wire_q)
            cpath = conc_bytes('/') + R.pct_encode(ctx, path[1:])
            if carrier == 'header':
                if ts is not None:
                    # 'timestamp' mutation: the date header is NOT signed, so the instant is bound by the string-to-sign alone
                    headers.append(('x-amz-date', list(ts)))
                    signed = sorted(signed)
                else:
                    headers.append(('x-amz-date', conc_bytes(TS)))
                    signed = sorted(signed + ['x-amz-date'])
                cq = R.ref_canon_query_from_pairs(ctx, pairs)
            else:
                signed = sorted(signed)
                lt = list_text(';'.join(signed)) if list_text else ';'.join(signed)
                for n, v in [('X-Amz-Algorithm', 'AWS4-HMAC-SHA256'), ('X-Amz-Credential', AKID + '/' + SCOPE), ('X-Amz-Date', TS),
                             ('X-Amz-SignedHeaders', lt)]:
                    pairs.append((conc_bytes(n), conc_bytes(v)))
                    wire_q += conc_bytes('&' + n + '=') + R.pct_encode(ctx, conc_bytes(v))
                cq = R.ref_canon_query_from_pairs(ctx, pairs)
            return cpath, cq, headers, signed, wire_q
        tsA = tsB = None
        if what == 'timestamp':
            # A is stamped hh:mm:59; B carries the same signature with other second digits (60 and 61 included: never the same instant)
            tsA = conc_bytes('20150830T123559Z')
            d1 = Int('u8', ctx.fresh_bv('ts1', 8))
            d0 = Int('u8', ctx.fresh_bv('ts0', 8))
            ctx.assume(z3.And(z3.UGE(d1.v, 0x30), z3.ULE(d1.v, 0x36), z3.UGE(d0.v, 0x30), z3.ULE(d0.v, 0x39), z3.Not(z3.And(d1.v == 0x35, d0.v == 0x39))))
            tsB = conc_bytes('20150830T1235') + [d1, d0] + conc_bytes('Z')
        cpA, cqA, hA, sA, wqA2 = finish(pathA, pairsA, wqA, hdrA, signedA, bodyA, methA, ts=tsA)
        sigA, _, _ = ref_sign(m, keyA, ctx, methA, cpA, cqA, hA, sA, bodyA, tsA if tsA is not None else conc_bytes(TS), conc_bytes(SCOPE))
        if what == 'sig':
            sigB = list(sigA)
            pos = 17
            x = Int('u8', ctx.fresh_bv('sx', 8))
            ctx.assume(z3.And(x.v != sigA[pos].z(), z3.Or(z3.And(z3.UGE(x.v, 0x30), z3.ULE(x.v, 0x39)), z3.And(z3.UGE(x.v, 0x61), z3.ULE(x.v, 0x66)))))
            sigB[pos] = x
            pathB, pairsB, wqB, hdrB, signedB, bodyB, methB = pathA, pairsA, wqA, hdrA, signedA, bodyA, methA
        else:
            sigB = sigA
        # the list text B presents (in the query carrier it is the X-Amz-SignedHeaders parameter, in the header carrier the Authorization text below)
        stray = {'signedlist-stray': (lambda t: t + ';'), 'signedlist-leading': (lambda t: ';' + t)}.get(what)
        cpB, cqB, hB, sB, wqB2 = finish(pathB, pairsB, wqB, hdrB, signedB, bodyB, methB, list_text=stray, ts=tsB)
        if carrier == 'header':
            if what in ('signedlist-stray', 'signedlist-leading'):
                # B presents A's list with an empty entry added (trailing / leading ';'): a different list text, hence not covered by A's signature
                lst = ';'.join(sB) + ';' if what == 'signedlist-stray' else ';' + ';'.join(sB)
                hB = hB + [('authorization', conc_bytes('AWS4-HMAC-SHA256 Credential=') + cred + conc_bytes(', SignedHeaders=' + lst + ', Signature=') + list(sigB))]
            else:
                hB = hB + [('authorization', auth_header(cred, sB, sigB))]
            q = wqB2
        else:
            q = wqB2 + conc_bytes('&X-Amz-Signature=') + sigB
        rq = Req(methB, pathB, q, hB, bodyB, 'bytes')
        provB = provider_ok(keyB)
        # collision-freeness of the ideal hash (assumption of the property): asserted for every pair of oracle calls
        r, polls = run(m, rq, 'us-east-1', 'service', provB, instant(T0))
        o = oracle_of(m)
        for i, ci in enumerate(o.calls):
            for cj in o.calls[:i]:
                if ci.kind != cj.kind:
                    continue
                if len(ci.msg) != len(cj.msg):
                    ctx.assume(z3.Not(zb(bytes_eq(ci.out, cj.out))))
                    continue
                same_in = zb(bytes_eq(ci.msg, cj.msg))
                if ci.kind == 'hmac':
                    same_in = z3.And(same_in, zb(bytes_eq(pad_key(ci.key), pad_key(cj.key))))
                ctx.assume(z3.Implies(zb(bytes_eq(ci.out, cj.out)), same_in))
        return ('mutate', what, (a, b), r, rq)

    def on_path(pr):
        ctx = pr.ctx
        res.obligations += 1
        if pr.kind == 'panic':
            res.findings.append(Finding('panic: %s' % pr.value.msg, {'shape': repr(shape)}, None, None, repr(shape)))
            return
        v = pr.value
        if v[0] == 'mutate':
            _, what, (a, b), r, rq = v
            o = outcome(r)
            if o[0] == 'ok':
                sat, model = ctx.satisfiable()
                if sat:
                    res.findings.append(Finding('signature issued for request A validates request B that differs in its %s' % what,
                                                {'mutation': what, 'carrier': shape[1], 'a': model_int(model, a), 'b': model_int(model, b),
                                                 'request_b': rq.to_json(model)}, None, None, repr(shape)))
                    if what == 'timestamp':
                        hv = dict((n, v) for n, v in res.findings[-1].inp['request_b']['headers'])
                        res.findings[-1].inp['ts_b'] = bytes.fromhex(hv['x-amz-date']).decode()
                else:
                    res.witnesses.add('mutate-refused')
            else:
                res.witnesses.add('mutate-refused')
            return
        _, B, key, prov, r, calls = v
        o = outcome(r)
        if o[0] != 'ok':
            res.witnesses.add('rejected')
            return
        res.witnesses.add('accept-' + B['carrier'])
        m = pr.machine

        def fail(what, prop=None):
            neg = None if prop is None else z3.Not(prop)
            preds = []      # no known finding applies to C01 (the path normal form is the crate's own; see known_findings.json)
            qn = [z3.Not(zb(p)) for _, p in preds]
            sat, model = ctx.satisfiable(z3.And(*([neg] if neg is not None else []) + qn) if (neg is not None or qn) else None)
            kid = None
            if not sat:
                sat, model = ctx.satisfiable(neg)
                kid = preds[0][0] if preds else None
            if not sat:
                return
            j = B['rq'].to_json(model)
            res.findings.append(Finding(what, {'request': j, 'key_hex': model_bytes(model, key).hex(), 's3': B['s3'], 'fold': B['fold'],
                                               'carrier': B['carrier'], 'signed': list(B['signed'])}, None, kid, repr(shape)))
        hm = [c for c in calls if c.kind == 'hmac']
        sh = [c for c in calls if c.kind == 'sha256']
        if len(hm) != 1 or len(prov.calls) != 1:
            fail('accepted with %d HMAC evaluations and %d provider calls' % (len(hm), len(prov.calls)))
            return
        if len(sh) < 2:
            fail('accepted with %d SHA-256 evaluations (body and canonical request expected)' % len(sh))
            return
        # reference pieces (crate canonicalisers for path/query, reference header block)
        pc = m.call('canonicalize_uri_path', [mk_str(B['path']), B['s3']], None)
        if pc.variant != 'Ok':
            fail('accepted although the path does not canonicalise')
            return
        cpath = pc.fields[0].elems
        folded = B['fold'] and B['form']
        qsrc = list(B['query'] or [])
        if folded:
            qsrc = qsrc + ([Int('u8', 0x26)] if qsrc else []) + list(B['body'])
        qm = m.call('query_string_to_normalized_map', [mk_str(qsrc)], None)
        if qm.variant != 'Ok':
            fail('accepted although the query string does not canonicalise')
            return
        cq = m.call('canonicalize_query_to_string', [Ptr(Cell(qm.fields[0]), ())], None).elems
        body_ref = [] if folded else list(B['body'])
        # which sha call hashed the body / the canonical request: by position (first = body, last = canonical request)
        bcall, ccall = sh[0], sh[-1]
        obligations = []
        if len(bcall.msg) != len(body_ref):
            fail('payload hash is not over the received body (length %d vs %d)' % (len(bcall.msg), len(body_ref)))
            return
        obligations.append(bytes_eq(bcall.msg, body_ref))
        creq = ref_canonical_request(ctx, B['rq'].method, cpath, cq, B['headers'], B['signed'], hex_encode_elems(bcall.out))
        if len(ccall.msg) != len(creq):
            fail('canonical request hashed by the code has length %d, reference assembly %d' % (len(ccall.msg), len(creq)))
            return
        obligations.append(bytes_eq(ccall.msg, creq))
        sts = ref_string_to_sign(conc_bytes(TS), conc_bytes(SCOPE), hex_encode_elems(ccall.out))
        if len(hm[0].msg) != len(sts):
            fail('string-to-sign has length %d, reference %d' % (len(hm[0].msg), len(sts)))
            return
        obligations.append(bytes_eq(hm[0].msg, sts))
        obligations.append(bytes_eq(pad_key(hm[0].key), pad_key(key)))
        obligations.append(bytes_eq(B['sig'], hex_encode_elems(hm[0].out)))
        prop = zb(zand(*obligations))
        okv, _ = ctx.valid(prop)
        if not okv:
            names = ['payload hash input = received body', 'canonical request = reference assembly of the received request',
                     'string-to-sign = algorithm/timestamp/scope/hash', 'HMAC key = key returned by the provider', 'signature = hex(HMAC)']
            bad = [n for n, ob in zip(names, obligations) if not ctx.valid(zb(ob))[0]]
            fail('accepted although: ' + '; '.join('NOT ' + b for b in bad), prop)
        # the provider was asked for the key of this request's access key / token
        rq0 = request_record(None, prov.calls[0])
        tokp = rq0['session_token']
        if B['tok'] is None:
            if tokp.variant != 'None':
                fail('provider received a session token the request does not carry')
        elif tokp.variant != 'Some' or not ctx.valid(zb(bytes_eq(tokp.fields[0].elems, B['tok'])))[0]:
            fail('provider received a different session token than the request carries')
        if len(res.samples) < 1:
            sat, model = ctx.satisfiable()
            res.samples.append({'accepted': B['rq'].to_json(model)['uri'][:100], 'carrier': B['carrier']})

    engine.explore(prog, body, on_path, stats=res.stats)


# --------------------------------------------------------------------------- concrete side

def replay_finding(rp, f):
    inp = f.inp
    if 'request_b' in inp:
        # replay: sign request A with real digests (zero signing key), present that signature with request B natively
        what, carrier = inp['mutation'], inp['carrier']
        a, b = chr(inp['a']), chr(inp['b'])

        def parts(x, is_b):
            path = '/' + (x if what == 'path' else 'p')
            q = 'k=' + (x if what == 'query' else 'v')
            if what == 'duppair' and is_b:
                q = q + '&' + q
            headers = [['host', b'h'.hex()], ['x-e', (x if what == 'header' else 'e').encode().hex()]]
            if what == 'dupheader' and is_b:
                headers.append(['x-e', b'e'.hex()])
            signed = ['host', 'x-e'] if not (what == 'signedlist' and is_b) else ['host']
            body = (x if what == 'body' else 'B').encode()
            method = 'GET' if not (what == 'method' and is_b) else 'PUT'
            if what == 'methodcase' and is_b:
                method = 'get'
            return path, q, headers, signed, body, method

        def mk(x, is_b):
            path, q, headers, signed, body, method = parts(x, is_b)
            ts_here = TS
            if carrier == 'header' and what == 'timestamp':
                ts_here = inp['ts_b'] if is_b else '20150830T123559Z'
                headers = headers + [['x-amz-date', ts_here.encode().hex()]]
                signed = sorted(signed)
                uri = path + '?' + q
            elif carrier == 'header':
                headers = headers + [['x-amz-date', TS.encode().hex()]]
                signed = sorted(signed + ['x-amz-date'])
                uri = path + '?' + q
            else:
                signed = sorted(signed)
                lt = '%3B'.join(signed)
                if is_b and what == 'signedlist-stray':
                    lt += '%3B'
                elif is_b and what == 'signedlist-leading':
                    lt = '%3B' + lt
                uri = path + '?' + q + '&X-Amz-Algorithm=AWS4-HMAC-SHA256&X-Amz-Credential=%s&X-Amz-Date=%s&X-Amz-SignedHeaders=%s' % (
                    (AKID + '/' + SCOPE).replace('/', '%2F'), TS, lt)
            return {'carrier': carrier, 'request': {'method': method, 'uri': uri, 'version': 'HTTP/1.1', 'headers': headers,
                                                    'body_hex': body.hex(), 'body_kind': 'bytes'}, 'signed': signed, 's3': False, 'ts': ts_here}
        if what in ('key', 'sig'):
            return False, {'note': 'key / signature-digit mutations are replayed by the conformance run (wrong-signature cases)'}
        ja, _, _ = sign_with_method(mk(a, False))
        jb_unsigned = mk(b, True)
        # transplant A's signature onto B
        if carrier == 'header':
            authz = [h for h in ja['headers'] if h[0] == 'authorization'][0]
            hv = bytes.fromhex(authz[1]).decode()
            sig = hv.rsplit('Signature=', 1)[1]
            sb = ';'.join(jb_unsigned['signed'])
            if what == 'signedlist-stray':
                sb = sb + ';'
            elif what == 'signedlist-leading':
                sb = ';' + sb
            jb = dict(jb_unsigned['request'])
            jb['headers'] = jb['headers'] + [['authorization', ('AWS4-HMAC-SHA256 Credential=%s/%s, SignedHeaders=%s, Signature=%s' % (AKID, SCOPE, sb, sig)).encode().hex()]]
        else:
            sig = ja['uri'].rsplit('X-Amz-Signature=', 1)[1]
            jb = dict(jb_unsigned['request'])
            jb['uri'] = jb['uri'] + '&X-Amz-Signature=' + sig
        nat = native_validate(rp, jb, 'us-east-1', 'service', T0, provider={'result': {'signing_key_hex': '00' * 32}})
        accepted = 'ok' in nat.get('result', {})
        return accepted, {'request_b': jb['uri'][:200], 'native_accepts_signature_of_A': accepted}
    if 'request' not in inp:
        return False, None
    # an accepted request whose hash inputs deviate: natively, acceptance with a signature that is NOT the reference signature
    j = inp['request']
    key = bytes.fromhex(inp['key_hex'])
    nat = native_validate(rp, j, 'us-east-1', 'service', T0, provider={'result': {'signing_key_hex': '00' * 32}},
                          opts={'s3': inp['s3'], 'url_encode_form': inp['fold']})
    res = nat.get('result', {})
    # re-sign the received request with the independent reference signer under the zero key and compare behaviour:
    # the defect reproduces if the native code accepts a signature different from the reference one, or refuses the reference one
    uri = j['uri']
    hdrs = [h for h in j['headers'] if h[0] != 'authorization']
    carrier = inp['carrier']
    signed = sorted({h[0] for h in hdrs if h[0] in ('host', 'x-e', 'x-amz-date')})
    if inp.get('signed'):
        signed = sorted(inp['signed'])
    if carrier == 'query':
        i = uri.find('&X-Amz-Signature=')
        base = uri[:i] if i >= 0 else uri
        signed = [s for s in signed if s != 'x-amz-date']
    else:
        base = uri
    try:
        rq_ref = dict(j, uri=base, headers=hdrs)
        folded = inp['fold'] and any(h[0] == 'content-type' and bytes.fromhex(h[1]).startswith(b'application/x-www-form-urlencoded') for h in hdrs)
        if folded:
            # reference for a folded form: the body joins the query and the payload hash is that of the empty string
            sep = '&' if '?' in base else '?'
            rq_sign = dict(rq_ref, uri=base + sep + bytes.fromhex(j['body_hex']).decode('latin-1'), body_hex='')
            j2s, creq, sts = sign_with_method({'carrier': carrier, 'request': rq_sign, 'signed': signed, 's3': inp['s3']})
            j2 = dict(rq_ref)
            if carrier == 'header':
                j2['headers'] = hdrs + [j2s['headers'][-1]]
            else:
                j2['uri'] = base + '&X-Amz-Signature=' + j2s['uri'].rsplit('X-Amz-Signature=', 1)[1]
        else:
            j2, creq, sts = sign_with_method({'carrier': carrier, 'request': rq_ref, 'signed': signed, 's3': inp['s3']})
    except Exception as e:
        return False, {'replay_error': repr(e)}
    nat2 = native_validate(rp, j2, 'us-east-1', 'service', T0, provider={'result': {'signing_key_hex': '00' * 32}},
                           opts={'s3': inp['s3'], 'url_encode_form': inp['fold']})
    ok2 = 'ok' in nat2.get('result', {})
    return (not ok2), {'reference_signed_request_accepted_natively': ok2, 'native': nat2.get('result'), 'uri': j2['uri'][:200]}


def sign_with_method(inp):
    """c02.sign_concrete with the request's own method."""
    j = json.loads(json.dumps(inp['request']))
    uri = j['uri']
    path, _, query = uri.partition('?')
    headers = [(n, bytes.fromhex(v)) for n, v in j['headers']]
    cp, cq = c02.py_canon(path, query)
    sig, creq, sts = py_sign(bytes(32), j['method'], cp, cq, headers, inp['signed'], bytes.fromhex(j['body_hex']), inp.get('ts', TS), SCOPE, is_key=True)
    if inp['carrier'] == 'header':
        authz = 'AWS4-HMAC-SHA256 Credential=%s/%s, SignedHeaders=%s, Signature=%s' % (AKID, SCOPE, ';'.join(inp['signed']), sig)
        j['headers'].append(['authorization', authz.encode().hex()])
    else:
        j['uri'] = uri + '&X-Amz-Signature=' + sig
    return j, creq, sts


def conformance(prog, rp, seed, tier):
    # same translator validation as C02 (pipeline on really signed requests) plus one wrong-signature case per carrier
    n, mism = c02.conformance(prog, rp, seed, tier)
    for carrier in ('header', 'query'):
        inp = {'carrier': carrier, 'request': {'method': 'GET', 'uri': '/x?a=1' if carrier == 'header' else
                                               '/x?a=1&X-Amz-Algorithm=AWS4-HMAC-SHA256&X-Amz-Credential=' + (AKID + '/' + SCOPE).replace('/', '%2F') +
                                               '&X-Amz-Date=' + TS + '&X-Amz-SignedHeaders=host', 'version': 'HTTP/1.1',
                                               'headers': [['host', b'h'.hex()]] + ([['x-amz-date', TS.encode().hex()]] if carrier == 'header' else []),
                                               'body_hex': '', 'body_kind': 'bytes'},
               'signed': ['host', 'x-amz-date'] if carrier == 'header' else ['host'], 's3': False}
        j, _, _ = c02.sign_concrete(inp)
        # flip one hex digit of the signature
        if carrier == 'header':
            hv = bytes.fromhex(j['headers'][-1][1]).decode()
            hv = hv[:-1] + ('0' if hv[-1] != '0' else '1')
            j['headers'][-1][1] = hv.encode().hex()
        else:
            j['uri'] = j['uri'][:-1] + ('0' if j['uri'][-1] != '0' else '1')
        nat = native_validate(rp, j, 'us-east-1', 'service', T0, provider={'result': {'signing_key_hex': '00' * 32}})
        res = nat.get('result', {})
        nk = 'ok' if 'ok' in res else res.get('err', {}).get('kind', 'panic')
        mine = c02.mirse_concrete(prog, j, False)
        n += 1
        if mine != nk:
            mism.append({'uri': j['uri'][:150], 'mirse': mine, 'native': nk})
    return n, mism


def describe(f):
    return '%s -> %s' % (json.dumps(f.inp)[:600], json.dumps(f.detail, default=str)[:400])


def bounds(tier):
    return ('both carriers; accepting paths of requests with path bytes <= %d, raw query bytes <= %d, a signed header of 2 symbolic bytes, '
            'body <= 3 bytes (also as folded form body and as non-form body with folding on), S3 mode, session token; all 64 signature '
            'characters (any visible ASCII in the header carrier, any unreserved character in the query carrier) and 32 key bytes symbolic; mutation shapes: one covered component (path byte, query value, signed header value, body '
            'byte, key byte, one signature digit, method, signed-header list, a repeated identical query parameter, a repeated signed header) changed between signing and presentation' % (
                2 if tier == 'quick' else 3, 2 if tier == 'quick' else 3))


OUTSIDE = ('longer components; SHA-256/HMAC internals (ideal hash; collision-freeness is asserted as an assumption in the mutation shapes); '
           'correctness of the path/query normal forms themselves (C09/C10); the http crate\'s parsing of the wire into Request')
NEED_WITNESSES = {'accept-header', 'accept-query', 'rejected', 'mutate-refused'}
ASSUMPTIONS = ['ideal-hash oracle: fresh output per distinct input, functional consistency; injectivity (collision resistance) asserted in mutation shapes',
               'the provider returns the key directly (key derivation is C06)']


def main(argv):
    return run_check(sys.modules[__name__], argv)


if __name__ == '__main__':
    sys.exit(main(sys.argv))
