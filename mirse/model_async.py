"""Futures, Pin, tower::ServiceExt::oneshot and a scriptable key provider; subtle::ct_eq summary.

`Oneshot` follows tower 0.4's documented state machine: NotReady -> poll_ready until Ready ->
call exactly once -> poll the returned future until Ready -> Done.  The provider is supplied by
the harness (`Provider`), records every interaction and answers according to its script.
"""
import z3

from .values import *
from .lib_std import elems_of, deref, concrete_bytes, bytes_eq, display
from .interp import zb


def pending():
    return Adt('Poll', 'Pending', [])


def ready(v):
    return Adt('Poll', 'Ready', [v])


def pin(p):
    return Adt('Pin', None, [p])


class Provider:
    """Scripted `tower::Service<GetSigningKeyRequest>`.

    ready_pending: number of Pending answers of poll_ready before Ready
    ready_err:     None or an error value (Box<dyn Error>) returned by poll_ready
    future_pending: number of Pending answers of the returned future
    result:        callable(machine, request) -> Result value (ok(response) / err(box))
    """
    rust_type = 'Provider'

    def __init__(self, result, ready_pending=0, ready_err=None, future_pending=0):
        self.result = result
        self.ready_pending = ready_pending
        self.ready_err = ready_err
        self.future_pending = future_pending
        self.events = []
        self.calls = []
        self.ready_seen = False
        self.polls_ready = 0

    def poll_ready(self, m):
        self.polls_ready += 1
        if self.ready_pending > 0:
            self.ready_pending -= 1
            self.events.append('poll_ready:pending')
            return pending()
        if self.ready_err is not None:
            self.events.append('poll_ready:err')
            return ready(err(self.ready_err))
        self.events.append('poll_ready:ready')
        self.ready_seen = True
        return ready(ok(unit()))

    def call(self, m, req):
        self.events.append('call' if self.ready_seen else 'call-before-ready')
        self.ready_seen = False
        self.calls.append(req)
        return ProviderFuture(self, req)


class ProviderFuture:
    rust_type = 'ProviderFuture'

    def __init__(self, prov, req):
        self.prov = prov
        self.req = req
        self.left = prov.future_pending
        self.done = False

    def poll(self, m):
        if self.done:
            raise Panic('provider future polled after completion')
        if self.left > 0:
            self.left -= 1
            self.prov.events.append('future:pending')
            return pending()
        self.done = True
        self.prov.events.append('future:ready')
        return ready(self.prov.result(m, self.req))


class ReadyFut:
    """tower::ServiceExt::ready: polls poll_ready until it is Ready; output Result<&mut S, S::Error>."""
    rust_type = 'ReadyFut'

    def __init__(self, svc):
        self.svc = svc
        self.done = False

    def poll(self, m):
        if self.done:
            raise Panic('Ready polled after completion')
        svc = deref(m, self.svc)
        r = svc.poll_ready(m)
        if r.variant == 'Pending':
            return pending()
        self.done = True
        res = r.fields[0]
        if res.variant == 'Err':
            return ready(err(res.fields[0]))
        return ready(ok(self.svc))


class Oneshot:
    rust_type = 'Oneshot'

    def __init__(self, svc, req):
        self.state = 'NotReady'
        self.svc = svc
        self.req = req
        self.fut = None

    def poll(self, m):
        while True:
            if self.state == 'NotReady':
                svc = deref(m, self.svc)
                r = svc.poll_ready(m)
                if r.variant == 'Pending':
                    return pending()
                res = r.fields[0]
                if res.variant == 'Err':
                    self.state = 'Done'
                    return ready(err(res.fields[0]))
                self.fut = svc.call(m, self.req)
                self.state = 'Called'
                continue
            if self.state == 'Called':
                r = self.fut.poll(m)
                if r.variant == 'Pending':
                    return pending()
                self.state = 'Done'
                return ready(r.fields[0])
            raise Panic('polled after complete')


def poll_future(m, fut_pin, cx):
    """Future::poll on whatever the pinned pointer designates."""
    p = fut_pin
    # unwrap Pin<..> layers and pointers down to the future object, remembering the innermost cell
    last_ptr = None
    obj = p
    while True:
        if isinstance(obj, Adt) and obj.name == 'Pin':
            obj = obj.fields[0]
            continue
        if isinstance(obj, Ptr):
            last_ptr = obj
            obj = m.load(obj)
            continue
        if isinstance(obj, BoxObj):
            last_ptr = Ptr(obj.cell, ())
            obj = obj.cell.v
            continue
        break
    if isinstance(obj, Coroutine):
        return m.run_body(obj.fn, [pin(last_ptr), cx])
    if hasattr(obj, 'poll'):
        return obj.poll(m)
    raise Unsupported('poll of %r' % (obj,))


def block_on(m, fut, max_polls=50):
    """Harness executor: poll until Ready (bounded)."""
    cell = Cell(fut)
    cx = Ptr(Cell(Opaque('Context')), ())
    n = 0
    while True:
        n += 1
        r = poll_future(m, pin(Ptr(cell, (), None, True)), cx)
        if r.variant == 'Ready':
            return r.fields[0], n
        if n >= max_polls:
            raise Unsupported('future still pending after %d polls' % n)


def install(m):
    L = m.lib

    L['Pin::new_unchecked'] = lambda m, a, c, rt: pin(a[0])
    L['new_unchecked'] = L['Pin::new_unchecked']
    L['Pin::new'] = L['Pin::new_unchecked']
    L['Box::pin'] = lambda m, a, c, rt: pin(BoxObj(a[0]))
    L['into_future'] = lambda m, a, c, rt: a[0]
    L['poll'] = lambda m, a, c, rt: poll_future(m, a[0], a[1])
    L['Future::poll'] = L['poll']
    L['oneshot'] = lambda m, a, c, rt: Oneshot(a[0], a[1])
    L['ServiceExt::ready'] = lambda m, a, c, rt: ReadyFut(a[0])
    L['ready'] = L['ServiceExt::ready']
    L['ServiceExt::oneshot'] = L['oneshot']

    def poll_ready(m, a, c, rt):
        return deref(m, a[0]).poll_ready(m)
    L['poll_ready'] = poll_ready

    def svc_call(m, a, c, rt):
        f = deref(m, a[0])
        if isinstance(f, (Closure, FnItem)):
            # Fn::call / FnMut::call_mut on a closure held in a local: the argument is the tuple of parameters
            args = a[1].fields if isinstance(a[1], Tuple) else [a[1]]
            return m.call_value(a[0] if isinstance(a[0], (Closure, FnItem)) else f, list(args))
        return f.call(m, a[1])
    L['Service::call'] = svc_call
    L['call'] = svc_call

    def downcast(m, a, c, rt):
        b = a[0]
        want = c.generics or ''
        from .interp import type_base
        wb = type_base(want)
        if isinstance(b, BoxObj) and b.dyn == wb:
            return ok(BoxObj(b.cell.v))
        return err(b)
    L['downcast'] = downcast

    # subtle: functional summary (the MIR of subtle is executed instead in the C07 check)
    def ct_eq(m, a, c, rt):
        x, y = elems_of(m, a[0]), elems_of(m, a[1])
        e = bytes_eq(x, y)
        if isinstance(e, bool):
            return Adt('Choice', None, [Int('u8', 1 if e else 0)])
        return Adt('Choice', None, [Int('u8', z3.If(e, z3.BitVecVal(1, 8), z3.BitVecVal(0, 8)))])
    L['ct_eq'] = ct_eq

    def choice_into(m, v):
        b = v.fields[0]
        if not b.sym:
            return b.v != 0
        return b.v != 0
    L['convert:bool'] = lambda m, v: choice_into(m, v)
    L['unwrap_u8'] = lambda m, a, c, rt: deref(m, a[0]).fields[0]
