"""C17 — no key material or valid signature leaks through errors, Debug/Display or logs.

Decided by MIRSE as non-interference.  Secret symbols are the 32 bytes of the signing key handed out by the
provider, the bytes of a raw secret key, and every HMAC output computed from them (derived keys and the expected
signature of a refused request).  Observables are: the returned error (Display and Debug, rendered by executing the
crate's own `fmt` MIR against a Formatter model), Debug / Display of every key type, of GetSigningKeyRequest /
Response, SigV4Authenticator (+Builder), SigV4AuthenticatorResponse and CanonicalRequest, and every `log` record
at level Debug or above (the logger model is set to max level Debug; a run at Trace is kept as contrast and must
show the known, permitted trace-level flow of the expected signature).  Obligation: no observable byte term
mentions a secret symbol; if one does, z3 is asked for two secrets that make the observable differ (a real
dependency), which is then replayed natively by searching captured output for the key in raw, hex and base64 form.
"""
import base64
import json
import random
import sys

import z3

from .common import *
from .pipeline import *
from .defects import *
from mirse import engine
from mirse import model_chrono as C
from mirse import model_async as A
from mirse.lib_std import Formatter, display, debug
from mirse.model_hash import oracle_of

PROP = 'C17'
# formatting / trimming of 40-64 symbolic secret bytes: decisions about one byte at a time dominate, the engine's byte shortcut pays off
from mirse import interp as _interp
_interp.BYTE_SHORTCUT = True

OUTCOMES = ['ok', 'signature', 'sig-anycase', 'sig-short', 'sig-long', 'sig-empty', 'expired', 'scope_region', 'arity', 'date', 'host', 'path', 'provider-sig', 'provider-foreign']


def shapes(tier, seed):
    out = []
    for carrier in ('header', 'query'):
        for oc in OUTCOMES:
            out.append(('pipeline', carrier, oc, 'Debug'))
        out.append(('pipeline', carrier, 'signature', 'Trace'))
    out.append(('fmt', 'keys'))
    out.append(('fmt', 'structs'))
    out.append(('fmt', 'toolong', 41))
    out.append(('fmt', 'toolong', 64))
    return out


def symbolic_signature(D, carrier, ctx):
    """Replace the presented signature by 64 symbolic hex digits of either letter case (public input)."""
    good = D.good_sig
    sig = []
    for i in range(64):
        b = ctx.fresh_bv('PRESENTED_sig%d' % i, 8)
        ctx.assume(z3.Or(z3.And(z3.UGE(b, 0x30), z3.ULE(b, 0x39)), z3.And(z3.UGE(b, 0x61), z3.ULE(b, 0x66)), z3.And(z3.UGE(b, 0x41), z3.ULE(b, 0x46))))
        sig.append(Int('u8', b))

    def swap(es):
        b = bytes(e.v for e in es)
        i = b.find(good.encode())
        return list(es[:i]) + sig + list(es[i + 64:]) if i >= 0 else es
    if carrier == 'header':
        D.req.headers = [(n, swap(v) if n == 'authorization' else v) for n, v in D.req.headers]
    else:
        D.req.query = swap(D.req.query)
    return sig


def retouch_signature(D, carrier, oc):
    """Replace the presented (valid) signature by one of another length: truncated, extended, empty."""
    good = D.good_sig
    new = good[:63] if oc == 'sig-short' else good + '0' if oc == 'sig-long' else ''

    def swap(es):
        b = bytes(e.v for e in es)
        i = b.find(good.encode())
        return conc_bytes(b[:i] + new.encode() + b[i + 64:]) if i >= 0 else es
    if carrier == 'header':
        D.req.headers = [(n, swap(v) if n == 'authorization' else v) for n, v in D.req.headers]
    else:
        D.req.query = swap(D.req.query)


def term_vars(t, acc, seen):
    if not z3.is_expr(t):
        return
    k = t.get_id()
    if k in seen:
        return
    seen[k] = t
    if z3.is_const(t) and t.decl().kind() == z3.Z3_OP_UNINTERPRETED:
        acc.add(t.decl().name())
        return
    for c in t.children():
        term_vars(c, acc, seen)


def secret_vars_in(elems):
    acc, seen = set(), {}
    for e in elems:
        if isinstance(e, Int) and e.sym:
            term_vars(e.v, acc, seen)
    return {v for v in acc if v.startswith('SECRET') or v.startswith('hmac')}


def render(m, v, how):
    """how: display | debug | display# | debug#  (# = the alternate flag, {:#} / {:#?})"""
    out = []
    alt = how.endswith('#')
    if how.startswith('display'):
        display(m, Ptr(Cell(v), ()), out, alt)
    else:
        debug(m, Ptr(Cell(v), ()), out, alt)
    return out


def run_shape(prog, shape, tier, seed, res):
    kind = shape[0]

    def body(m, ctx):
        observables = []          # (label, elems)
        if kind == 'pipeline':
            _, carrier, oc, level = shape
            m.log_max_level = 4 if level == 'Debug' else 5
            names = flag_names(carrier)
            flags = {n: (z3.BoolVal(True) if n == oc else False) for n in names}
            key = [Int('u8', ctx.fresh_bv('SECRET_key%d' % i, 8)) for i in range(32)]
            D = Defective(m, ctx, carrier, flags, key=bytes(32))
            if oc in ('sig-short', 'sig-long', 'sig-empty'):
                retouch_signature(D, carrier, oc)
            presented = symbolic_signature(D, carrier, ctx) if oc == 'sig-anycase' else None
            n_before = len(oracle_of(m).calls)
            # the provider hands out the *symbolic* key: a correct signature cannot be precomputed, so "ok" uses the concrete zero key
            if oc == 'ok':
                pkey = conc_bytes(bytes(32))
            else:
                pkey = key
            if oc == 'provider-sig':
                rfun = lambda mm, rq: err(BoxObj(sig_error('InvalidClientTokenId', 'no such key'), dyn='SignatureError'))
            elif oc == 'provider-foreign':
                rfun = lambda mm, rq: err(BoxObj(Opaque('foreign_error', 'backend down'), dyn='StringError'))
            else:
                rfun = lambda mm, rq: ok(key_response(pkey))
            prov = A.Provider(rfun)
            r, polls = run(m, D.req, 'us-east-1', 'service', prov, D.server, D.reqs)
            o = outcome(r)
            if o[0] == 'err':
                e = o[2]
                if isinstance(e, Adt):
                    observables.append(('error Display', render(m, e, 'display')))
                    observables.append(('error Debug', render(m, e, 'debug')))
            else:
                parts, rbody, resp = o[1]
                observables.append(('response Debug', render(m, resp, 'debug')))
            for lvl, text in m.log_records:
                observables.append(('log %s' % lvl, text))
            hm = [c_ for c_ in oracle_of(m).calls[n_before:] if c_.kind == 'hmac']
            if o[0] == 'err' and hm:
                # the signature the server computed for this refused request (semantic check in on_path: no observable may spell it out)
                from mirse.model_misc import hex_encode_elems
                observables.append(('__expected_signature', hex_encode_elems(hm[-1].out)))
            return observables, ('ok' if o[0] == 'ok' else o[1]), [l for l, _ in m.log_records]
        if shape[1] == 'toolong':
            # the error value that from_str really returns for a secret that does not fit
            n_long = shape[2]
            m.log_max_level = 4
            m.x_generics = {'M': Int('usize', 44)}
            long_secret = [Int('u8', ctx.fresh_bv('SECRET_long%d_%d' % (n_long, i), 8)) for i in range(n_long)]
            for i_, e in enumerate(long_secret):
                if 0 < i_ < n_long - 1:
                    ctx.assume(z3.And(z3.UGE(e.v, 0x21), z3.ULT(e.v, 0x7F), e.v != 0x22, e.v != 0x5C, e.v != 0x27))
                else:
                    # first / last byte may also be a blank, a tab or a line feed (a key read from a file with its trailing newline)
                    ctx.assume(z3.Or(z3.And(z3.UGE(e.v, 0x20), z3.ULT(e.v, 0x7F), e.v != 0x22, e.v != 0x5C, e.v != 0x27), e.v == 0x09, e.v == 0x0A))
            rerr = m.call('<KSecretKey<M> as FromStr>::from_str', [mk_str(long_secret)], None)
            if rerr.variant != 'Err':
                raise Unsupported('from_str accepted a %d-byte secret for M=44' % n_long)
            for how, lab in (('debug', 'Debug'), ('debug#', 'Debug#'), ('display', 'Display'), ('display#', 'Display#')):
                observables.append(('from_str(%d bytes) error %s' % (n_long, lab), render(m, rerr.fields[0], how)))
            for lvl, text in m.log_records:
                if lvl != 'Trace':
                    observables.append(('log %s (key construction)' % lvl, text))
            return observables, 'fmt', []
        # ---- Debug / Display of public values built from a symbolic secret (logger at Debug: records emitted on the way are observables too)
        m.log_max_level = 4
        m.x_generics = {'M': Int('usize', 44)}
        secret = [Int('u8', ctx.fresh_bv('SECRET_raw%d' % i, 8)) for i in range(40)]
        for i, e in enumerate(secret):
            ctx.assume(z3.ULT(e.v, 0x80))
            if 0 < i < len(secret) - 1:
                # inner bytes: printable ASCII other than blank, quote and backslash (bounds the paths of trim-like scans and of Debug
                # escaping, which fork per byte class); the first and the last byte may also be a blank, a tab or a line feed
                ctx.assume(z3.And(z3.UGE(e.v, 0x21), z3.ULT(e.v, 0x7F), e.v != 0x22, e.v != 0x5C))
            else:
                ctx.assume(z3.Or(z3.And(z3.UGE(e.v, 0x20), z3.ULT(e.v, 0x7F), e.v != 0x22, e.v != 0x5C), e.v == 0x09, e.v == 0x0A))
        ks = m.call('<KSecretKey<M> as FromStr>::from_str', [mk_str(secret)], None).fields[0]
        date = C.NaiveDate(2015, 8, 30)
        kd = m.call('KSecretKey::to_kdate', [Ptr(Cell(ks), ()), date], None)
        kr = m.call('KDateKey::to_kregion', [Ptr(Cell(kd), ()), str_ptr('r')], None)
        kv = m.call('KRegionKey::to_kservice', [Ptr(Cell(kr), ()), str_ptr('s')], None)
        kg = m.call('KServiceKey::to_ksigning', [Ptr(Cell(kv), ())], None)
        if shape[1] == 'keys':
            for nm, v in (('KSecretKey', ks), ('KDateKey', kd), ('KRegionKey', kr), ('KServiceKey', kv), ('KSigningKey', kg)):
                observables.append((nm + ' Debug', render(m, v, 'debug')))
                observables.append((nm + ' Debug#', render(m, v, 'debug#')))
                observables.append((nm + ' Display', render(m, v, 'display')))
                observables.append((nm + ' Display#', render(m, v, 'display#')))
        else:
            resp = Adt('GetSigningKeyResponse', None, [PRINCIPAL, SESSION, kg], ['principal', 'session_data', 'signing_key'])
            observables.append(('GetSigningKeyResponse Debug', render(m, resp, 'debug')))
            observables.append(('GetSigningKeyResponse Debug#', render(m, resp, 'debug#')))
            rb = m.call('GetSigningKeyResponseBuilder::create_empty', [], None)
            rb.fields[2] = some(kg)
            req = Adt('GetSigningKeyRequest', None, [mk_string('AKID'), some(mk_string('tok')), date, mk_string('r'), mk_string('s')],
                      ['access_key', 'session_token', 'request_date', 'region', 'service'])
            observables.append(('GetSigningKeyRequest Debug', render(m, req, 'debug')))
            observables.append(('GetSigningKeyRequest Debug#', render(m, req, 'debug#')))
            from .c04 import mk_auth
            sigbytes = [Int('u8', ctx.fresh_bv('sig%d' % i, 8)) for i in range(4)]
            for e in sigbytes:
                ctx.assume(z3.And(z3.UGE(e.v, 0x30), z3.ULE(e.v, 0x39)))
            auth = mk_auth(conc_bytes('AKID/20150830/r/s/aws4_request'), instant(T0), sigbytes)
            observables.append(('SigV4Authenticator Debug', render(m, auth, 'debug')))
            observables.append(('SigV4Authenticator Debug#', render(m, auth, 'debug#')))
            ar = Adt('SigV4AuthenticatorResponse', None, [PRINCIPAL, SESSION], ['principal', 'session_data'])
            observables.append(('SigV4AuthenticatorResponse Debug', render(m, ar, 'debug')))
            observables.append(('SigV4AuthenticatorResponse Debug#', render(m, ar, 'debug#')))
            ab = m.call('SigV4AuthenticatorBuilder::create_empty', [], None)
            ab.fields[3] = some(VecObj(list(sigbytes), 'string'))
            observables.append(('SigV4AuthenticatorBuilder Debug', render(m, ab, 'debug')))
            observables.append(('SigV4AuthenticatorBuilder Debug#', render(m, ab, 'debug#')))
            # CanonicalRequest Debug of a small request
            rq = Req('GET', b'/p', b'b=2&a=1', [('host', conc_bytes('h')), ('x-amz-date', conc_bytes('20150830T123600Z'))], b'xy').build()
            cr = m.call('CanonicalRequest::from_request_parts', [rq.parts, rq.body, options()], None)
            m.hash_order = 'two'
            observables.append(('CanonicalRequest Debug', render(m, cr.fields[0].fields[0], 'debug')))
            observables.append(('CanonicalRequest Debug#', render(m, cr.fields[0].fields[0], 'debug#')))
        for lvl, text in m.log_records:
            if lvl != 'Trace':
                observables.append(('log %s (key construction / derivation)' % lvl, text))
        return observables, 'fmt', []

    def on_path(pr):
        ctx = pr.ctx
        if pr.kind == 'panic':
            res.obligations += 1
            res.findings.append(Finding('panic: %s' % pr.value.msg, {'shape': repr(shape)}, None, None, repr(shape)))
            return
        observables, oc, levels = pr.value
        res.witnesses.add('outcome:' + str(oc))
        trace_run = kind == 'pipeline' and shape[3] == 'Trace'
        leaked_any = False
        expected_sig = [e for l, e in observables if l == '__expected_signature']
        observables = [(l, e) for l, e in observables if l != '__expected_signature']
        if expected_sig and not trace_run:
            # semantic leak: some 64-byte window of an observable CAN equal the signature the server computed for the refused request
            # (catches texts derived from public input that coincide with the secret on this path, which symbol tracking cannot see)
            exp = expected_sig[0]
            for label, elems in observables:
                if label.startswith('log Trace'):
                    continue
                res.obligations += 1
                for off in range(0, len(elems) - 63):
                    win = elems[off:off + 64]
                    if not any(isinstance(e, Int) and e.sym for e in win):
                        continue
                    sat, model = ctx.satisfiable(zb(bytes_eq(win, exp)))
                    if sat:
                        res.findings.append(Finding('%s can spell out the signature the server computed for the refused request' % label,
                                                    {'shape': list(shape), 'observable': label}, None, None, repr(shape)))
                        break
        for label, elems in observables:
            res.obligations += 1
            sv = secret_vars_in(elems)
            if not sv:
                continue
            # a secret symbol occurs in the observable: is it a real dependency?  substitute a second copy of the secrets
            subs = []
            acc, seen = set(), {}
            for e in elems:
                if isinstance(e, Int) and e.sym:
                    term_vars(e.v, acc, seen)
            for t in seen.values():
                if z3.is_const(t) and t.decl().kind() == z3.Z3_OP_UNINTERPRETED and t.decl().name() in sv:
                    subs.append((t, z3.BitVec(t.decl().name() + '__2', t.size())))
            diffs = []
            for e in elems:
                if isinstance(e, Int) and e.sym:
                    e2 = z3.substitute(e.v, *subs)
                    diffs.append(e.v != e2)
            sat, model = ctx.satisfiable(z3.Or(*diffs)) if diffs else (False, None)
            if not sat:
                continue
            leaked_any = True
            if trace_run and label.startswith('log Trace'):
                res.witnesses.add('trace-level-flow-detected')
                continue
            res.findings.append(Finding('%s depends on secret material (%s)' % (label, sorted(sv)[:3]),
                                        {'shape': list(shape), 'observable': label}, None, None, repr(shape)))
        if kind == 'pipeline' and not trace_run and any(l == 'Trace' for l in levels):
            res.findings.append(Finding('trace-level record emitted although the logger is limited to Debug', {'shape': list(shape)}, None, None, repr(shape)))
        if len(res.samples) < 1:
            sat, model = ctx.satisfiable()
            res.samples.append({'shape': list(shape), 'observables': [(l, model_bytes(model, e).decode('latin-1')[:80]) for l, e in observables[:4]]})

    engine.explore(prog, body, on_path, stats=res.stats)


# --------------------------------------------------------------------------- concrete side

def forms_of(secret_bytes):
    return [secret_bytes, secret_bytes.hex().encode(), secret_bytes.hex().upper().encode(), base64.b64encode(secret_bytes),
            base64.b64encode(secret_bytes).rstrip(b'=')]


def native_observables(rp, carrier, oc, level):
    """Run the corresponding concrete request natively with a capturing logger; return all observable text."""
    out = []

    def body(m, ctx):
        names = flag_names(carrier)
        flags = {n: (z3.BoolVal(True) if n == oc else False) for n in names}
        D = Defective(m, ctx, carrier, flags)
        if oc in ('sig-short', 'sig-long', 'sig-empty'):
            retouch_signature(D, carrier, oc)
        return D.req.to_json(), D.good_sig
    o = []
    prog, _ = engine.load_program()
    engine.explore(prog, body, o.append)
    j, good_sig = o[0].value
    if oc == 'sig-anycase':
        # present the signature the native server will compute, in upper case (a wrong signature that differs only in letter case)
        import hashlib
        import hmac as pyhmac
        hh = lambda k, msg: pyhmac.new(k, msg, hashlib.sha256).digest()
        kg = hh(hh(hh(hh(b'AWS4' + AWS_SECRET.encode(), b'20150830'), b'us-east-1'), b'service'), b'aws4_request')
        can = rp.ask({'op': 'canonical', 'request': j, 'options': {'s3': False, 'url_encode_form': False},
                      'requirements': {'kind': 'slice', 'always': ['X-Req'], 'if_in': [], 'prefixes': []}})
        sts_hex = can.get('ok', {}).get('authenticator', {}).get('ok', {}).get('string_to_sign_hex')
        if sts_hex:
            up = hh(kg, bytes.fromhex(sts_hex)).hex().upper()
            if carrier == 'header':
                j['headers'] = [[n, (bytes.fromhex(v).decode('latin-1').replace(good_sig, up).encode('latin-1').hex() if n == 'authorization' else v)]
                                for n, v in j['headers']]
            else:
                j['uri'] = j['uri'].replace(good_sig, up)
    server = T0 + (1000 if oc == 'expired' else 0)
    prov = {'result': {'secret': AWS_SECRET}}
    if oc == 'provider-sig':
        prov = {'result': {'err': {'sig': {'kind': 'InvalidClientTokenId', 'msg': 'no such key'}}}}
    if oc == 'provider-foreign':
        prov = {'result': {'err': {'foreign': 'backend down'}}}
    nat = native_validate(rp, j, 'us-east-1', 'service', server, provider=prov,
                          reqs={'kind': 'slice', 'always': ['X-Req'], 'if_in': [], 'prefixes': []}, log_level=level.lower())
    res = nat.get('result', {})
    texts = []
    if 'err' in res:
        texts += [res['err'].get('msg', ''), res['err'].get('debug', '')]
    if 'ok' in res:
        texts += [json.dumps(res['ok'])]
    for rec in nat.get('logs', []):
        texts.append(' '.join(map(str, rec)))
    return texts, j


def replay_finding(rp, f):
    inp = f.inp
    shape = inp.get('shape')
    if not shape:
        return False, None
    import hashlib
    import hmac as pyhmac

    def h(k, msg):
        return pyhmac.new(k, msg, hashlib.sha256).digest()
    if shape[0] == 'pipeline':
        texts, j = native_observables(rp, shape[1], shape[2], shape[3])
        # secrets of the native run: the raw secret, the derived keys, and the signature the server computes
        kd = h(b'AWS4' + AWS_SECRET.encode(), b'20150830')
        kr = h(kd, b'us-east-1')
        ks = h(kr, b'service')
        kg = h(ks, b'aws4_request')
        secrets = [AWS_SECRET.encode()] + [x for k in (kd, kr, ks, kg) for x in forms_of(k)]
        blob = '\n'.join(texts).encode('latin-1', 'replace')
        hits = [s.decode('latin-1')[:20] for s in secrets if s in blob]
        # expected signature: any 64-hex string in the observables other than what the client sent
        import re
        sent = json.dumps(j)
        sent_hex = set(re.findall(r'[0-9a-f]{64}', sent)) | set(re.findall(r'[0-9a-f]{64}', bytes.fromhex(''.join(v for _, v in j['headers'])).decode('latin-1')))
        foreign_hex = [x for x in re.findall(r'[0-9a-f]{64}', blob.decode('latin-1')) if x not in sent_hex]
        lvl_ok = shape[3] == 'Debug'
        # the signature the server computes for this request: HMAC(kSigning, string-to-sign) with the string-to-sign taken from the crate
        sig_leak = []
        try:
            can = rp.ask({'op': 'canonical', 'request': j, 'options': {'s3': False, 'url_encode_form': False},
                          'requirements': {'kind': 'slice', 'always': ['X-Req'], 'if_in': [], 'prefixes': []}})
            sts_hex = can.get('ok', {}).get('authenticator', {}).get('ok', {}).get('string_to_sign_hex')
            if sts_hex:
                expected = h(kg, bytes.fromhex(sts_hex)).hex()
                if expected in blob.decode('latin-1') and expected not in sent_hex:
                    sig_leak = [expected]
        except Exception:
            pass
        return bool(hits or (sig_leak and lvl_ok)), {'key_material_found': hits, 'expected_signature_found': sig_leak[:1]}
    hits = []
    # the example secret, and the same secret as read from a file with a blank in front / a line feed at the end (39 + 1 bytes)
    for sec in (AWS_SECRET, AWS_SECRET[:-1] + '\n', ' ' + AWS_SECRET[1:]):
        r = rp.ask({'op': 'fmt', 'secret': sec, 'date': [2015, 8, 30], 'region': 'r', 'service': 's', 'log_level': 'debug'})
        kd = h(b'AWS4' + sec.encode(), b'20150830')
        kr = h(kd, b'r')
        ks = h(kr, b's')
        kg = h(ks, b'aws4_request')
        secrets = [sec.encode(), sec.strip().encode(), json.dumps(sec)[1:-1].encode()] + [x for k in (kd, kr, ks, kg) for x in forms_of(k)]
        blob = json.dumps(r).encode() + b'\n' + '\n'.join(' '.join(map(str, rec)) for rec in r.get('logs', [])).encode('latin-1', 'replace')
        hits += [s.decode('latin-1')[:20] for s in secrets if len(s) >= 16 and s in blob]
    return bool(hits), {'key_material_found': hits}


def conformance(prog, rp, seed, tier):
    """The log records and error texts of MIRSE (concrete run) and of the native crate must be identical."""
    mism = []
    n = 0
    for carrier in ('header', 'query'):
        for oc in OUTCOMES:
            for level in ('Debug',):
                n += 1
                texts, j = native_observables(rp, carrier, oc, level)
                out = []

                def body(m, ctx):
                    m.log_max_level = 4
                    names = flag_names(carrier)
                    flags = {nm: (z3.BoolVal(True) if nm == oc else False) for nm in names}
                    D = Defective(m, ctx, carrier, flags)
                    if oc in ('sig-short', 'sig-long', 'sig-empty'):
                        retouch_signature(D, carrier, oc)
                    if oc == 'provider-sig':
                        rfun = lambda mm, rq: err(BoxObj(sig_error('InvalidClientTokenId', 'no such key'), dyn='SignatureError'))
                    elif oc == 'provider-foreign':
                        rfun = lambda mm, rq: err(BoxObj(Opaque('foreign_error', 'backend down'), dyn='StringError'))
                    else:
                        import hashlib
                        import hmac as pyhmac
                        rfun = lambda mm, rq: ok(key_response(conc_bytes(bytes(32))))
                    r, _ = run(m, D.req, 'us-east-1', 'service', A.Provider(rfun), D.server, D.reqs)
                    o = outcome(r)
                    msg = ''
                    if o[0] == 'err' and isinstance(o[2], Adt):
                        msg = bytes(e.v for e in render(m, o[2], 'display')).decode('latin-1')
                    return ('ok' if o[0] == 'ok' else o[1]), msg, [(lvl, bytes(e.v for e in t).decode('latin-1')) for lvl, t in m.log_records]
                engine.explore(prog, body, out.append)
                pr = out[0]
                if pr.kind == 'panic':
                    mism.append({'case': [carrier, oc], 'mirse': 'panic ' + pr.value.msg})
                    continue
                kind_, msg, logs = pr.value
                # the native provider derives its key from the AWS secret, MIRSE uses the zero key: compare everything but accept/mismatch
                nlogs = [t for t in texts[2:]] if len(texts) >= 2 else texts
                mine_logs = ['%s %s' % (lvl.upper(), t) for lvl, t in logs]
                nat_logs = [' '.join(x.split(' ')[:1] + x.split(' ')[2:]) for x in nlogs]      # drop the target column
                if oc not in ('ok', 'signature', 'sig-anycase', 'sig-short', 'sig-long', 'sig-empty') and (msg != (texts[0] if texts else '') or mine_logs != nat_logs):
                    mism.append({'case': [carrier, oc], 'mirse': [msg[:80], mine_logs], 'native': [texts[0][:80] if texts else None, nat_logs]})
    # renderings of the public value types (Debug / Display, plain and with the alternate flag) on a concrete secret
    nat = rp.ask({'op': 'fmt', 'secret': AWS_SECRET, 'date': [2015, 8, 30], 'region': 'r', 'service': 's'})
    nat_items = {it['what']: it['text'] for it in nat.get('items', [])}
    out = []

    def fbody(m, ctx):
        m.x_generics = {'M': Int('usize', 44)}
        ks = m.call('<KSecretKey<M> as FromStr>::from_str', [mk_str(conc_bytes(AWS_SECRET))], None).fields[0]
        date = C.NaiveDate(2015, 8, 30)
        kd = m.call('KSecretKey::to_kdate', [Ptr(Cell(ks), ()), date], None)
        kr = m.call('KDateKey::to_kregion', [Ptr(Cell(kd), ()), str_ptr('r')], None)
        kv = m.call('KRegionKey::to_kservice', [Ptr(Cell(kr), ()), str_ptr('s')], None)
        kg = m.call('KServiceKey::to_ksigning', [Ptr(Cell(kv), ())], None)
        items = {}
        too_long = m.call('<KSecretKey<M> as FromStr>::from_str', [mk_str(conc_bytes(AWS_SECRET + '+8Zq3LtUx'))], None)
        for nm, v in (('KSecretKey', ks), ('KDateKey', kd), ('KRegionKey', kr), ('KServiceKey', kv), ('KSigningKey', kg),
                      ('KeyTooLongError', too_long.fields[0])):
            for how, lab in (('debug', 'Debug'), ('debug#', 'Debug#'), ('display', 'Display'), ('display#', 'Display#')):
                items['%s %s' % (nm, lab)] = render(m, v, how)
        req = Adt('GetSigningKeyRequest', None, [mk_string('AKID'), some(mk_string('tok')), date, mk_string('r'), mk_string('s')],
                  ['access_key', 'session_token', 'request_date', 'region', 'service'])
        items['GetSigningKeyRequest Debug'] = render(m, req, 'debug')
        items['GetSigningKeyRequest Debug#'] = render(m, req, 'debug#')
        return {k: bytes(e.v for e in v).decode('latin-1') for k, v in items.items()}
    engine.explore(prog, fbody, out.append)
    if out[0].kind == 'panic':
        mism.append({'case': 'fmt items', 'mirse': 'panic ' + out[0].value.msg})
    else:
        for k, v in out[0].value.items():
            n += 1
            if k not in nat_items or nat_items[k] != v:
                mism.append({'case': 'fmt item ' + k, 'mirse': v[:200], 'native': (nat_items.get(k) or '<missing>')[:200]})
    return n, mism


def describe(f):
    return '%s -> %s' % (json.dumps(f.inp), json.dumps(f.detail, default=str)[:300])


def bounds(tier):
    return ('pipeline on both carriers for 13 outcomes (accepted; refused for wrong signature of the right length, truncated / extended / empty signature, expiry, scope, credential arity, date format, '
            'unsigned host, bad path; provider SignatureError; provider foreign error) with the 32 signing-key bytes symbolic, logger at Debug '
            '(plus a Trace contrast run); Debug and Display of the five key types derived from a 40-byte symbolic secret, KeyTooLongError, '
            'GetSigningKeyRequest / Response, SigV4Authenticator (+Builder), SigV4AuthenticatorResponse, CanonicalRequest')


OUTSIDE = ('what a caller-supplied provider puts in its own error messages; records below Debug (trace) which the property permits; secrets of other '
           'lengths (the renderings do not depend on the length)')
NEED_WITNESSES = {'outcome:ok', 'outcome:SignatureDoesNotMatch', 'outcome:fmt', 'trace-level-flow-detected'}
ASSUMPTIONS = ['core::fmt is modelled by mirse/lib_std (Formatter, Arguments, derive(Debug) helpers); log crate: records are emitted iff level <= max_level()',
               'independence of an observable from the secret symbols implies absence of the secret in raw, hex, base64 or any other encoding']


def main(argv):
    return run_check(sys.modules[__name__], argv)


if __name__ == '__main__':
    sys.exit(main(sys.argv))
