"""Summaries of std / alloc / core callees, written at the level of their documented
contract over the MIRSE value model.  Dispatch is by method name with run-time type
inspection so that generic instantiations share one summary."""
import z3

from .values import *
from .interp import zb, znot, zand, zor, Infeasible, type_base, parse_callee, _strip_refs
from . import mirparse as mp


# =============================================================================
# helpers

def deref(m, v):
    """Follow thin pointers until a non-pointer value (fat pointers are returned)."""
    while isinstance(v, Ptr) and v.meta is None:
        v = m.load(v)
    return v


def container_of(m, p):
    return m._nav(p.root, p.path)


def elems_of(m, v):
    """Byte / element list of &str, &[T], String, Vec<T>, [T; N], and references to them."""
    v0 = v
    while True:
        if isinstance(v, Ptr):
            if v.meta is not None:
                c = container_of(m, v)
                _, s, n = v.meta
                return c.elems[s:s + n]
            v = m.load(v)
            continue
        if isinstance(v, (VecObj, Array, Buf)):
            return v.elems
        if isinstance(v, Adt) and v.name == 'Cow':
            v = v.fields[0]
            continue
        if isinstance(v, BoxObj):
            v = v.cell.v
            continue
        raise Unsupported('elems_of %r (from %r)' % (v, v0))


def fat(m, v, kind):
    """Make a fat pointer (&str / &[T]) to the whole of a container reachable from v."""
    if isinstance(v, Ptr) and v.meta is not None:
        return Ptr(v.root, v.path, (kind, v.meta[1], v.meta[2]), v.mut)
    p = v
    while isinstance(p, Ptr):
        t = m.load(p)
        if isinstance(t, Ptr):
            if t.meta is not None:
                return Ptr(t.root, t.path, (kind, t.meta[1], t.meta[2]), t.mut)
            p = t
            continue
        if isinstance(t, Adt) and t.name == 'Cow':
            return fat(m, t.fields[0] if isinstance(t.fields[0], Ptr) else Ptr(Cell(t.fields[0]), ()), kind)
        if isinstance(t, BoxObj):
            p = Ptr(t.cell, ())
            continue
        if isinstance(t, (VecObj, Array, Buf)):
            return Ptr(p.root, p.path, (kind, 0, len(t.elems)), p.mut)
        raise Unsupported('fat pointer to %r' % (t,))
    if isinstance(v, (VecObj, Array, Buf)):
        return Ptr(v if isinstance(v, VecObj) else Cell(v), (), (kind, 0, len(v.elems)))
    raise Unsupported('fat pointer from %r' % (v,))


def sub(p, start, ln, kind=None):
    k, s, n = p.meta
    return Ptr(p.root, p.path, (kind or k, s + start, ln), p.mut)


def bytes_eq(a, b):
    """Equality of two element lists of Ints (concrete lengths)."""
    if len(a) != len(b):
        return False
    cs = []
    for x, y in zip(a, b):
        if not x.sym and not y.sym:
            if x.v != y.v:
                return False
        else:
            cs.append(x.z() == y.z())
    return zand(*cs)


def bytes_lt(a, b):
    """Lexicographic a < b (unsigned bytes)."""
    n = min(len(a), len(b))
    alts = []
    prefix_eq = []
    for i in range(n):
        x, y = a[i], b[i]
        if not x.sym and not y.sym:
            lt = x.v < y.v
            eq = x.v == y.v
        else:
            lt = z3.ULT(x.z(), y.z())
            eq = x.z() == y.z()
        alts.append(zand(*(prefix_eq + [lt])))
        if eq is False:
            break
        prefix_eq.append(eq)
    else:
        if len(a) < len(b):
            alts.append(zand(*prefix_eq))
    return zor(*alts)


def concrete_bytes(elems):
    if any(e.sym for e in elems):
        return None
    return bytes(e.v for e in elems)


def is_const(elems, data):
    return bytes_eq(elems, [Int('u8', b) for b in data])


def new_string(elems):
    return VecObj(list(elems), 'string')


def char_utf8(m, c):
    """Encode a char Int into a list of u8 Ints, forking on the length class."""
    if not c.sym:
        return [Int('u8', b) for b in chr(c.v).encode('utf-8')]
    z = c.v
    ctx = m.ctx
    if ctx.branch(z3.ULT(z, 0x80)):
        return [Int('u8', z3.simplify(z3.Extract(7, 0, z)))]
    if ctx.branch(z3.ULT(z, 0x800)):
        return [Int('u8', z3.simplify(z3.Extract(7, 0, z3.LShR(z, 6)) | 0xC0)),
                Int('u8', z3.simplify((z3.Extract(7, 0, z) & 0x3F) | 0x80))]
    if ctx.branch(z3.ULT(z, 0x10000)):
        return [Int('u8', z3.simplify(z3.Extract(7, 0, z3.LShR(z, 12)) | 0xE0)),
                Int('u8', z3.simplify((z3.Extract(7, 0, z3.LShR(z, 6)) & 0x3F) | 0x80)),
                Int('u8', z3.simplify((z3.Extract(7, 0, z) & 0x3F) | 0x80))]
    return [Int('u8', z3.simplify(z3.Extract(7, 0, z3.LShR(z, 18)) | 0xF0)),
            Int('u8', z3.simplify((z3.Extract(7, 0, z3.LShR(z, 12)) & 0x3F) | 0x80)),
            Int('u8', z3.simplify((z3.Extract(7, 0, z3.LShR(z, 6)) & 0x3F) | 0x80)),
            Int('u8', z3.simplify((z3.Extract(7, 0, z) & 0x3F) | 0x80))]


def decode_char(m, elems, i):
    """Decode the UTF-8 scalar starting at elems[i] (valid UTF-8 assumed). Returns (Int char, width)."""
    b0 = elems[i]
    if not b0.sym:
        v = b0.v
        if v < 0x80:
            return Int('char', v), 1
        w = 2 if v < 0xE0 else 3 if v < 0xF0 else 4
        rest = elems[i + 1:i + w]
        if all(not r.sym for r in rest):
            return Int('char', ord(bytes([v] + [r.v for r in rest]).decode('utf-8'))), w
    ctx = m.ctx
    z0 = z3.ZeroExt(24, b0.z())
    if ctx.branch(z3.ULT(b0.z(), 0x80)):
        return Int('char', z3.simplify(z0)), 1

    def cont(k):
        return z3.ZeroExt(24, elems[i + k].z()) & 0x3F
    if ctx.branch(z3.ULT(b0.z(), 0xE0)):
        return Int('char', z3.simplify(((z0 & 0x1F) << 6) | cont(1))), 2
    if ctx.branch(z3.ULT(b0.z(), 0xF0)):
        return Int('char', z3.simplify(((z0 & 0x0F) << 12) | (cont(1) << 6) | cont(2))), 3
    return Int('char', z3.simplify(((z0 & 0x07) << 18) | (cont(1) << 12) | (cont(2) << 6) | cont(3))), 4


def utf8_valid(m, elems):
    """Decide (forking) whether a byte list is valid UTF-8; returns Python bool."""
    ctx = m.ctx
    i = 0
    n = len(elems)
    while i < n:
        b = elems[i].z() if elems[i].sym else None
        if b is None:
            v = elems[i].v
            if v < 0x80:
                i += 1
                continue
        bz = elems[i].z()
        if ctx.branch(z3.ULT(bz, 0x80)):
            i += 1
            continue
        # multi-byte: follow the std validation table
        def c(k):
            return elems[i + k].z()

        def cont_ok(k, lo=0x80, hi=0xBF):
            if i + k >= n:
                return False
            return z3.And(z3.UGE(c(k), lo), z3.ULE(c(k), hi))
        if ctx.branch(z3.And(z3.UGE(bz, 0xC2), z3.ULE(bz, 0xDF))):
            if not ctx.branch(cont_ok(1)):
                return False
            i += 2
            continue
        if ctx.branch(z3.And(z3.UGE(bz, 0xE0), z3.ULE(bz, 0xEF))):
            if i + 2 >= n:
                return False
            second = z3.If(bz == 0xE0, z3.And(z3.UGE(c(1), 0xA0), z3.ULE(c(1), 0xBF)),
                           z3.If(bz == 0xED, z3.And(z3.UGE(c(1), 0x80), z3.ULE(c(1), 0x9F)),
                                 z3.And(z3.UGE(c(1), 0x80), z3.ULE(c(1), 0xBF))))
            if not ctx.branch(z3.And(second, cont_ok(2))):
                return False
            i += 3
            continue
        if ctx.branch(z3.And(z3.UGE(bz, 0xF0), z3.ULE(bz, 0xF4))):
            if i + 3 >= n:
                return False
            second = z3.If(bz == 0xF0, z3.And(z3.UGE(c(1), 0x90), z3.ULE(c(1), 0xBF)),
                           z3.If(bz == 0xF4, z3.And(z3.UGE(c(1), 0x80), z3.ULE(c(1), 0x8F)),
                                 z3.And(z3.UGE(c(1), 0x80), z3.ULE(c(1), 0xBF))))
            if not ctx.branch(z3.And(second, cont_ok(2), cont_ok(3))):
                return False
            i += 4
            continue
        return False
    return True


# =============================================================================
# iterators

class PyIter:
    rust_type = 'Iterator'

    def next(self, m):
        raise NotImplementedError

    def size_hint(self):
        return None


class ListIter(PyIter):
    def __init__(self, items):
        self.items = list(items)
        self.i = 0

    def next(self, m):
        if self.i >= len(self.items):
            return none()
        v = self.items[self.i]
        self.i += 1
        return some(v)

    def next_back(self, m):
        if self.i >= len(self.items):
            return none()
        return some(self.items.pop())


class MapIter(PyIter):
    def __init__(self, inner, f):
        self.inner = inner
        self.f = f

    def next(self, m):
        r = self.inner.next(m)
        if r.variant == 'None':
            return r
        return some(m.call_value(self.f, [r.fields[0]]))


class EnumIter(PyIter):
    def __init__(self, inner):
        self.inner = inner
        self.k = 0

    def next(self, m):
        r = self.inner.next(m)
        if r.variant == 'None':
            return r
        k = self.k
        self.k += 1
        return some(Tuple([usize(k), r.fields[0]]))


def slice_iter(m, v):
    """Iterator over references to the elements of a slice-like value."""
    p = v
    if isinstance(p, Ptr) and p.meta is None:
        t = m.load(p)
        while isinstance(t, Ptr) and t.meta is None:
            p = t
            t = m.load(p)
        if isinstance(t, Ptr):
            p = t
        elif isinstance(t, (VecObj, Array, Buf)):
            p = Ptr(p.root, p.path, ('slice', 0, len(t.elems)), p.mut)
        else:
            raise Unsupported('slice_iter over %r' % (t,))
    elif isinstance(p, VecObj):
        # by-value Vec::into_iter: yield elements themselves
        return ListIter(list(p.elems))
    elif isinstance(p, Array):
        return ListIter(list(p.elems))
    _, s, n = p.meta
    return ListIter([Ptr(p.root, p.path + (('i', s + k),), None, p.mut) for k in range(n)])


def to_iter(m, v):
    if isinstance(v, PyIter):
        return v
    if isinstance(v, Ptr) and v.meta is None:
        t = m.load(v)
        if isinstance(t, PyIter):
            return t
        if isinstance(t, HashMapObj):
            return hashmap_iter(m, t, 'iter')
    if isinstance(v, HashMapObj):
        return hashmap_iter(m, v, 'into')
    return slice_iter(m, v)


def split_pieces(m, p, pred, limit=None):
    """Eagerly split the fat pointer `p` at elements for which pred(elem Int) is true."""
    elems = elems_of(m, p)
    pieces = []
    start = 0
    for i, e in enumerate(elems):
        if limit is not None and len(pieces) >= limit - 1:
            break
        if m.ctx.branch(pred(e, i)):
            pieces.append(sub(p, start, i - start))
            start = i + 1
    pieces.append(sub(p, start, len(elems) - start))
    return pieces


def char_pred(m, pat):
    """Predicate for `char` patterns (ASCII only) over bytes."""
    pat = deref(m, pat)
    if isinstance(pat, Int):
        if pat.sym or pat.v >= 0x80:
            raise Unsupported('non-ASCII / symbolic char pattern')
        cv = pat.v

        def pred(e, i):
            return (e.v == cv) if not e.sym else (e.v == z3.BitVecVal(cv, 8))
        return pred
    raise Unsupported('pattern %r' % (pat,))


def closure_pred(m, f):
    def pred(e, i):
        return m.call_value(f, [Ptr(Cell(e), ())])
    return pred


def hashmap_order(m, h):
    n = len(h.entries)
    mode = m.hash_order
    idx = list(range(n))
    if mode == 'first' or n <= 1:
        return idx
    if mode == 'rev':
        return idx[::-1]
    if mode == 'two':
        return idx if m.ctx.pick(2, 'hash-order') == 0 else idx[::-1]
    if mode == 'cover' and n > 3:
        # covering family for larger maps: identity, reverse, each entry moved to the front, each entry moved to the back
        # (every pair of entries occurs in both relative orders; every entry occurs first and last)
        k = m.ctx.pick(2 * n + 2, 'hash-order')
        if k == 0:
            return idx
        if k == 1:
            return idx[::-1]
        k -= 2
        if k < n:
            return [idx[k]] + idx[:k] + idx[k + 1:]
        k -= n
        return idx[:k] + idx[k + 1:] + [idx[k]]
    # all permutations
    out = []
    rem = idx
    while rem:
        k = m.ctx.pick(len(rem), 'hash-order')
        out.append(rem[k])
        rem = rem[:k] + rem[k + 1:]
    return out


def hashmap_iter(m, h, kind):
    order = hashmap_order(m, h)
    items = []
    for i in order:
        k, c = h.entries[i]
        if kind == 'iter':
            items.append(Tuple([Ptr(Cell(k), ()), Ptr(c, ())]))
        elif kind == 'keys':
            items.append(Ptr(Cell(k), ()))
        elif kind == 'values':
            items.append(Ptr(c, ()))
        else:
            items.append(Tuple([k, c.v]))
    return ListIter(items)


def key_elems(m, k):
    return elems_of(m, k)


def hashmap_find(m, h, key):
    ke = key_elems(m, key)
    for ent in h.entries:
        if m.ctx.branch(bytes_eq(key_elems(m, ent[0]), ke)):
            return ent
    return None


# =============================================================================
# formatting

class Formatter:
    rust_type = 'Formatter'

    def __init__(self):
        self.out = []
        self.alternate = False


def fmt_arguments(m, args_obj, out):
    kind = args_obj.data[0]
    if kind == 'str':
        out.extend(elems_of(m, args_obj.data[1]))
        return
    _, template, args = args_obj.data
    i = 0
    nxt = 0
    t = template
    while True:
        b = t[i]
        if b == 0:
            break
        if b < 0x80:
            out.extend(Int('u8', x) for x in t[i + 1:i + 1 + b])
            i += 1 + b
        elif b == 0x80:
            ln = t[i + 1] | (t[i + 2] << 8)
            out.extend(Int('u8', x) for x in t[i + 3:i + 3 + ln])
            i += 3 + ln
        elif b == 0xC0:
            fmt_argument(m, args[nxt], out, False)
            nxt += 1
            i += 1
        elif b & 0xC0 == 0xC0:
            # placeholder with options: flags(1) width(2) precision(4) arg_index(8)
            j = i + 1
            flags = 0
            if b & 1:
                flags = int.from_bytes(t[j:j + 4], 'little')
                j += 4
            if b & 2:
                j += 2
            if b & 4:
                j += 2
            if b & 8:
                nxt = int.from_bytes(t[j:j + 2], 'little')
                j += 2
            if b & 0x06:
                # explicit width / precision in a placeholder changes the rendered text: not modelled, so refuse rather than ignore
                raise Unsupported('format placeholder with width / precision')
            alternate = bool(flags & (1 << 23))
            fmt_argument(m, args[nxt], out, alternate)
            nxt += 1
            i = j
        else:
            raise Unsupported('fmt template byte %#x' % b)


def fmt_argument(m, arg, out, alternate):
    kind, p = arg.data
    if kind == 'display':
        display(m, p, out, alternate)
    else:
        debug(m, p, out, alternate)


def display(m, v, out, alternate=False):
    while True:
        if isinstance(v, Ptr):
            if v.meta is not None:
                out.extend(elems_of(m, v))
                return
            v = m.load(v)
            continue
        break
    if isinstance(v, VecObj) and v.kind == 'string':
        out.extend(v.elems)
        return
    if isinstance(v, Int):
        if v.ty == 'char':
            out.extend(char_utf8(m, v))
            return
        if v.sym:
            raise Unsupported('Display of symbolic integer')
        out.extend(Int('u8', b) for b in str(v.v).encode())
        return
    if isinstance(v, bool):
        out.extend(Int('u8', b) for b in (b'true' if v else b'false'))
        return
    if isinstance(v, Adt) and v.name == 'Cow':
        return display(m, v.fields[0], out, alternate)
    if isinstance(v, BoxObj):
        return display(m, v.cell.v, out, alternate)
    if hasattr(v, 'display'):
        return v.display(m, out)
    if isinstance(v, Adt):
        c = parse_callee('<%s as Display>::fmt' % v.name)
        fn = m.resolve_local(c, [v])
        if fn is not None:
            f = Formatter()
            f.alternate = alternate
            m.run_body(fn, [Ptr(Cell(v), ()), Ptr(Cell(f), ())])
            out.extend(f.out)
            return
    if isinstance(v, Opaque) and v.kind == 'foreign_error':
        out.extend(Int('u8', b) for b in v.data.encode())
        return
    if isinstance(v, Opaque) and v.kind in ('http::Error', 'io::Error', 'ParseIntError', 'Utf8Error', 'FromUtf8Error', 'ParseError', 'FromHexError'):
        # rendering of dependency error values: the text is not modelled (marked so that specs do not rely on it)
        m.ctx.events.append(('opaque_error_display', v.kind))
        out.extend(Int('u8', b) for b in ('<%s: %s>' % (v.kind, v.data)).encode())
        return
    raise Unsupported('Display of %r' % (v,))


def _lit(out, s):
    out.extend(Int('u8', b) for b in s.encode())


def debug_str(m, elems, out):
    """Debug rendering of a str: quotes + escape_debug of each char (ASCII fast path)."""
    _lit(out, '"')
    cb = concrete_bytes(elems)
    if cb is not None:
        s = cb.decode('utf-8', 'replace')
        r = ''
        for ch in s:
            if ch == '"':
                r += '\\"'
            elif ch == '\\':
                r += '\\\\'
            elif ch == '\n':
                r += '\\n'
            elif ch == '\r':
                r += '\\r'
            elif ch == '\t':
                r += '\\t'
            elif ch == '\0':
                r += '\\0'
            elif ch == "'":
                r += "'"
            elif ord(ch) < 0x20 or ord(ch) == 0x7f:
                r += '\\u{%x}' % ord(ch)
            else:
                r += ch
        _lit(out, r)
    else:
        # symbolic content: <str as Debug> escapes per character; exact for ASCII (one fork per class), non-ASCII symbolic bytes
        # would need char::is_printable and are refused
        for e in elems:
            if not e.sym:
                ch = e.v
                if ch >= 0x80:
                    out.append(e)       # concrete non-ASCII bytes next to symbolic ones: printable is assumed (flagged)
                    m.ctx.events.append(('debug_str_nonascii_verbatim',))
                    continue
                _lit(out, {0x22: '\\"', 0x5C: '\\\\', 0x0A: '\\n', 0x0D: '\\r', 0x09: '\\t', 0x00: '\\0'}.get(
                    ch, ('\\u{%x}' % ch) if (ch < 0x20 or ch == 0x7F) else chr(ch)))
                continue
            z = e.v
            if not m.ctx.branch(z3.ULT(z, 0x80)):
                raise Unsupported('Debug of a string with symbolic non-ASCII bytes')
            if m.ctx.branch(z3.Or(z == 0x22, z == 0x5C)):
                _lit(out, '\\')
                out.append(e)
            elif m.ctx.branch(z3.Or(z3.ULT(z, 0x20), z == 0x7F)):
                for cv, txt in ((0x0A, '\\n'), (0x0D, '\\r'), (0x09, '\\t'), (0x00, '\\0')):
                    if m.ctx.branch(z == cv):
                        _lit(out, txt)
                        break
                else:
                    # \u{h} or \u{hh}: lower-case hex without leading zeros
                    _lit(out, '\\u{')
                    if m.ctx.branch(z3.UGE(z, 0x10)):
                        hi = z3.LShR(z, 4)
                        out.append(Int('u8', z3.simplify(z3.If(z3.ULT(hi, 10), hi + 0x30, hi + 0x57))))
                    lo = z & 15
                    out.append(Int('u8', z3.simplify(z3.If(z3.ULT(lo, 10), lo + 0x30, lo + 0x57))))
                    _lit(out, '}')
            else:
                out.append(e)
    _lit(out, '"')


def pad_adapter(m, sub):
    """core::fmt::builders::PadAdapter: four spaces at the start of every line of the nested output."""
    out = []
    on_newline = True
    for e in sub:
        if on_newline:
            _lit(out, '    ')
        out.append(e)
        if e.sym:
            on_newline = m.ctx.branch(e.v == 0x0A)
        else:
            on_newline = e.v == 0x0A
    return out


def debug_entries(m, out, open_, close, entries, alternate):
    """DebugList / DebugSet / DebugMap / DebugTuple layout.  entries: list of callables writing one entry into a buffer."""
    _lit(out, open_)
    for i, w in enumerate(entries):
        if alternate:
            if i == 0:
                _lit(out, '\n')
            sub = []
            w(sub)
            _lit(sub, ',\n')
            out.extend(pad_adapter(m, sub))
        else:
            if i:
                _lit(out, ', ')
            w(out)
    _lit(out, close)


def debug(m, v, out, alternate=False):
    while isinstance(v, Ptr):
        if v.meta is not None:
            if v.meta[0] == 'str':
                return debug_str(m, elems_of(m, v), out)
            return debug_list(m, elems_of(m, v), out, alternate)
        v = m.load(v)
    if isinstance(v, VecObj):
        if v.kind == 'string':
            return debug_str(m, v.elems, out)
        if v.kind == 'bytes':
            _lit(out, 'b"')
            out.extend(v.elems)
            _lit(out, '"')
            return
        return debug_list(m, v.elems, out, alternate)
    if isinstance(v, Array):
        return debug_list(m, v.elems, out, alternate)
    if isinstance(v, Int):
        if v.ty == 'char':
            _lit(out, "'")
            out.extend(char_utf8(m, v))
            _lit(out, "'")
            return
        if v.sym:
            # decimal rendering of a symbolic byte: 1-3 digits
            if v.ty == 'u8':
                z = v.v
                if m.ctx.branch(z3.ULT(z, 10)):
                    out.append(Int('u8', z3.simplify(z + 48)))
                elif m.ctx.branch(z3.ULT(z, 100)):
                    out.append(Int('u8', z3.simplify(z3.UDiv(z, 10) + 48)))
                    out.append(Int('u8', z3.simplify(z3.URem(z, 10) + 48)))
                else:
                    out.append(Int('u8', z3.simplify(z3.UDiv(z, 100) + 48)))
                    out.append(Int('u8', z3.simplify(z3.URem(z3.UDiv(z, 10), 10) + 48)))
                    out.append(Int('u8', z3.simplify(z3.URem(z, 10) + 48)))
                return
            raise Unsupported('Debug of symbolic integer')
        _lit(out, str(v.v))
        return
    if isinstance(v, bool):
        _lit(out, 'true' if v else 'false')
        return
    if isinstance(v, Tuple):
        if not v.fields:
            _lit(out, '()')
            return
        debug_entries(m, out, '(', ')', [(lambda o, f=f: debug(m, f, o, alternate)) for f in v.fields], alternate)
        return
    if isinstance(v, HashMapObj):
        def ent(i):
            def w(o):
                debug(m, v.entries[i][0], o, alternate)
                _lit(o, ': ')
                debug(m, v.entries[i][1].v, o, alternate)
            return w
        debug_entries(m, out, '{', '}', [ent(i) for i in hashmap_order(m, v)], alternate)
        return
    if isinstance(v, BoxObj):
        return debug(m, v.cell.v, out, alternate)
    if hasattr(v, 'debug'):
        return v.debug(m, out)
    if isinstance(v, Adt):
        if v.name == 'Option':
            if v.variant == 'None':
                _lit(out, 'None')
            else:
                debug_entries(m, out, 'Some(', ')', [lambda o: debug(m, v.fields[0], o, alternate)], alternate)
            return
        if v.name == 'Result':
            debug_entries(m, out, v.variant + '(', ')', [lambda o: debug(m, v.fields[0], o, alternate)], alternate)
            return
        if v.name == 'Cow':
            return debug(m, v.fields[0], out, alternate)
        c = parse_callee('<%s as Debug>::fmt' % v.name)
        fn = m.resolve_local(c, [v])
        if fn is not None:
            f = Formatter()
            f.alternate = alternate
            m.run_body(fn, [Ptr(Cell(v), ()), Ptr(Cell(f), ())])
            out.extend(f.out)
            return
    if isinstance(v, Opaque):
        _lit(out, '<%s>' % v.kind)
        m.ctx.events.append(('debug_opaque', v.kind))
        return
    raise Unsupported('Debug of %r' % (v,))


def debug_list(m, elems, out, alternate):
    debug_entries(m, out, '[', ']', [(lambda o, e=e: debug(m, e, o, alternate)) for e in elems], alternate)


# =============================================================================
# summaries

def install(m):
    L = m.lib

    def reg(*names):
        def deco(f):
            for n in names:
                L[n] = f
            return f
        return deco

    # ---------------------------------------------------------------- panics
    @reg('panic', 'core::panicking::panic', 'panicking::panic', 'panic_const', 'panic_explicit')
    def _panic(m, a, c, rt):
        msg = concrete_bytes(elems_of(m, a[0])) if a else b'explicit panic'
        raise Panic((msg or b'?').decode('utf-8', 'replace'))

    @reg('panic_fmt', 'core::panicking::panic_fmt')
    def _panic_fmt(m, a, c, rt):
        out = []
        try:
            fmt_arguments(m, a[0], out)
            msg = concrete_bytes(out)
            msg = msg.decode('utf-8', 'replace') if msg is not None else '<symbolic message>'
        except Unsupported:
            msg = '<unrendered panic message>'
        raise Panic(msg)

    @reg('assert_failed', 'assert_failed_inner')
    def _assert_failed(m, a, c, rt):
        raise Panic('assertion `left == right` failed')

    @reg('unwrap_failed', 'expect_failed', 'panic_bounds_check', 'slice_index_fail', 'slice_end_index_len_fail',
         'slice_start_index_len_fail', 'slice_index_order_fail', 'panic_nounwind', 'unreachable_display')
    def _generic_panic(m, a, c, rt):
        raise Panic(c.method)

    @reg('must_use')
    def _must_use(m, a, c, rt):
        return a[0]

    # ---------------------------------------------------------------- Try / Option / Result
    @reg('branch')
    def _branch(m, a, c, rt):
        v = a[0]
        if v.name == 'Result':
            if v.variant == 'Ok':
                return Adt('ControlFlow', 'Continue', [v.fields[0]])
            return Adt('ControlFlow', 'Break', [Adt('Result', 'Err', [v.fields[0]])])
        if v.name == 'Option':
            if v.variant == 'Some':
                return Adt('ControlFlow', 'Continue', [v.fields[0]])
            return Adt('ControlFlow', 'Break', [Adt('Option', 'None', [])])
        raise Unsupported('Try::branch on %r' % (v,))

    @reg('from_residual')
    def _from_residual(m, a, c, rt):
        v = a[0]
        if v.name == 'Option':
            return none()
        e = v.fields[0]
        # From conversion of the error type
        tgt = c.self_ty or ''
        if isinstance(e, Adt) and e.name == 'SignatureError' and 'Box<dyn' in tgt:
            return err(BoxObj(e, dyn='SignatureError'))
        if isinstance(e, Adt) and tgt and rt:
            want = None
            # Result<T, E2>: E2 is last generic arg
            inner = rt[rt.index('<') + 1:-1] if '<' in rt else ''
            parts = mp.split_top(inner)
            if len(parts) >= 2:
                want = type_base(parts[-1])
            if want and want not in (e.name, 'Box', 'dyn') and want != e.name:
                conv = m.resolve_local(parse_callee('<%s as From<%s>>::from' % (want, e.name)), [e])
                if conv is not None:
                    return err(m.run_body(conv, [e]))
            if want in ('Box', 'dyn'):
                return err(BoxObj(e, dyn=e.name))
        return err(e)

    @reg('unwrap', 'expect')
    def _unwrap(m, a, c, rt):
        v = a[0]
        if v.variant in ('Some', 'Ok'):
            return v.fields[0]
        msg = 'called `%s::%s()` on a `%s` value' % (v.name, c.method, v.variant)
        if c.method == 'expect':
            cb = concrete_bytes(elems_of(m, a[1]))
            msg = (cb or b'expect').decode('utf-8', 'replace')
        raise Panic(msg)

    @reg('unwrap_err', 'expect_err')
    def _unwrap_err(m, a, c, rt):
        v = a[0]
        if v.variant == 'Err':
            return v.fields[0]
        raise Panic('called `Result::unwrap_err()` on an `Ok` value')

    @reg('unwrap_or')
    def _unwrap_or(m, a, c, rt):
        v = a[0]
        return v.fields[0] if v.variant in ('Some', 'Ok') else a[1]

    @reg('unwrap_or_default')
    def _unwrap_or_default(m, a, c, rt):
        v = a[0]
        if v.variant in ('Some', 'Ok'):
            return v.fields[0]
        return default_of(m, rt)

    @reg('is_none')
    def _is_none(m, a, c, rt):
        return deref(m, a[0]).variant == 'None'

    @reg('is_some')
    def _is_some(m, a, c, rt):
        return deref(m, a[0]).variant == 'Some'

    @reg('is_ok')
    def _is_ok(m, a, c, rt):
        return deref(m, a[0]).variant == 'Ok'

    @reg('is_err')
    def _is_err(m, a, c, rt):
        return deref(m, a[0]).variant == 'Err'

    @reg('Option::map', 'Option::and_then', 'Result::map')
    def _opt_map(m, a, c, rt):
        v = a[0]
        if v.variant in ('Some', 'Ok'):
            r = m.call_value(a[1], [v.fields[0]])
            if c.method == 'and_then':
                return r
            return Adt(v.name, v.variant, [r])
        return v

    @reg('map_err')
    def _map_err(m, a, c, rt):
        v = a[0]
        if v.variant == 'Err':
            return err(m.call_value(a[1], [v.fields[0]]))
        return v

    @reg('ok_or')
    def _ok_or(m, a, c, rt):
        v = a[0]
        return ok(v.fields[0]) if v.variant == 'Some' else err(a[1])

    @reg('Result::ok')
    def _res_ok(m, a, c, rt):
        v = a[0]
        return some(v.fields[0]) if v.variant == 'Ok' else none()

    @reg('Option::as_ref', 'Option::as_mut')
    def _opt_as_ref(m, a, c, rt):
        p = a[0]
        v = m.load(p)
        if v.variant == 'None':
            return none()
        return some(p.step(('f', 0)))

    @reg('as_deref')
    def _as_deref(m, a, c, rt):
        p = a[0]
        v = m.load(p) if isinstance(p, Ptr) else p
        if v.variant == 'None':
            return none()
        inner = v.fields[0]
        if isinstance(p, Ptr):
            ip = p.step(('f', 0))
        else:
            ip = Ptr(Cell(inner), ())
        t = deref(m, ip)
        if isinstance(t, VecObj):
            return some(fat(m, ip, 'str' if t.kind == 'string' else 'slice'))
        if isinstance(t, Ptr):
            return some(t)
        raise Unsupported('as_deref of %r' % (t,))

    # ---------------------------------------------------------------- Default / Clone / From / Into
    def default_of(m, ty):
        b = type_base(ty or '')
        t = (ty or '').strip()
        if b == 'Option':
            return none()
        if b == 'String':
            return new_string([])
        if b == 'Vec':
            return VecObj([])
        if b == 'HashMap':
            return HashMapObj()
        if t == 'bool':
            return False
        if t in BITS:
            return Int(t, 0)
        if b == 'slice':
            return Ptr(Cell(Array([])), (), ('slice', 0, 0))
        if b == 'str':
            return str_ptr(b'')
        if b == '()':
            return unit()
        if b == 'array':
            inner = _strip_refs(t)[1:-1]
            si = mp.find_top(inner, ';')
            n = int(inner[si + 1:].strip())
            return Array([default_of(m, inner[:si]) for _ in range(n)])
        h = L.get('default:' + b)
        if h:
            return h(m)
        fn = m.resolve_local(parse_callee('<%s as Default>::default' % b), [])
        if fn is not None:
            return m.run_body(fn, [])
        raise Unsupported('Default for %s' % ty)

    m.default_of = default_of

    @reg('default')
    def _default(m, a, c, rt):
        return default_of(m, c.self_ty or rt)

    @reg('clone')
    def _clone(m, a, c, rt):
        v = a[0]
        if isinstance(v, Ptr) and v.meta is None:
            v = m.load(v)
        if hasattr(v, 'clone'):
            return v.clone(m)
        return clone_val(v)

    @reg('to_owned')
    def _to_owned(m, a, c, rt):
        v = a[0]
        if isinstance(v, Ptr) and v.meta is not None:
            return VecObj([e for e in elems_of(m, v)], 'string' if v.meta[0] == 'str' else 'vec')
        return _clone(m, a, c, rt)

    def convert(m, v, target, src_ty=None):
        """`From`/`Into` conversion of v into type `target`."""
        tb = type_base(target)
        if tb == 'String':
            if isinstance(v, VecObj) and v.kind == 'string':
                return v
            return new_string(elems_of(m, v))
        if tb == 'Option':
            inner = target[target.index('<') + 1:-1] if '<' in target else ''
            if isinstance(v, Adt) and v.name == 'Option':
                return v
            return some(convert(m, v, inner))
        if tb == 'array':
            if isinstance(v, Array):
                return v
            if hasattr(v, 'to_array'):
                return v.to_array()
        if tb == 'Box' or tb == 'dyn':
            if isinstance(v, BoxObj):
                return v
            if isinstance(v, Adt):
                return BoxObj(v, dyn=v.name)
            if isinstance(v, (Ptr, VecObj)):
                # Box<dyn Error> from &str / String
                cb = concrete_bytes(elems_of(m, v))
                return BoxObj(Opaque('foreign_error', (cb or b'<symbolic>').decode('utf-8', 'replace')), dyn='StringError')
        if tb == 'Bytes':
            if isinstance(v, VecObj):
                return VecObj(v.elems, 'bytes')
            return VecObj(list(elems_of(m, v)), 'bytes')
        if tb == 'Vec':
            if isinstance(v, VecObj):
                return VecObj(v.elems, 'vec')
            return VecObj(list(elems_of(m, v)), 'vec')
        if tb == 'Cow':
            if isinstance(v, Adt) and v.name == 'Cow':
                return v
            if isinstance(v, VecObj):
                return Adt('Cow', 'Owned', [v])
            return Adt('Cow', 'Borrowed', [v])
        # integer widening (u8 -> u32 ...) and bool -> integer
        if tb in BITS:
            if isinstance(v, (bool, z3.BoolRef)):
                if isinstance(v, bool):
                    return Int(tb, 1 if v else 0)
                return Int(tb, z3.If(v, z3.BitVecVal(1, BITS[tb]), z3.BitVecVal(0, BITS[tb])))
            if isinstance(v, Int):
                return m.cast('IntToInt', v, tb)
        # same type?
        rtv = m.runtime_type(v)
        if rtv == tb:
            return v
        h = L.get('convert:' + tb)
        if h:
            return h(m, v)
        # crate-local From impls
        src = rtv or (type_base(src_ty) if src_ty else None)
        if src:
            fn = m.resolve_local(parse_callee('<%s as From<%s>>::from' % (tb, src)), [v])
            if fn is not None and fn.params and type_base(fn.params[0][1]) == src:
                return m.run_body(fn, [v])
        if isinstance(v, Ptr) and v.meta is not None and tb in ('str', 'slice'):
            return v
        raise Unsupported('conversion of %r into %s' % (v, target))

    m.convert = convert

    @reg('into')
    def _into(m, a, c, rt):
        target = rt
        if c.trait and '<' in c.trait:
            target = c.trait[c.trait.index('<') + 1:-1]
        if target in ('VALUE',) or len(target) == 1:
            target = rt
        return convert(m, a[0], target, c.self_ty)

    @reg('from')
    def _from(m, a, c, rt):
        return convert(m, a[0], c.self_ty or rt)

    @reg('try_into', 'try_from')
    def _try_into(m, a, c, rt):
        raise Unsupported('try_into')

    # ---------------------------------------------------------------- refs / deref / as_*
    @reg('deref', 'deref_mut', 'as_ref', 'as_mut', 'borrow', 'as_slice', 'as_mut_slice', 'as_str', 'as_bytes',
         'as_mut_str', 'String::as_bytes')
    def _deref(m, a, c, rt):
        p = a[0]
        sb = c.self_base
        if isinstance(p, Ptr) and p.meta is not None:
            # &str / &[T]: as_bytes, as_ref ...
            if c.method == 'as_bytes':
                return Ptr(p.root, p.path, ('slice', p.meta[1], p.meta[2]), p.mut)
            want = type_base(rt or '')
            if want == 'str':
                return Ptr(p.root, p.path, ('str', p.meta[1], p.meta[2]), p.mut)
            if want == 'slice':
                return Ptr(p.root, p.path, ('slice', p.meta[1], p.meta[2]), p.mut)
            return p
        t = p
        last = p
        while isinstance(t, Ptr) and t.meta is None:
            last = t
            t = m.load(t)
        if isinstance(t, Ptr):
            # pointer to fat pointer (e.g. &&str)
            if c.method == 'as_bytes':
                return Ptr(t.root, t.path, ('slice', t.meta[1], t.meta[2]), t.mut)
            return t
        if hasattr(t, 'deref'):
            return t.deref(m, last, c, rt)
        if isinstance(t, VecObj):
            kind = 'str' if t.kind == 'string' else 'slice'
            if c.method in ('as_bytes', 'as_slice', 'as_mut_slice') or type_base(rt or '') == 'slice':
                kind = 'slice'
            if type_base(rt or '') == 'str':
                kind = 'str'
            if isinstance(last, Ptr):
                return Ptr(last.root, last.path, (kind, 0, len(t.elems)), last.mut)
            return Ptr(t, (), (kind, 0, len(t.elems)))
        if isinstance(t, Array):
            want = type_base(rt or '')
            if want == 'array':
                return last
            return Ptr(last.root, last.path, ('slice', 0, len(t.elems)), last.mut)
        if isinstance(t, Adt) and t.name == 'Cow':
            inner = t.fields[0]
            if isinstance(inner, Ptr):
                return inner
            return Ptr(last.root, last.path + (('f', 0),), ('str' if inner.kind == 'string' else 'slice', 0, len(inner.elems)))
        if isinstance(t, BoxObj):
            return Ptr(t.cell, ())
        if isinstance(t, Adt):
            # crate-local AsRef impl
            fn = m.resolve_local(c, a)
            if fn is not None:
                return m.run_body(fn, a)
            if c.method in ('as_ref', 'borrow'):
                return last
        raise Unsupported('%s on %r' % (c.raw, t))

    def lazy_static_get(m, name):
        cell = m.static_cells.get('lazy:' + name)
        if cell is None:
            v = m.run_body(m.lazy_inits[name], [])
            cell = Cell(v)
            m.static_cells['lazy:' + name] = cell
        return Ptr(cell, ())

    @reg('Lazy::get')
    def _lazy_get(m, a, c, rt):
        init = a[1]
        key = 'lazy:' + init.path
        cell = m.static_cells.get(key)
        if cell is None:
            cell = Cell(m.call_value(init, []))
            m.static_cells[key] = cell
        return Ptr(cell, ())

    # ---------------------------------------------------------------- integers / chars / bytes
    def ascii_class(name):
        def f(m, a, c, rt):
            v = deref(m, a[0])
            z = v.v
            bits = BITS[v.ty]

            def rng(lo, hi):
                if not v.sym:
                    return lo <= z <= hi
                return z3.And(z3.UGE(z, lo), z3.ULE(z, hi))

            def eq(x):
                return (z == x) if not v.sym else (z == z3.BitVecVal(x, bits))
            if name == 'alphanumeric':
                return zor(rng(0x30, 0x39), rng(0x41, 0x5A), rng(0x61, 0x7A))
            if name == 'alphabetic':
                return zor(rng(0x41, 0x5A), rng(0x61, 0x7A))
            if name == 'digit':
                return rng(0x30, 0x39)
            if name == 'hexdigit':
                return zor(rng(0x30, 0x39), rng(0x41, 0x46), rng(0x61, 0x66))
            if name == 'whitespace':
                return zor(eq(0x20), eq(0x09), eq(0x0A), eq(0x0C), eq(0x0D))
            if name == 'uppercase':
                return rng(0x41, 0x5A)
            if name == 'lowercase':
                return rng(0x61, 0x7A)
            if name == 'ascii':
                return rng(0, 0x7F)
            if name == 'punctuation':
                return zor(rng(0x21, 0x2F), rng(0x3A, 0x40), rng(0x5B, 0x60), rng(0x7B, 0x7E))
            if name == 'graphic':
                return rng(0x21, 0x7E)
            if name == 'control':
                return zor(rng(0, 0x1F), eq(0x7F))
            raise Unsupported(name)
        return f
    for nm in ('alphanumeric', 'alphabetic', 'digit', 'hexdigit', 'whitespace', 'uppercase', 'lowercase',
               'punctuation', 'graphic', 'control'):
        L['is_ascii_' + nm] = ascii_class(nm)

    def to_lower_byte(e):
        if not e.sym:
            return Int('u8', e.v + 32 if 0x41 <= e.v <= 0x5A else e.v)
        z = e.v
        return Int('u8', z3.If(z3.And(z3.UGE(z, 0x41), z3.ULE(z, 0x5A)), z + 32, z))

    def to_upper_byte(e):
        if not e.sym:
            return Int('u8', e.v - 32 if 0x61 <= e.v <= 0x7A else e.v)
        z = e.v
        return Int('u8', z3.If(z3.And(z3.UGE(z, 0x61), z3.ULE(z, 0x7A)), z - 32, z))

    @reg('is_ascii')
    def _is_ascii(m, a, c, rt):
        v = a[0]
        t = deref(m, v) if not (isinstance(v, Ptr) and v.meta is not None) else v
        if isinstance(t, Int):
            return ascii_class('ascii')(m, [t], c, rt)
        return zand(*[(e.v < 0x80) if not e.sym else z3.ULT(e.v, 0x80) for e in elems_of(m, v)])

    @reg('to_ascii_lowercase', 'to_ascii_uppercase')
    def _to_ascii_case(m, a, c, rt):
        f = to_lower_byte if c.method.endswith('lowercase') else to_upper_byte
        v = a[0]
        t = deref(m, v) if not (isinstance(v, Ptr) and v.meta is not None) else v
        if isinstance(t, Int):
            if t.ty == 'char':
                raise Unsupported('char to_ascii_*case')
            return f(t)
        es = elems_of(m, v)
        kind = 'string' if (c.self_base == 'str' or c.self_base == 'String') else 'vec'
        return VecObj([f(e) for e in es], kind)

    @reg('to_lowercase', 'to_uppercase')
    def _to_case(m, a, c, rt):
        # Unicode-aware case mapping: exact for ASCII; for non-ASCII bytes the path is constrained to ASCII-only
        es = elems_of(m, a[0])
        for e in es:
            if e.sym:
                if not m.ctx.branch(z3.ULT(e.v, 0x80)):
                    return unicode_case(m, es, c.method)
            elif e.v >= 0x80:
                return unicode_case(m, es, c.method)
        f = to_lower_byte if c.method == 'to_lowercase' else to_upper_byte
        return new_string([f(e) for e in es])

    def unicode_case(m, es, method):
        cb = concrete_bytes(es)
        if cb is not None:
            s = cb.decode('utf-8')
            return mk_string(s.lower() if method == 'to_lowercase' else s.upper())
        if method != 'to_lowercase':
            raise Unsupported('Unicode upper-casing of symbolic non-ASCII text')
        # symbolic text: exact for ASCII and the Latin-1 supplement (U+0080..U+00FF), which is all that Latin-1 decoded
        # header bytes can contain; anything beyond must be concrete
        out = []
        i = 0
        while i < len(es):
            ch, w = decode_char(m, es, i)
            i += w
            if not ch.sym:
                out.extend(Int('u8', b) for b in chr(ch.v).lower().encode('utf-8'))
                continue
            z = ch.v
            if m.ctx.branch(z3.ULT(z, 0x80)):
                lo = z3.If(z3.And(z3.UGE(z, 0x41), z3.ULE(z, 0x5A)), z + 32, z)
            elif m.ctx.branch(z3.ULT(z, 0x100)):
                lo = z3.If(z3.And(z3.UGE(z, 0xC0), z3.ULE(z, 0xDE), z != 0xD7), z + 32, z)
            else:
                raise Unsupported('Unicode lower-casing of symbolic text beyond U+00FF')
            out.extend(char_utf8(m, Int('char', z3.simplify(lo))))
        return new_string(out)

    @reg('eq_ignore_ascii_case')
    def _eq_ignore(m, a, c, rt):
        x, y = elems_of(m, a[0]), elems_of(m, a[1])
        return bytes_eq([to_lower_byte(e) for e in x], [to_lower_byte(e) for e in y])

    @reg('from_str_radix')
    def _from_str_radix(m, a, c, rt):
        es = elems_of(m, a[0])
        radix = a[1].v
        ty = c.self_base if c.self_base in BITS else 'u32'
        return parse_int(m, es, radix, ty)

    @reg('from_str')
    def _from_str(m, a, c, rt):
        sb = c.self_base
        if sb in BITS:
            return parse_int(m, elems_of(m, a[0]), 10, sb)
        fn = m.resolve_local(c, a)
        if fn:
            return m.run_body(fn, a)
        h = L.get('from_str:' + str(sb))
        if h:
            return h(m, a, c, rt)
        raise Unsupported('from_str for %s' % sb)

    def parse_int(m, es, radix, ty):
        """core::num::from_str_radix: optional sign, digits, overflow -> Err."""
        def perr():
            return err(Opaque('ParseIntError'))
        if not es:
            return perr()
        i = 0
        neg = False
        first = es[0]
        is_plus = m.ctx.branch((first.v == 0x2B) if not first.sym else (first.v == 0x2B))
        if is_plus:
            i = 1
        elif ty in SIGNED:
            if m.ctx.branch((first.v == 0x2D) if not first.sym else (first.v == 0x2D)):
                neg = True
                i = 1
        if i >= len(es):
            return perr()
        bits = BITS[ty]
        # wide enough for every value the digit run can denote (so that overflow of the target type is decided exactly)
        wide = max(bits + 8, (radix ** (len(es) - i)).bit_length() + 1)
        acc = z3.BitVecVal(0, wide)
        conc_acc = 0
        all_conc = True
        for e in es[i:]:
            if not e.sym:
                ch = e.v
                if 0x30 <= ch <= 0x39:
                    d = ch - 0x30
                elif 0x61 <= ch <= 0x7A:
                    d = ch - 0x61 + 10
                elif 0x41 <= ch <= 0x5A:
                    d = ch - 0x41 + 10
                else:
                    return perr()
                if d >= radix:
                    return perr()
                dz = z3.BitVecVal(d, wide)
                conc_acc = conc_acc * radix + d
            else:
                all_conc = False
                z = e.v
                isdig = z3.And(z3.UGE(z, 0x30), z3.ULE(z, min(0x39, 0x30 + radix - 1)))
                if radix > 10:
                    lo = z3.And(z3.UGE(z, 0x61), z3.ULE(z, 0x61 + radix - 11))
                    up = z3.And(z3.UGE(z, 0x41), z3.ULE(z, 0x41 + radix - 11))
                    ok_ = z3.Or(isdig, lo, up)
                    if not m.ctx.branch(ok_):
                        return perr()
                    dz = z3.ZeroExt(wide - 8, z3.If(isdig, z - 0x30, z3.If(lo, z - 0x61 + 10, z - 0x41 + 10)))
                else:
                    if not m.ctx.branch(isdig):
                        return perr()
                    dz = z3.ZeroExt(wide - 8, z - 0x30)
            acc = acc * radix + dz
        ndig = len(es) - i
        # overflow check (digits count small in practice; do it exactly)
        if all_conc:
            val = -conc_acc if neg else conc_acc
            lo_, hi_ = (-(1 << (bits - 1)), (1 << (bits - 1)) - 1) if ty in SIGNED else (0, (1 << bits) - 1)
            if not (lo_ <= val <= hi_):
                return perr()
            return ok(Int(ty, val))
        maxdig = len(str(radix ** 0)) and ndig
        lim = (1 << (bits - 1)) if ty in SIGNED else (1 << bits)
        if radix ** ndig - 1 >= lim:
            fits = z3.ULT(acc, z3.BitVecVal(lim, wide)) if not neg else z3.ULE(acc, z3.BitVecVal(lim, wide))
            if not m.ctx.branch(fits):
                return perr()
        r = z3.Extract(bits - 1, 0, acc)
        if neg:
            r = -r
        return ok(Int(ty, z3.simplify(r)))

    m.parse_int = parse_int

    # ---------------------------------------------------------------- str
    @reg('str::len', 'String::len', 'Vec::len', 'slice::len', 'len')
    def _len(m, a, c, rt):
        v = a[0]
        if isinstance(v, Ptr) and v.meta is not None:
            return usize(v.meta[2])
        t = deref(m, v)
        if isinstance(t, Ptr):
            return usize(t.meta[2])
        if isinstance(t, HashMapObj):
            return usize(len(t.entries))
        if hasattr(t, 'elems'):
            return usize(len(t.elems))
        raise Unsupported('len of %r' % (t,))

    @reg('is_empty')
    def _is_empty(m, a, c, rt):
        return _len(m, a, c, rt).v == 0

    @reg('to_string')
    def _to_string(m, a, c, rt):
        v = a[0]
        out = []
        display(m, v, out)
        return new_string(out)

    @reg('String::new', 'String::with_capacity')
    def _string_new(m, a, c, rt):
        return new_string([])

    @reg('Vec::new', 'Vec::with_capacity')
    def _vec_new(m, a, c, rt):
        return VecObj([])

    @reg('String::push')
    def _string_push(m, a, c, rt):
        s = deref(m, a[0])
        s.elems.extend(char_utf8(m, a[1]))
        return unit()

    @reg('push_str', 'extend_from_slice')
    def _push_str(m, a, c, rt):
        s = deref(m, a[0])
        s.elems.extend(elems_of(m, a[1]))
        return unit()

    @reg('truncate')
    def _truncate(m, a, c, rt):
        s = deref(m, a[0])
        n = a[1].v
        if n < len(s.elems):
            del s.elems[n:]
        return unit()

    @reg('clear')
    def _clear(m, a, c, rt):
        s = deref(m, a[0])
        if isinstance(s, HashMapObj):
            s.entries[:] = []
        else:
            del s.elems[:]
        return unit()

    @reg('str::starts_with', 'starts_with')
    def _starts_with(m, a, c, rt):
        es = elems_of(m, a[0])
        pat = a[1]
        pt = deref(m, pat) if not (isinstance(pat, Ptr) and pat.meta is not None) else pat
        if isinstance(pt, Int):
            pe = char_utf8(m, pt)
        else:
            pe = elems_of(m, pat)
        if len(pe) > len(es):
            return False
        return bytes_eq(es[:len(pe)], pe)

    @reg('ends_with')
    def _ends_with(m, a, c, rt):
        es = elems_of(m, a[0])
        pat = a[1]
        pt = deref(m, pat) if not (isinstance(pat, Ptr) and pat.meta is not None) else pat
        pe = char_utf8(m, pt) if isinstance(pt, Int) else elems_of(m, pat)
        if len(pe) > len(es):
            return False
        return bytes_eq(es[len(es) - len(pe):], pe)

    @reg('str::split', 'slice::split', 'split')
    def _split(m, a, c, rt):
        p = a[0] if a[0].meta is not None else fat(m, a[0], 'str')
        pat = a[1]
        pt = deref(m, pat) if isinstance(pat, Ptr) else pat
        if isinstance(pt, (Closure, FnItem)):
            pred = closure_pred(m, pat)
        else:
            pred = char_pred(m, pat)
        return ListIter(split_pieces(m, p, pred))

    @reg('str::splitn', 'slice::splitn', 'splitn')
    def _splitn(m, a, c, rt):
        p = a[0] if a[0].meta is not None else fat(m, a[0], 'str')
        n = a[1].v
        pat = a[2]
        pt = deref(m, pat) if isinstance(pat, Ptr) else pat
        pred = closure_pred(m, pat) if isinstance(pt, (Closure, FnItem)) else char_pred(m, pat)
        if n == 0:
            return ListIter([])
        return ListIter(split_pieces(m, p, pred, limit=n))

    @reg('split_once')
    def _split_once(m, a, c, rt):
        p = a[0]
        pred = char_pred(m, a[1])
        es = elems_of(m, p)
        for i, e in enumerate(es):
            if m.ctx.branch(pred(e, i)):
                return some(Tuple([sub(p, 0, i), sub(p, i + 1, len(es) - i - 1)]))
        return none()

    @reg('split_at')
    def _split_at(m, a, c, rt):
        p = a[0]
        k = a[1].v
        n = p.meta[2]
        if k > n:
            raise Panic('split_at out of bounds')
        return Tuple([sub(p, 0, k), sub(p, k, n - k)])

    @reg('str::bytes', 'bytes')
    def _bytes(m, a, c, rt):
        return ListIter(list(elems_of(m, a[0])))

    @reg('chars')
    def _chars(m, a, c, rt):
        es = elems_of(m, a[0])
        out = []
        i = 0
        while i < len(es):
            ch, w = decode_char(m, es, i)
            out.append(ch)
            i += w
        return ListIter(out)

    @reg('str::replace', 'replace')
    def _replace(m, a, c, rt):
        es = elems_of(m, a[0])
        pat = deref(m, a[1])
        if not isinstance(pat, Int):
            raise Unsupported('str::replace with non-char pattern')
        pred = char_pred(m, a[1])
        rep = elems_of(m, a[2])
        out = []
        for i, e in enumerate(es):
            if m.ctx.branch(pred(e, i)):
                out.extend(rep)
            else:
                out.append(e)
        return new_string(out)

    @reg('from_utf8')
    def _from_utf8(m, a, c, rt):
        v = a[0]
        if c.self_base == 'String' or isinstance(v, VecObj):
            vec = v
            if utf8_valid(m, vec.elems):
                return ok(VecObj(vec.elems, 'string'))
            return err(Opaque('FromUtf8Error', vec))
        if utf8_valid(m, elems_of(m, v)):
            return ok(Ptr(v.root, v.path, ('str', v.meta[1], v.meta[2]), v.mut))
        return err(Opaque('Utf8Error'))

    @reg('from_utf8_unchecked')
    def _from_utf8_unchecked(m, a, c, rt):
        v = a[0]
        return Ptr(v.root, v.path, ('str', v.meta[1], v.meta[2]), v.mut)

    @reg('from_utf8_lossy')
    def _from_utf8_lossy(m, a, c, rt):
        """String::from_utf8_lossy, exact: every maximal invalid prefix (core::str::Utf8Chunks) becomes U+FFFD; one fork per byte class."""
        v = a[0]
        es = elems_of(m, v)
        out = []
        changed = False
        i, n = 0, len(es)

        def rng(e, lo, hi):
            return (lo <= e.v <= hi) if not e.sym else z3.And(z3.UGE(e.v, lo), z3.ULE(e.v, hi))
        FFFD = [Int('u8', 0xEF), Int('u8', 0xBF), Int('u8', 0xBD)]
        while i < n:
            b = es[i]
            if m.ctx.branch(rng(b, 0x00, 0x7F)):
                out.append(b)
                i += 1
                continue
            if m.ctx.branch(rng(b, 0xC2, 0xDF)):
                need, lo, hi = 1, 0x80, 0xBF
            elif m.ctx.branch(rng(b, 0xE0, 0xE0)):
                need, lo, hi = 2, 0xA0, 0xBF
            elif m.ctx.branch(rng(b, 0xED, 0xED)):
                need, lo, hi = 2, 0x80, 0x9F
            elif m.ctx.branch(rng(b, 0xE1, 0xEF)):
                need, lo, hi = 2, 0x80, 0xBF
            elif m.ctx.branch(rng(b, 0xF0, 0xF0)):
                need, lo, hi = 3, 0x90, 0xBF
            elif m.ctx.branch(rng(b, 0xF4, 0xF4)):
                need, lo, hi = 3, 0x80, 0x8F
            elif m.ctx.branch(rng(b, 0xF1, 0xF3)):
                need, lo, hi = 3, 0x80, 0xBF
            else:
                out += FFFD
                changed = True
                i += 1
                continue
            j = i + 1
            good = True
            for k in range(need):
                if j >= n:
                    good = False
                    break
                r0, r1 = (lo, hi) if k == 0 else (0x80, 0xBF)
                if not m.ctx.branch(rng(es[j], r0, r1)):
                    good = False
                    break
                j += 1
            if good:
                out += es[i:j]
            else:
                out += FFFD
                changed = True
            i = j
        if not changed:
            return Adt('Cow', 'Borrowed', [Ptr(v.root, v.path, ('str', v.meta[1], v.meta[2]))])
        return Adt('Cow', 'Owned', [new_string(out)])

    # ---------------------------------------------------------------- comparisons
    @reg('eq', 'ne')
    def _eq(m, a, c, rt):
        r = values_eq(m, a[0], a[1])
        return r if c.method == 'eq' else znot(r)

    def values_eq(m, x, y):
        if isinstance(x, Ptr) and x.meta is None:
            x = m.load(x)
            return values_eq(m, x, y)
        if isinstance(y, Ptr) and y.meta is None:
            y = m.load(y)
            return values_eq(m, x, y)
        if isinstance(x, Int) and isinstance(y, Int):
            return m.binop('Eq', x, y)
        if isinstance(x, (bool, z3.BoolRef)):
            return m.binop('Eq', x, y)
        if isinstance(x, Adt) and x.name == 'Cow':
            return values_eq(m, x.fields[0], y)
        if isinstance(y, Adt) and y.name == 'Cow':
            return values_eq(m, x, y.fields[0])
        if isinstance(x, Adt) and isinstance(y, Adt):
            if x.name == 'Option' or x.name == 'Result':
                if x.variant != y.variant:
                    return False
                if not x.fields:
                    return True
                return values_eq(m, x.fields[0], y.fields[0])
            fn = m.resolve_local(parse_callee('<%s as PartialEq>::eq' % x.name), [x, y])
            if fn is not None:
                return m.run_body(fn, [Ptr(Cell(x), ()), Ptr(Cell(y), ())])
            if x.variant != y.variant or len(x.fields) != len(y.fields):
                return False
            return zand(*[values_eq(m, p, q) for p, q in zip(x.fields, y.fields)])
        if isinstance(x, Tuple) and isinstance(y, Tuple):
            return zand(*[values_eq(m, p, q) for p, q in zip(x.fields, y.fields)])
        xs_str = isinstance(x, Ptr) or (isinstance(x, (VecObj, Array)))
        if xs_str and getattr(m, 'x_memcmp_early_exit', False):
            # C07: `==` on byte slices is a length test followed by a byte-wise, early-exit memcmp (the harness-supplied libc model)
            xe, ye = elems_of(m, x), elems_of(m, y)
            if (not xe or isinstance(xe[0], Int)) and (not ye or isinstance(ye[0], Int)):
                if m.trace is not None:
                    m.trace.append(('memcmp:len', len(xe) == len(ye)))
                if len(xe) != len(ye):
                    return False
                for i, (p, q) in enumerate(zip(xe, ye)):
                    same = m.ctx.branch(m.binop('Eq', p, q))
                    if m.trace is not None:
                        m.trace.append(('memcmp:byte', i, same))
                    if not same:
                        return False
                return True
        if xs_str:
            xe, ye = elems_of(m, x), elems_of(m, y)
            if xe and not isinstance(xe[0], Int) or ye and not isinstance(ye[0], Int):
                if len(xe) != len(ye):
                    return False
                return zand(*[values_eq(m, p, q) for p, q in zip(xe, ye)])
            return bytes_eq(xe, ye)
        if hasattr(x, 'eq'):
            return x.eq(m, y)
        raise Unsupported('eq of %r and %r' % (x, y))

    m.values_eq = values_eq

    @reg('lt', 'le', 'gt', 'ge')
    def _ord(m, a, c, rt):
        x, y = deref(m, a[0]), deref(m, a[1])
        if isinstance(x, Adt) and x.name in ('Level', 'LevelFilter'):
            from .interp import ENUM_VALUES
            xv = ENUM_VALUES[x.name][x.variant]
            yv = ENUM_VALUES[y.name][y.variant]
            return {'lt': xv < yv, 'le': xv <= yv, 'gt': xv > yv, 'ge': xv >= yv}[c.method]
        if isinstance(x, Int):
            return m.binop({'lt': 'Lt', 'le': 'Le', 'gt': 'Gt', 'ge': 'Ge'}[c.method], x, y)
        if hasattr(x, 'cmp_op'):
            return x.cmp_op(m, c.method, y)
        if isinstance(x, (Ptr, VecObj)):
            xe, ye = elems_of(m, x), elems_of(m, y)
            if c.method == 'lt':
                return bytes_lt(xe, ye)
            if c.method == 'gt':
                return bytes_lt(ye, xe)
            if c.method == 'le':
                return znot(bytes_lt(ye, xe))
            return znot(bytes_lt(xe, ye))
        raise Unsupported('%s of %r' % (c.method, x))

    @reg('contains')
    def _contains(m, a, c, rt):
        es = elems_of(m, a[0])
        needle = a[1]
        if c.self_base == 'str' or (isinstance(a[0], Ptr) and a[0].meta and a[0].meta[0] == 'str'):
            raise Unsupported('str::contains')
        for e in es:
            if m.ctx.branch(values_eq(m, e, needle)):
                return True
        return False

    @reg('contains_key')
    def _contains_key(m, a, c, rt):
        h = deref(m, a[0])
        return hashmap_find(m, h, a[1]) is not None

    # ---------------------------------------------------------------- Vec / slice
    @reg('Vec::push', 'push')
    def _push(m, a, c, rt):
        v = deref(m, a[0])
        if isinstance(v, VecObj) and v.kind == 'string':
            return _string_push(m, a, c, rt)
        v.elems.append(a[1])
        return unit()

    @reg('Vec::pop', 'pop')
    def _pop(m, a, c, rt):
        v = deref(m, a[0])
        if not v.elems:
            return none()
        if v.kind == 'string':
            raise Unsupported('String::pop')
        return some(v.elems.pop())

    @reg('Vec::remove', 'remove')
    def _remove(m, a, c, rt):
        v = deref(m, a[0])
        if isinstance(v, HashMapObj):
            ent = hashmap_find(m, v, a[1])
            if ent is None:
                return none()
            v.entries.remove(ent)
            return some(ent[1].v)
        i = a[1].v
        if i >= len(v.elems):
            raise Panic('removal index (is %d) should be < len (is %d)' % (i, len(v.elems)))
        return v.elems.pop(i)

    @reg('Vec::insert')
    def _vec_insert(m, a, c, rt):
        v = deref(m, a[0])
        i = a[1].v
        if i > len(v.elems):
            raise Panic('insertion index out of bounds')
        v.elems.insert(i, a[2])
        return unit()

    @reg('retain')
    def _retain(m, a, c, rt):
        v = deref(m, a[0])
        keep = []
        for e in list(v.elems):
            if m.ctx.branch(m.call_value(a[1], [Ptr(Cell(e), ())])):
                keep.append(e)
        v.elems[:] = keep
        return unit()

    @reg('last', 'first')
    def _last(m, a, c, rt):
        p = a[0] if a[0].meta is not None else fat(m, a[0], 'slice')
        _, s, n = p.meta
        if n == 0:
            return none()
        k = s + n - 1 if c.method == 'last' else s
        return some(Ptr(p.root, p.path + (('i', k),)))

    @reg('index', 'index_mut')
    def _index(m, a, c, rt):
        base = a[0]
        idx = a[1]
        if isinstance(idx, Adt) and idx.name in ('Range', 'RangeFrom', 'RangeTo', 'RangeFull', 'RangeInclusive', 'RangeToInclusive'):
            p = base if (isinstance(base, Ptr) and base.meta is not None) else fat(m, base, 'slice')
            kind, s, n = p.meta
            tb = deref(m, base) if not (isinstance(base, Ptr) and base.meta is not None) else None
            if isinstance(tb, VecObj) and tb.kind == 'string':
                kind = 'str'
            lo, hi = 0, n
            if idx.name == 'Range':
                lo, hi = idx.fields[0].v, idx.fields[1].v
            elif idx.name == 'RangeFrom':
                lo = idx.fields[0].v
            elif idx.name == 'RangeTo':
                hi = idx.fields[0].v
            elif idx.name == 'RangeInclusive':
                lo, hi = idx.fields[0].v, idx.fields[1].v + 1
            elif idx.name == 'RangeToInclusive':
                hi = idx.fields[0].v + 1
            if isinstance(lo, z3.ExprRef) or isinstance(hi, z3.ExprRef):
                raise Unsupported('symbolic range index')
            if lo > hi:
                raise Panic('slice index starts at %d but ends at %d' % (lo, hi))
            if hi > n:
                raise Panic('range end index %d out of range for slice of length %d' % (hi, n))
            if kind == 'str':
                # str slicing panics when an index is not on a char boundary (a UTF-8 continuation byte 0x80..0xBF)
                es_ = container_of(m, p).elems
                for pos in (lo, hi):
                    if 0 < pos < n:
                        e_ = es_[s + pos]
                        cont = ((e_.v & 0xC0) == 0x80) if not e_.sym else ((e_.v & 0xC0) == 0x80)
                        if m.ctx.branch(cont):
                            raise Panic('byte index %d is not a char boundary' % pos)
            return Ptr(p.root, p.path, (kind, s + lo, hi - lo), p.mut)
        t = deref(m, base) if not (isinstance(base, Ptr) and base.meta is not None) else base
        if isinstance(t, HashMapObj):
            ent = hashmap_find(m, t, idx)
            if ent is None:
                raise Panic('key not found in HashMap index')
            return Ptr(ent[1], ())
        p = base if (isinstance(base, Ptr) and base.meta is not None) else fat(m, base, 'slice')
        _, s, n = p.meta
        if idx.sym:
            if not m.ctx.branch(z3.ULT(idx.v, z3.BitVecVal(n, 64))):
                raise Panic('index out of bounds')
            return Ptr(p.root, p.path + (('si', s, n, idx.v),))
        if idx.v >= n:
            raise Panic('index out of bounds: the len is %d but the index is %d' % (n, idx.v))
        return Ptr(p.root, p.path + (('i', s + idx.v),), None, p.mut)

    @reg('get')
    def _get(m, a, c, rt):
        t = deref(m, a[0]) if not (isinstance(a[0], Ptr) and a[0].meta is not None) else a[0]
        if isinstance(t, HashMapObj):
            ent = hashmap_find(m, t, a[1])
            return none() if ent is None else some(Ptr(ent[1], ()))
        if hasattr(t, 'get'):
            return t.get(m, a[1])
        p = a[0] if (isinstance(a[0], Ptr) and a[0].meta is not None) else fat(m, a[0], 'slice')
        _, s, n = p.meta
        i = a[1]
        if isinstance(i, Int):
            if i.sym:
                raise Unsupported('symbolic get')
            return some(Ptr(p.root, p.path + (('i', s + i.v),))) if i.v < n else none()
        if isinstance(i, Adt) and i.name in ('Range', 'RangeFrom', 'RangeTo', 'RangeFull', 'RangeInclusive', 'RangeToInclusive'):
            # get(range): the panics of Index become None
            try:
                return some(_index(m, [a[0], i], c, rt))
            except Panic:
                return none()
        raise Unsupported('slice::get with %r' % (i,))

    @reg('get_mut')
    def _get_mut(m, a, c, rt):
        return _get(m, a, c, rt)

    @reg('copy_from_slice', 'clone_from_slice')
    def _copy_from_slice(m, a, c, rt):
        dst = a[0]
        src = elems_of(m, a[1])
        _, s, n = dst.meta
        if n != len(src):
            raise Panic('source slice length (%d) does not match destination slice length (%d)' % (len(src), n))
        cont = container_of(m, dst)
        for k, e in enumerate(src):
            cont.elems[s + k] = copy_val(e)
        return unit()

    @reg('to_vec')
    def _to_vec(m, a, c, rt):
        return VecObj([copy_val(e) for e in elems_of(m, a[0])])

    @reg('join', 'concat')
    def _join(m, a, c, rt):
        items = elems_of(m, a[0])
        sep = []
        if len(a) > 1:
            sv = a[1]
            while isinstance(sv, Ptr) and sv.meta is None:
                sv = m.load(sv)
            sep = [sv] if isinstance(sv, Int) else elems_of(m, a[1])      # [T]::join(&T) / join(&[T]) / str join(&str)
        out = []
        for i, it in enumerate(items):
            if i:
                out.extend(sep)
            out.extend(elems_of(m, it))
        if len(a) > 1 and isinstance(sv, Int):
            return VecObj(out)          # [V]::join(&T) -> Vec<T>
        return new_string(out)

    def sort_list(m, items, less):
        """Stable insertion sort driven by symbolic comparisons (forks per comparison)."""
        out = []
        for it in items:
            pos = len(out)
            while pos > 0 and m.ctx.branch(less(it, out[pos - 1])):
                pos -= 1
            out.insert(pos, it)
        return out

    def value_lt(m, x, y):
        """Ord::lt for ints, strings/slices and tuples of them (lexicographic)."""
        if isinstance(x, Ptr) and x.meta is None:
            return value_lt(m, m.load(x), y)
        if isinstance(y, Ptr) and y.meta is None:
            return value_lt(m, x, m.load(y))
        if isinstance(x, Int):
            return m.binop('Lt', x, y)
        if isinstance(x, Tuple):
            alts = []
            eqs = []
            for p, q in zip(x.fields, y.fields):
                alts.append(zand(*(eqs + [value_lt(m, p, q)])))
                eqs.append(m.values_eq(m, p, q))
            return zor(*alts)
        if isinstance(x, Adt) and x.name == 'Cow':
            return value_lt(m, x.fields[0], y.fields[0] if isinstance(y, Adt) else y)
        return bytes_lt(elems_of(m, x), elems_of(m, y))

    m.value_lt = value_lt

    @reg('sort', 'sort_unstable')
    def _sort(m, a, c, rt):
        p = a[0] if (isinstance(a[0], Ptr) and a[0].meta is not None) else fat(m, a[0], 'slice')
        cont = container_of(m, p)
        _, s, n = p.meta
        items = cont.elems[s:s + n]

        def less(x, y):
            return value_lt(m, x, y)
        cont.elems[s:s + n] = sort_list(m, items, less)
        return unit()

    def unstable_shuffle(m, items, less):
        """An unstable sort promises nothing about the relative order of elements that compare equal: after the (stable) sort every
        maximal run of equal elements is permuted nondeterministically (all permutations for runs of <= 3, identity / reverse /
        rotations beyond).  Elements that are structurally identical are not permuted."""
        import itertools as _it
        out = []
        i = 0
        n = len(items)
        while i < n:
            j = i + 1
            while j < n and not m.ctx.branch(less(items[j - 1], items[j])):
                j += 1
            run = items[i:j]
            if len(run) > 1 and any(x is not run[0] for x in run[1:]):
                if len(run) <= 3:
                    perms = list(_it.permutations(range(len(run))))
                else:
                    k = len(run)
                    perms = [tuple(range(k)), tuple(reversed(range(k)))] + [tuple((r + t) % k for t in range(k)) for r in range(1, k)]
                which = m.ctx.pick(len(perms), 'unstable-sort')
                run = [run[t] for t in perms[which]]
            out.extend(run)
            i = j
        return out

    @reg('sort_by_key', 'sort_unstable_by_key', 'sort_by_cached_key', 'sort_by', 'sort_unstable_by')
    def _sort_by(m, a, c, rt):
        p = a[0] if (isinstance(a[0], Ptr) and a[0].meta is not None) else fat(m, a[0], 'slice')
        cont = container_of(m, p)
        _, s, n = p.meta
        items = cont.elems[s:s + n]
        f = a[1]
        if c.method in ('sort_by', 'sort_unstable_by'):
            def less(x, y):
                o = m.call_value(f, [Ptr(Cell(x), ()), Ptr(Cell(y), ())])
                return o.variant == 'Less'
        else:
            keys = {}

            def key(x):
                if id(x) not in keys:
                    keys[id(x)] = (x, m.call_value(f, [Ptr(Cell(x), ())]))
                return keys[id(x)][1]

            def less(x, y):
                return value_lt(m, key(x), key(y))
        res_ = sort_list(m, items, less)
        if 'unstable' in c.method:
            res_ = unstable_shuffle(m, res_, less)
        cont.elems[s:s + n] = res_
        return unit()

    @reg('extend')
    def _extend(m, a, c, rt):
        tgt = deref(m, a[0])
        src = a[1]
        if isinstance(tgt, HashMapObj):
            it = to_iter(m, src)
            while True:
                r = it.next(m)
                if r.variant == 'None':
                    break
                k, v = r.fields[0].fields
                hashmap_insert(m, tgt, k, v)
            return unit()
        if isinstance(src, PyIter):
            while True:
                r = src.next(m)
                if r.variant == 'None':
                    break
                tgt.elems.append(deref_copy(m, r.fields[0]))
            return unit()
        for e in elems_of(m, src):
            tgt.elems.append(copy_val(e))
        return unit()

    def deref_copy(m, v):
        if isinstance(v, Ptr) and v.meta is None:
            t = m.load(v)
            if isinstance(t, Int):
                return t
        return v

    # ---------------------------------------------------------------- Box internals used by `vec![x]`
    @reg('Box::new_uninit')
    def _box_new_uninit(m, a, c, rt):
        storage = Cell(Adt('MaybeUninit', None, [unit(), Adt('ManuallyDrop', None, [Adt('MaybeDangling', None, [None])])]))
        return Adt('Box', None, [Adt('Unique', None, [Ptr(storage, ())])])

    @reg('box_assume_init_into_vec_unsafe')
    def _box_into_vec(m, a, c, rt):
        p = a[0].fields[0].fields[0]
        arr = m.load(p).fields[1].fields[0].fields[0]
        return VecObj(arr.elems)

    @reg('Box::new', 'Box::pin')
    def _box_new(m, a, c, rt):
        return BoxObj(a[0])

    @reg('new_unchecked', 'Pin::new', 'into_future', 'get_mut', 'Pin::get_mut', 'as_mut', 'Pin::as_mut',
         'get_unchecked_mut', 'map_unchecked_mut', 'black_box', 'identity')
    def _identity(m, a, c, rt):
        if c.method == 'get_mut' and not (c.self_base == 'Pin'):
            return _get(m, a, c, rt)
        return a[0]

    # ---------------------------------------------------------------- iterators
    @reg('iter', 'iter_mut')
    def _iter(m, a, c, rt):
        t = deref(m, a[0]) if not (isinstance(a[0], Ptr) and a[0].meta is not None) else a[0]
        if isinstance(t, HashMapObj):
            return hashmap_iter(m, t, 'iter')
        if hasattr(t, 'iter'):
            return t.iter(m)
        return slice_iter(m, a[0])

    @reg('keys')
    def _keys(m, a, c, rt):
        return hashmap_iter(m, deref(m, a[0]), 'keys')

    @reg('values')
    def _values(m, a, c, rt):
        return hashmap_iter(m, deref(m, a[0]), 'values')

    @reg('into_iter')
    def _into_iter(m, a, c, rt):
        return to_iter(m, a[0])

    @reg('next')
    def _next(m, a, c, rt):
        it = deref(m, a[0])
        return it.next(m)

    @reg('map')
    def _map(m, a, c, rt):
        v = a[0]
        if isinstance(v, Adt):
            return _opt_map(m, a, c, rt)
        return MapIter(to_iter(m, v), a[1])

    @reg('enumerate')
    def _enumerate(m, a, c, rt):
        return EnumIter(to_iter(m, a[0]))

    @reg('collect')
    def _collect(m, a, c, rt):
        it = to_iter(m, a[0])
        items = []
        while True:
            r = it.next(m)
            if r.variant == 'None':
                break
            items.append(r.fields[0])
        tb = type_base(rt or c.generics or 'Vec')
        if tb == 'String':
            out = []
            for x in items:
                if isinstance(x, Int) and x.ty == 'char':
                    out.extend(char_utf8(m, x))
                else:
                    out.extend(elems_of(m, x))
            return new_string(out)
        if tb == 'Vec':
            return VecObj(items)
        if tb == 'HashMap':
            h = HashMapObj()
            for x in items:
                hashmap_insert(m, h, x.fields[0], x.fields[1])
            return h
        raise Unsupported('collect into %s' % rt)

    # ---------------------------------------------------------------- HashMap
    def hashmap_insert(m, h, k, v):
        ent = hashmap_find(m, h, k)
        if ent is not None:
            old = ent[1].v
            ent[1].v = v
            return some(old)
        h.entries.append([k, Cell(v)])
        return none()

    m.hashmap_insert = hashmap_insert

    @reg('HashMap::new', 'HashMap::with_capacity')
    def _hm_new(m, a, c, rt):
        return HashMapObj()

    @reg('HashMap::insert', 'insert')
    def _hm_insert(m, a, c, rt):
        h = deref(m, a[0])
        if isinstance(h, HashMapObj):
            return hashmap_insert(m, h, a[1], a[2])
        if hasattr(h, 'insert'):
            return h.insert(m, a[1:])
        return _vec_insert(m, a, c, rt)

    @reg('entry')
    def _entry(m, a, c, rt):
        h = deref(m, a[0])
        ent = hashmap_find(m, h, a[1])
        if ent is not None:
            return Adt('Entry', 'Occupied', [Opaque('entry', (h, ent))])
        return Adt('Entry', 'Vacant', [Opaque('entry', (h, a[1]))])

    @reg('or_default', 'or_insert', 'or_insert_with')
    def _or_default(m, a, c, rt):
        e = a[0]
        h, x = e.fields[0].data
        if e.variant == 'Occupied':
            return Ptr(x[1], (), None, True)
        if c.method == 'or_default':
            # value type: last generic of Entry<'_, K, V>
            st = c.self_ty or ''
            parts = mp.split_top(st[st.index('<') + 1:-1]) if '<' in st else []
            v = default_of(m, parts[-1] if parts else 'Vec')
        elif c.method == 'or_insert':
            v = a[1]
        else:
            v = m.call_value(a[1], [])
        ent = [x, Cell(v)]
        h.entries.append(ent)
        return Ptr(ent[1], (), None, True)

    # ---------------------------------------------------------------- fmt
    @reg('new_display')
    def _new_display(m, a, c, rt):
        return Opaque('Argument', ('display', a[0]))

    @reg('new_debug')
    def _new_debug(m, a, c, rt):
        return Opaque('Argument', ('debug', a[0]))

    @reg('Arguments::new')
    def _args_new(m, a, c, rt):
        t = elems_of(m, a[0])
        args = elems_of(m, a[1])
        return Opaque('Arguments', ('tmpl', bytes(e.v for e in t), list(args)))

    @reg('Arguments::from_str', 'Arguments::new_const')
    def _args_from_str(m, a, c, rt):
        return Opaque('Arguments', ('str', a[0]))

    @reg('fmt::format', 'format', 'std::fmt::format', 'format_inner')
    def _format(m, a, c, rt):
        out = []
        fmt_arguments(m, a[0], out)
        return new_string(out)

    @reg('Formatter::write_str', 'write_str')
    def _write_str(m, a, c, rt):
        f = deref(m, a[0])
        if isinstance(f, Formatter):
            f.out.extend(elems_of(m, a[1]))
        elif isinstance(f, VecObj):
            f.elems.extend(elems_of(m, a[1]))
        else:
            raise Unsupported('write_str on %r' % (f,))
        return ok(unit())

    @reg('Formatter::write_fmt', 'write_fmt')
    def _write_fmt(m, a, c, rt):
        f = deref(m, a[0])
        out = []
        fmt_arguments(m, a[1], out)
        if isinstance(f, Formatter):
            f.out.extend(out)
        elif isinstance(f, VecObj):
            f.elems.extend(out)
        else:
            raise Unsupported('write_fmt on %r' % (f,))
        return ok(unit())

    @reg('Display::fmt', 'fmt')
    def _fmt(m, a, c, rt):
        f = deref(m, a[1])
        out = []
        if c.trait_base == 'Debug':
            debug(m, a[0], out, f.alternate)
        else:
            display(m, a[0], out, f.alternate)
        f.out.extend(out)
        return ok(unit())

    def dbg_fields(m, f, name, pairs):
        _lit(f.out, name)
        if pairs and f.alternate:
            # {:#?}: one field per line, nested output indented by the PadAdapter; the flag is inherited by the fields
            _lit(f.out, ' {\n')
            for k, v in pairs:
                sub = []
                _lit(sub, k + ': ')
                debug(m, v, sub, True)
                _lit(sub, ',\n')
                f.out.extend(pad_adapter(m, sub))
            _lit(f.out, '}')
        elif pairs:
            _lit(f.out, ' { ')
            for i, (k, v) in enumerate(pairs):
                if i:
                    _lit(f.out, ', ')
                _lit(f.out, k + ': ')
                debug(m, v, f.out, False)
            _lit(f.out, ' }')
        return ok(unit())

    def cstr(m, v):
        return (concrete_bytes(elems_of(m, v)) or b'?').decode()

    def _dbg_struct_n(n):
        def h(m, a, c, rt):
            f = deref(m, a[0])
            name = cstr(m, a[1])
            pairs = [(cstr(m, a[2 + 2 * i]), a[3 + 2 * i]) for i in range(n)]
            return dbg_fields(m, f, name, pairs)
        return h
    for n in range(1, 6):
        L['debug_struct_field%d_finish' % n] = _dbg_struct_n(n)

    @reg('debug_struct_fields_finish')
    def _dbg_struct_fields(m, a, c, rt):
        f = deref(m, a[0])
        names = [cstr(m, x) for x in elems_of(m, a[2])]
        vals = list(elems_of(m, a[3]))
        return dbg_fields(m, f, cstr(m, a[1]), list(zip(names, vals)))

    def _dbg_tuple_n(n):
        def h(m, a, c, rt):
            f = deref(m, a[0])
            debug_entries(m, f.out, cstr(m, a[1]) + '(', ')', [(lambda o, x=a[2 + i]: debug(m, x, o, f.alternate)) for i in range(n)], f.alternate)
            return ok(unit())
        return h
    for n in range(1, 5):
        L['debug_tuple_field%d_finish' % n] = _dbg_tuple_n(n)

    @reg('Result::and', 'Option::and', 'and')
    def _and(m, a, c, rt):
        x = a[0]
        if isinstance(x, Adt) and x.variant in ('Ok', 'Some'):
            return a[1]
        return x

    @reg('OnceLock::new', 'OnceCell::new')
    def _once_new(m, a, c, rt):
        return OnceObj()
    L['default:OnceLock'] = lambda m: OnceObj()
    L['default:OnceCell'] = lambda m: OnceObj()
    L['default:PhantomData'] = lambda m: Opaque('PhantomData', '')

    @reg('OnceLock::get', 'OnceCell::get')
    def _once_get(m, a, c, rt):
        o = deref(m, a[0])
        return some(Ptr(Cell(o.value), ())) if o.filled else none()

    @reg('OnceLock::set', 'OnceCell::set')
    def _once_set(m, a, c, rt):
        o = deref(m, a[0])
        if o.filled:
            return err(a[1])
        o.value, o.filled = a[1], True
        return ok(unit())

    @reg('OnceLock::get_or_init', 'OnceCell::get_or_init')
    def _once_get_or_init(m, a, c, rt):
        o = deref(m, a[0])
        if not o.filled:
            o.value, o.filled = m.call_value(a[1], []), True
        return Ptr(Cell(o.value), ())

    @reg('Formatter::alternate', 'alternate')
    def _alternate(m, a, c, rt):
        return bool(deref(m, a[0]).alternate)

    @reg('Formatter::sign_plus', 'sign_plus', 'Formatter::sign_minus', 'sign_minus', 'Formatter::sign_aware_zero_pad', 'sign_aware_zero_pad')
    def _fmt_flag_false(m, a, c, rt):
        return False

    @reg('Formatter::width', 'Formatter::precision')
    def _fmt_none(m, a, c, rt):
        return none()

    @reg('debug_struct')
    def _debug_struct(m, a, c, rt):
        f = deref(m, a[0])
        _lit(f.out, cstr(m, a[1]))
        return Opaque('DebugStruct', [f, 0])

    @reg('DebugStruct::field', 'field')
    def _ds_field(m, a, c, rt):
        ds = deref(m, a[0])
        f, n = ds.data
        if f.alternate:
            if n == 0:
                _lit(f.out, ' {\n')
            sub = []
            _lit(sub, cstr(m, a[1]) + ': ')
            debug(m, a[2], sub, True)
            _lit(sub, ',\n')
            f.out.extend(pad_adapter(m, sub))
        else:
            _lit(f.out, ' { ' if n == 0 else ', ')
            _lit(f.out, cstr(m, a[1]) + ': ')
            debug(m, a[2], f.out, False)
        ds.data[1] = n + 1
        return a[0]

    @reg('DebugStruct::finish', 'finish', 'finish_non_exhaustive')
    def _ds_finish(m, a, c, rt):
        ds = deref(m, a[0])
        if isinstance(ds, Opaque) and ds.kind == 'DebugStruct':
            f, n = ds.data
            if n:
                _lit(f.out, '}' if f.alternate else ' }')
            return ok(unit())
        raise Unsupported('finish on %r' % (ds,))

    # ---------------------------------------------------------------- misc
    @reg('drop', 'mem::drop', 'forget')
    def _drop(m, a, c, rt):
        return unit()

    @reg('size_hint')
    def _size_hint(m, a, c, rt):
        return Tuple([usize(0), none()])

    @reg('mem::replace', 'replace_')
    def _mem_replace(m, a, c, rt):
        old = m.load(a[0])
        m.store(a[0], a[1])
        return old

    @reg('mem::take', 'take')
    def _take(m, a, c, rt):
        p = a[0]
        old = m.load(p)
        if isinstance(old, Adt) and old.name == 'Option':
            m.store(p, none())
            return old
        raise Unsupported('take of %r' % (old,))


# =============================================================================
# second batch of summaries (iterator adaptors, more Vec / str / Option methods)

class FilterIter(PyIter):
    def __init__(self, inner, f, mode='filter'):
        self.inner, self.f, self.mode = inner, f, mode

    def next(self, m):
        while True:
            r = self.inner.next(m)
            if r.variant == 'None':
                return r
            x = r.fields[0]
            if self.mode == 'filter':
                if m.ctx.branch(m.call_value(self.f, [Ptr(Cell(x), ())])):
                    return some(x)
            else:   # filter_map
                y = m.call_value(self.f, [x])
                if y.variant == 'Some':
                    return y


class ChainIter(PyIter):
    def __init__(self, a, b):
        self.a, self.b = a, b

    def next(self, m):
        r = self.a.next(m)
        if r.variant == 'Some':
            return r
        return self.b.next(m)


class ZipIter(PyIter):
    def __init__(self, a, b):
        self.a, self.b = a, b

    def next(self, m):
        x = self.a.next(m)
        if x.variant == 'None':
            return x
        y = self.b.next(m)
        if y.variant == 'None':
            return y
        return some(Tuple([x.fields[0], y.fields[0]]))


def drain_iter(m, it):
    out = []
    while True:
        r = it.next(m)
        if r.variant == 'None':
            return out
        out.append(r.fields[0])


def install2(m):
    L = m.lib

    def reg(*names):
        def deco(f):
            for n in names:
                L[n] = f
            return f
        return deco

    @reg('append')
    def _append(m, a, c, rt):
        dst, src = deref(m, a[0]), deref(m, a[1])
        dst.elems.extend(src.elems)
        src.elems[:] = []
        return unit()

    @reg('filter')
    def _filter(m, a, c, rt):
        if isinstance(a[0], Adt):
            v = a[0]
            if v.variant == 'Some' and m.ctx.branch(m.call_value(a[1], [Ptr(Cell(v.fields[0]), ())])):
                return v
            return none()
        return FilterIter(to_iter(m, a[0]), a[1])

    @reg('filter_map')
    def _filter_map(m, a, c, rt):
        return FilterIter(to_iter(m, a[0]), a[1], 'filter_map')

    @reg('chain')
    def _chain(m, a, c, rt):
        return ChainIter(to_iter(m, a[0]), to_iter(m, a[1]))

    @reg('zip')
    def _zip(m, a, c, rt):
        return ZipIter(to_iter(m, a[0]), to_iter(m, a[1]))

    @reg('rev')
    def _rev(m, a, c, rt):
        return ListIter(drain_iter(m, to_iter(m, a[0]))[::-1])

    @reg('skip')
    def _skip(m, a, c, rt):
        return ListIter(drain_iter(m, to_iter(m, a[0]))[a[1].v:])

    @reg('Iterator::take', 'take_n')
    def _take_n(m, a, c, rt):
        return ListIter(drain_iter(m, to_iter(m, a[0]))[:a[1].v])

    @reg('cloned', 'copied')
    def _cloned(m, a, c, rt):
        if isinstance(a[0], Adt):
            v = a[0]
            return some(clone_val(deref(m, v.fields[0]))) if v.variant == 'Some' else v
        return ListIter([clone_val(deref(m, x)) if isinstance(x, Ptr) and x.meta is None else x for x in drain_iter(m, to_iter(m, a[0]))])

    @reg('peekable', 'fuse', 'by_ref')
    def _same_iter(m, a, c, rt):
        return to_iter(m, a[0]) if c.method != 'by_ref' else a[0]

    @reg('count')
    def _count(m, a, c, rt):
        return usize(len(drain_iter(m, to_iter(m, a[0]))))

    @reg('Iterator::last')
    def _it_last(m, a, c, rt):
        xs = drain_iter(m, to_iter(m, a[0]))
        return some(xs[-1]) if xs else none()

    @reg('nth')
    def _nth(m, a, c, rt):
        xs = drain_iter(m, to_iter(m, a[0]))
        return some(xs[a[1].v]) if a[1].v < len(xs) else none()

    @reg('any', 'all')
    def _any(m, a, c, rt):
        it = to_iter(m, a[0])
        while True:
            r = it.next(m)
            if r.variant == 'None':
                return c.method == 'all'
            t = m.ctx.branch(m.call_value(a[1], [r.fields[0]]))
            if c.method == 'any' and t:
                return True
            if c.method == 'all' and not t:
                return False

    @reg('position', 'Iterator::find', 'find_map')
    def _position(m, a, c, rt):
        it = to_iter(m, a[0])
        k = 0
        while True:
            r = it.next(m)
            if r.variant == 'None':
                return none()
            x = r.fields[0]
            if c.method == 'find_map':
                y = m.call_value(a[1], [x])
                if y.variant == 'Some':
                    return y
            else:
                arg = x if c.method == 'position' else Ptr(Cell(x), ())
                if m.ctx.branch(m.call_value(a[1], [arg])):
                    return some(usize(k) if c.method == 'position' else x)
            k += 1

    @reg('fold')
    def _fold(m, a, c, rt):
        acc = a[1]
        for x in drain_iter(m, to_iter(m, a[0])):
            acc = m.call_value(a[2], [acc, x])
        return acc

    @reg('for_each')
    def _for_each(m, a, c, rt):
        for x in drain_iter(m, to_iter(m, a[0])):
            m.call_value(a[1], [x])
        return unit()

    @reg('flat_map', 'flatten')
    def _flat_map(m, a, c, rt):
        out = []
        for x in drain_iter(m, to_iter(m, a[0])):
            y = m.call_value(a[1], [x]) if c.method == 'flat_map' else x
            out.extend(drain_iter(m, to_iter(m, y)))
        return ListIter(out)

    @reg('reverse')
    def _reverse(m, a, c, rt):
        p = a[0] if (isinstance(a[0], Ptr) and a[0].meta is not None) else fat(m, a[0], 'slice')
        cont = container_of(m, p)
        _, s, n = p.meta
        cont.elems[s:s + n] = cont.elems[s:s + n][::-1]
        return unit()

    @reg('swap')
    def _swap(m, a, c, rt):
        if isinstance(a[1], Int):
            p = a[0] if (isinstance(a[0], Ptr) and a[0].meta is not None) else fat(m, a[0], 'slice')
            cont = container_of(m, p)
            s = p.meta[1]
            i, j = s + a[1].v, s + a[2].v
            cont.elems[i], cont.elems[j] = cont.elems[j], cont.elems[i]
            return unit()
        x, y = m.load(a[0]), m.load(a[1])
        m.store(a[0], y)
        m.store(a[1], x)
        return unit()

    @reg('dedup')
    def _dedup(m, a, c, rt):
        v = deref(m, a[0])
        out = []
        for e in v.elems:
            if out and m.ctx.branch(m.values_eq(m, out[-1], e)):
                continue
            out.append(e)
        v.elems[:] = out
        return unit()

    @reg('drain')
    def _drain(m, a, c, rt):
        v = deref(m, a[0])
        if isinstance(v, HashMapObj):
            items = [Tuple([k, cc.v]) for k, cc in [v.entries[i] for i in hashmap_order(m, v)]]
            v.entries[:] = []
            return ListIter(items)
        rg = a[1] if len(a) > 1 else None
        lo, hi = 0, len(v.elems)
        if isinstance(rg, Adt):
            if rg.name == 'Range':
                lo, hi = rg.fields[0].v, rg.fields[1].v
            elif rg.name == 'RangeFrom':
                lo = rg.fields[0].v
            elif rg.name == 'RangeTo':
                hi = rg.fields[0].v
        items = v.elems[lo:hi]
        del v.elems[lo:hi]
        return ListIter(items)

    @reg('into_bytes', 'into_boxed_str', 'into_boxed_slice', 'into_string', 'into_owned', 'into_vec', 'shrink_to_fit', 'reserve')
    def _into_same(m, a, c, rt):
        v = a[0]
        if c.method in ('shrink_to_fit', 'reserve'):
            return unit()
        if c.method == 'into_owned':
            if isinstance(v, Adt) and v.name == 'Cow':
                inner = v.fields[0]
                if isinstance(inner, VecObj):
                    return inner
                return VecObj(list(elems_of(m, inner)), 'string' if inner.meta[0] == 'str' else 'vec')
        if c.method == 'into_bytes':
            return VecObj(v.elems, 'vec')
        if c.method == 'into_string':
            return VecObj(v.elems, 'string')
        return v

    def trim_generic(m, p, pred, start=True, end=True):
        es = elems_of(m, p)
        lo, hi = 0, len(es)
        if start:
            while lo < hi and m.ctx.branch(pred(es[lo])):
                lo += 1
        if end:
            while hi > lo and m.ctx.branch(pred(es[hi - 1])):
                hi -= 1
        return sub(p, lo, hi - lo)

    def ws_pred(e):
        # Unicode White_Space restricted to what a single byte can be (ASCII whitespace); non-ASCII whitespace is
        # multi-byte and is not trimmed by this summary: callers with non-ASCII text get Unsupported below
        if not e.sym:
            return e.v in (0x20, 0x09, 0x0A, 0x0B, 0x0C, 0x0D)
        return z3.Or(e.v == 0x20, z3.And(z3.UGE(e.v, 0x09), z3.ULE(e.v, 0x0D)))

    @reg('trim', 'trim_start', 'trim_end', 'trim_ascii', 'trim_ascii_start', 'trim_ascii_end')
    def _trim(m, a, c, rt):
        p = a[0] if (isinstance(a[0], Ptr) and a[0].meta is not None) else fat(m, a[0], 'str')
        es = elems_of(m, p)
        if not c.method.startswith('trim_ascii'):
            # char::is_whitespace = Unicode White_Space: ASCII 09-0D, 20 and the multi-byte U+0085, U+00A0, U+1680, U+2000-200A,
            # U+2028, U+2029, U+202F, U+205F, U+3000
            MULTI = [(0xC2, 0x85), (0xC2, 0xA0), (0xE1, 0x9A, 0x80), (0xE2, 0x80, 0xA8), (0xE2, 0x80, 0xA9), (0xE2, 0x80, 0xAF),
                     (0xE2, 0x81, 0x9F), (0xE3, 0x80, 0x80)] + [(0xE2, 0x80, 0x80 + k) for k in range(0x0B)]

            def eqb(e, v):
                return (e.v == v) if not e.sym else (e.v == z3.BitVecVal(v, 8))

            def is_ascii(e):
                return m.ctx.branch((e.v < 0x80) if not e.sym else z3.ULT(e.v, 0x80))

            def ws_at_start(lo, hi):
                if lo < hi and m.ctx.branch(ws_pred(es[lo])):
                    return 1
                if lo < hi and is_ascii(es[lo]):
                    return 0
                for pat in MULTI:
                    if lo + len(pat) <= hi and m.ctx.branch(zand(*[eqb(es[lo + k], b) for k, b in enumerate(pat)])):
                        return len(pat)
                return 0

            def ws_at_end(lo, hi):
                if hi > lo and m.ctx.branch(ws_pred(es[hi - 1])):
                    return 1
                if hi > lo and is_ascii(es[hi - 1]):
                    return 0
                for pat in MULTI:
                    if hi - len(pat) >= lo and m.ctx.branch(zand(*[eqb(es[hi - len(pat) + k], b) for k, b in enumerate(pat)])):
                        return len(pat)
                return 0
            lo, hi = 0, len(es)
            if not c.method.endswith('end'):
                while lo < hi:
                    k = ws_at_start(lo, hi)
                    if not k:
                        break
                    lo += k
            if not c.method.endswith('start'):
                while hi > lo:
                    k = ws_at_end(lo, hi)
                    if not k:
                        break
                    hi -= k
            return sub(p, lo, hi - lo)
        else:
            def pred(e):
                if not e.sym:
                    return e.v in (0x20, 0x09, 0x0A, 0x0C, 0x0D)
                return z3.Or(e.v == 0x20, e.v == 0x09, e.v == 0x0A, e.v == 0x0C, e.v == 0x0D)
        return trim_generic(m, p, pred, not c.method.endswith('end'), not c.method.endswith('start'))

    @reg('trim_matches', 'trim_start_matches', 'trim_end_matches')
    def _trim_matches(m, a, c, rt):
        pred0 = char_pred(m, a[1])
        return trim_generic(m, a[0], lambda e: pred0(e, 0), not c.method.startswith('trim_end'), not c.method.startswith('trim_start'))

    @reg('strip_prefix', 'strip_suffix')
    def _strip(m, a, c, rt):
        p = a[0]
        es = elems_of(m, p)
        pat = a[1]
        pt = deref(m, pat) if not (isinstance(pat, Ptr) and pat.meta is not None) else pat
        pe = char_utf8(m, pt) if isinstance(pt, Int) else elems_of(m, pat)
        if len(pe) > len(es):
            return none()
        if c.method == 'strip_prefix':
            if m.ctx.branch(bytes_eq(es[:len(pe)], pe)):
                return some(sub(p, len(pe), len(es) - len(pe)))
        else:
            if m.ctx.branch(bytes_eq(es[len(es) - len(pe):], pe)):
                return some(sub(p, 0, len(es) - len(pe)))
        return none()

    @reg('str::find', 'rfind')
    def _str_find(m, a, c, rt):
        es = elems_of(m, a[0])
        pat = a[1]
        pt = deref(m, pat) if not (isinstance(pat, Ptr) and pat.meta is not None) else pat
        if isinstance(pt, (Closure, FnItem)):
            raise Unsupported('str::find with closure')
        pe = char_utf8(m, pt) if isinstance(pt, Int) else elems_of(m, pat)
        rng = range(0, len(es) - len(pe) + 1)
        if c.method == 'rfind':
            rng = reversed(rng)
        for i in rng:
            if m.ctx.branch(bytes_eq(es[i:i + len(pe)], pe)):
                return some(usize(i))
        return none()

    @reg('rsplit_once')
    def _rsplit_once(m, a, c, rt):
        p = a[0]
        pred = char_pred(m, a[1])
        es = elems_of(m, p)
        for i in range(len(es) - 1, -1, -1):
            if m.ctx.branch(pred(es[i], i)):
                return some(Tuple([sub(p, 0, i), sub(p, i + 1, len(es) - i - 1)]))
        return none()

    @reg('rsplit', 'rsplitn')
    def _rsplit(m, a, c, rt):
        p = a[0] if a[0].meta is not None else fat(m, a[0], 'str')
        limit = None
        pat = a[1]
        if c.method == 'rsplitn':
            limit = a[1].v
            pat = a[2]
            if limit == 0:
                return ListIter([])
        pt = deref(m, pat) if isinstance(pat, Ptr) else pat
        pred = closure_pred(m, pat) if isinstance(pt, (Closure, FnItem)) else char_pred(m, pat)
        es = elems_of(m, p)
        pieces = []
        end = len(es)
        for i in range(len(es) - 1, -1, -1):
            if limit is not None and len(pieces) >= limit - 1:
                break
            if m.ctx.branch(pred(es[i], i)):
                pieces.append(sub(p, i + 1, end - i - 1))
                end = i
        pieces.append(sub(p, 0, end))
        return ListIter(pieces)

    @reg('str::split_terminator', 'split_terminator')
    def _split_terminator(m, a, c, rt):
        p = a[0] if a[0].meta is not None else fat(m, a[0], 'str')
        pat = a[1]
        pt = deref(m, pat) if isinstance(pat, Ptr) else pat
        pred = closure_pred(m, pat) if isinstance(pt, (Closure, FnItem)) else char_pred(m, pat)
        pieces = split_pieces(m, p, pred)
        if pieces and pieces[-1].meta[2] == 0:
            pieces.pop()
        return ListIter(pieces)

    @reg('str::split_inclusive', 'split_inclusive')
    def _split_inclusive(m, a, c, rt):
        p = a[0] if a[0].meta is not None else fat(m, a[0], 'str')
        pred = char_pred(m, a[1])
        es = elems_of(m, p)
        pieces = []
        start = 0
        for i, e in enumerate(es):
            if m.ctx.branch(pred(e, i)):
                pieces.append(sub(p, start, i + 1 - start))
                start = i + 1
        if start < len(es):
            pieces.append(sub(p, start, len(es) - start))
        return ListIter(pieces)

    @reg('split_whitespace', 'split_ascii_whitespace')
    def _split_ws(m, a, c, rt):
        p = a[0]
        es = elems_of(m, p)
        pieces = []
        start = None
        for i, e in enumerate(es):
            if m.ctx.branch(ws_pred(e)):
                if start is not None:
                    pieces.append(sub(p, start, i - start))
                    start = None
            elif start is None:
                start = i
        if start is not None:
            pieces.append(sub(p, start, len(es) - start))
        return ListIter(pieces)

    @reg('lines')
    def _lines(m, a, c, rt):
        raise Unsupported('str::lines')

    @reg('repeat')
    def _repeat(m, a, c, rt):
        es = elems_of(m, a[0])
        return new_string(list(es) * a[1].v)

    @reg('char_indices')
    def _char_indices(m, a, c, rt):
        es = elems_of(m, a[0])
        out = []
        i = 0
        while i < len(es):
            ch, w = decode_char(m, es, i)
            out.append(Tuple([usize(i), ch]))
            i += w
        return ListIter(out)

    @reg('is_char_boundary')
    def _is_char_boundary(m, a, c, rt):
        es = elems_of(m, a[0])
        i = a[1].v
        if i == 0 or i == len(es):
            return True
        if i > len(es):
            return False
        e = es[i]
        return ((e.v & 0xC0) != 0x80) if not e.sym else ((e.v & 0xC0) != 0x80)

    @reg('Option::or', 'or_else', 'Option::and', 'xor')
    def _opt_or(m, a, c, rt):
        v = a[0]
        if c.method in ('or',):
            return v if v.variant in ('Some', 'Ok') else a[1]
        if c.method == 'or_else':
            return v if v.variant in ('Some', 'Ok') else m.call_value(a[1], [] if v.name == 'Option' else [v.fields[0]])
        if c.method == 'and':
            return a[1] if v.variant in ('Some', 'Ok') else v
        raise Unsupported(c.method)

    @reg('unwrap_or_else')
    def _unwrap_or_else(m, a, c, rt):
        v = a[0]
        if v.variant in ('Some', 'Ok'):
            return v.fields[0]
        return m.call_value(a[1], [] if v.name == 'Option' else [v.fields[0]])

    @reg('map_or', 'map_or_else')
    def _map_or(m, a, c, rt):
        v = a[0]
        if v.variant in ('Some', 'Ok'):
            return m.call_value(a[2], [v.fields[0]])
        if c.method == 'map_or':
            return a[1]
        return m.call_value(a[1], [] if v.name == 'Option' else [v.fields[0]])

    @reg('is_some_and', 'is_ok_and', 'is_none_or')
    def _is_some_and(m, a, c, rt):
        v = a[0]
        if v.variant in ('Some', 'Ok'):
            return m.call_value(a[1], [v.fields[0]])
        return c.method == 'is_none_or'

    @reg('ok_or_else')
    def _ok_or_else(m, a, c, rt):
        v = a[0]
        return ok(v.fields[0]) if v.variant == 'Some' else err(m.call_value(a[1], []))

    @reg('Result::err')
    def _res_err(m, a, c, rt):
        v = a[0]
        return some(v.fields[0]) if v.variant == 'Err' else none()

    @reg('and_then')
    def _and_then(m, a, c, rt):
        v = a[0]
        if v.variant in ('Some', 'Ok'):
            return m.call_value(a[1], [v.fields[0]])
        return v

    @reg('min', 'max')
    def _minmax(m, a, c, rt):
        x, y = a[0], a[1]
        if isinstance(x, Int):
            lt = m.binop('Lt', x, y)
            if c.method == 'min':
                return m.ite(lt, x, y) if not isinstance(lt, bool) else (x if lt else y)
            return m.ite(lt, y, x) if not isinstance(lt, bool) else (y if lt else x)
        raise Unsupported('min/max of %r' % (x,))

    @reg('saturating_sub', 'saturating_add', 'wrapping_add', 'wrapping_sub', 'wrapping_mul', 'checked_add', 'checked_sub', 'checked_mul')
    def _intops(m, a, c, rt):
        x, y = a[0], a[1]
        op = {'add': 'Add', 'sub': 'Sub', 'mul': 'Mul'}[c.method.split('_')[1]]
        if c.method.startswith('wrapping'):
            return m.binop(op, x, y)
        t = m.binop(op + 'WithOverflow', x, y)
        val, ov = t.fields
        if c.method.startswith('checked'):
            return none() if m.ctx.branch(ov) else some(val)
        if m.ctx.branch(ov):
            bits = BITS[x.ty]
            if x.ty in SIGNED:
                raise Unsupported('signed saturating op')
            return Int(x.ty, 0 if op == 'Sub' else (1 << bits) - 1)
        return val

    @reg('abs', 'unsigned_abs')
    def _abs(m, a, c, rt):
        x = a[0]
        if not x.sym:
            return Int(x.ty if c.method == 'abs' else 'u' + x.ty[1:], abs(x.v))
        raise Unsupported('abs of symbolic')

    @reg('read_volatile', 'ptr::read', 'read')
    def _read_volatile(m, a, c, rt):
        return copy_val(m.load(a[0]))

    @reg('u8::pow', 'u16::pow', 'u32::pow', 'u64::pow', 'u128::pow', 'usize::pow', 'i32::pow', 'i64::pow', 'num::pow')
    def _int_pow(m, a, c, rt):
        # #[rustc_inherit_overflow_checks]: with overflow checks on (the configuration of the MIR that is executed) overflow panics
        base, exp = a[0], a[1]
        if not isinstance(base, Int) or not isinstance(exp, Int):
            raise Unsupported('pow on %r' % (base,))
        if exp.sym:
            e = m.ctx.concretize(exp)
            exp = Int(exp.ty, e)
        acc = Int(base.ty, 1)
        for _ in range(exp.v):
            t = m.binop('MulWithOverflow', acc, base)
            ov = t.fields[1]
            if is_sym(ov):
                ov = m.ctx.branch(ov)
            if ov:
                raise Panic('attempt to multiply with overflow')
            acc = t.fields[0]
        return acc

    @reg('wrapping_neg')
    def _wrapping_neg(m, a, c, rt):
        x = a[0]
        return Int(x.ty, -x.v)

    @reg('bitxor', 'bitand', 'bitor')
    def _bitops(m, a, c, rt):
        x, y = deref(m, a[0]), deref(m, a[1])
        if isinstance(x, Int):
            return m.binop({'bitxor': 'BitXor', 'bitand': 'BitAnd', 'bitor': 'BitOr'}[c.method], x, y)
        fn = m.resolve_local(c, a)
        if fn is not None:
            return m.run_body(fn, a)
        raise Unsupported('%s on %r' % (c.method, x))


# =============================================================================
# ordered / hashed sets and maps (BTreeSet, BTreeMap, HashSet)

class TreeObj:
    """BTreeSet / BTreeMap / HashSet: list of (key, Cell(value) | None), kept sorted for the BTree variants."""

    def __init__(self, kind):
        self.kind = kind              # 'btreeset' | 'btreemap' | 'hashset'
        self.entries = []
        self.rust_type = {'btreeset': 'BTreeSet', 'btreemap': 'BTreeMap', 'hashset': 'HashSet'}[kind]

    def clone(self, m):
        t = TreeObj(self.kind)
        t.entries = [(clone_val(k), Cell(clone_val(c.v)) if c is not None else None) for k, c in self.entries]
        return t


def tree_insert(m, t, key, value=None):
    for i, (k, c) in enumerate(t.entries):
        if m.ctx.branch(m.values_eq(m, k, key)):
            if t.kind == 'btreemap':
                old = c.v
                c.v = value
                return some(old)
            return False
        if t.kind != 'hashset' and m.ctx.branch(m.value_lt(m, key, k)):
            t.entries.insert(i, (key, Cell(value) if t.kind == 'btreemap' else None))
            return none() if t.kind == 'btreemap' else True
    t.entries.append((key, Cell(value) if t.kind == 'btreemap' else None))
    return none() if t.kind == 'btreemap' else True


def tree_order(m, t):
    n = len(t.entries)
    if t.kind != 'hashset' or n <= 1:
        return list(range(n))
    h = HashMapObj()
    h.entries = [[k, c] for k, c in t.entries]
    return hashmap_order(m, h)


def install3(m):
    L = m.lib
    L['BTreeSet::new'] = lambda m, a, c, rt: TreeObj('btreeset')
    L['BTreeMap::new'] = lambda m, a, c, rt: TreeObj('btreemap')
    L['HashSet::new'] = lambda m, a, c, rt: TreeObj('hashset')
    L['HashSet::with_capacity'] = L['HashSet::new']
    L['default:BTreeSet'] = lambda m: TreeObj('btreeset')
    L['default:BTreeMap'] = lambda m: TreeObj('btreemap')
    L['default:HashSet'] = lambda m: TreeObj('hashset')

    old_insert = L['insert']

    def insert(m, a, c, rt):
        t = deref(m, a[0])
        if isinstance(t, TreeObj):
            return tree_insert(m, t, a[1], a[2] if len(a) > 2 else None)
        return old_insert(m, a, c, rt)
    for k in ('insert', 'HashMap::insert', 'BTreeSet::insert', 'BTreeMap::insert', 'HashSet::insert'):
        L[k] = insert

    def wrap(name, tree_fn):
        old = L.get(name)

        def h(m, a, c, rt):
            t = a[0]
            tt = deref(m, t) if isinstance(t, Ptr) and t.meta is None else t
            if isinstance(tt, TreeObj):
                return tree_fn(m, tt, a, c, rt)
            if old is None:
                raise Unsupported('no summary for %s' % c.raw)
            return old(m, a, c, rt)
        L[name] = h

    def t_iter(m, t, a, c, rt):
        order = tree_order(m, t)
        by_value = not isinstance(a[0], Ptr)
        items = []
        for i in order:
            k, cc = t.entries[i]
            if t.kind == 'btreemap':
                items.append(Tuple([k, cc.v]) if by_value else Tuple([Ptr(Cell(k), ()), Ptr(cc, ())]))
            else:
                items.append(k if by_value else Ptr(Cell(k), ()))
        return ListIter(items)
    wrap('iter', t_iter)
    wrap('into_iter', t_iter)

    def t_len(m, t, a, c, rt):
        return usize(len(t.entries))
    wrap('len', t_len)
    wrap('is_empty', lambda m, t, a, c, rt: len(t.entries) == 0)

    def t_contains(m, t, a, c, rt):
        for k, cc in t.entries:
            if m.ctx.branch(m.values_eq(m, k, a[1])):
                return True
        return False
    wrap('contains', t_contains)
    wrap('contains_key', t_contains)

    def t_get(m, t, a, c, rt):
        for k, cc in t.entries:
            if m.ctx.branch(m.values_eq(m, k, a[1])):
                return some(Ptr(cc, ()) if cc is not None else Ptr(Cell(k), ()))
        return none()
    wrap('get', t_get)

    def t_keys(m, t, a, c, rt):
        return ListIter([Ptr(Cell(t.entries[i][0]), ()) for i in tree_order(m, t)])
    wrap('keys', t_keys)
    wrap('values', lambda m, t, a, c, rt: ListIter([Ptr(t.entries[i][1], ()) for i in tree_order(m, t)]))

    def t_remove(m, t, a, c, rt):
        for i, (k, cc) in enumerate(t.entries):
            if m.ctx.branch(m.values_eq(m, k, a[1])):
                del t.entries[i]
                return some(cc.v) if t.kind == 'btreemap' else True
        return none() if t.kind == 'btreemap' else False
    wrap('remove', t_remove)

    old_collect = L['collect']

    def collect(m, a, c, rt):
        tb = type_base(rt or c.generics or 'Vec')
        if tb in ('BTreeSet', 'BTreeMap', 'HashSet'):
            t = TreeObj(tb.lower())
            for x in drain_iter(m, to_iter(m, a[0])):
                if tb == 'BTreeMap':
                    tree_insert(m, t, x.fields[0], x.fields[1])
                else:
                    tree_insert(m, t, x)
            return t
        return old_collect(m, a, c, rt)
    L['collect'] = collect

    old_extend = L['extend']

    def extend(m, a, c, rt):
        t = deref(m, a[0])
        if isinstance(t, TreeObj):
            for x in drain_iter(m, to_iter(m, a[1])):
                if t.kind == 'btreemap':
                    tree_insert(m, t, x.fields[0], x.fields[1])
                else:
                    tree_insert(m, t, x)
            return unit()
        return old_extend(m, a, c, rt)
    L['extend'] = extend


# =============================================================================
# thread locals, RefCell, windows

class OnceObj:
    """std::sync::OnceLock / std::cell::OnceCell: empty or holding one value (interior mutability)."""
    rust_type = 'OnceLock'

    def __init__(self, value=None, filled=False):
        self.value, self.filled = value, filled

    def clone(self, m):
        return OnceObj(self.value, self.filled)


class RefCellObj:
    rust_type = 'RefCell'

    def __init__(self, v):
        self.cell = Cell(v)

    def clone(self, m):
        return RefCellObj(clone_val(self.cell.v))


def install4(m):
    L = m.lib
    L['needs_drop'] = lambda m, a, c, rt: True
    L['LazyStorage::new'] = lambda m, a, c, rt: Opaque('LazyStorage', [None])
    L['EagerStorage::new'] = lambda m, a, c, rt: Opaque('LazyStorage', [a[0] if a else None])

    def get_or_init(m, a, c, rt):
        st = deref(m, a[0])
        if st.data[0] is None:
            st.data[0] = Cell(m.call_value(a[2], []))
        return Ptr(st.data[0], (), None, True)
    L['LazyStorage::get_or_init'] = get_or_init
    L['get_or_init'] = get_or_init
    L['LocalKey::new'] = lambda m, a, c, rt: Adt('LocalKey', None, [a[0]])

    def local_with(m, a, c, rt):
        key = deref(m, a[0])
        p = m.call_value(key.fields[0], [none()])
        return m.call_value(a[1], [p])
    L['LocalKey::with'] = local_with
    L['LocalKey::try_with'] = lambda m, a, c, rt: ok(local_with(m, a, c, rt))

    L['RefCell::new'] = lambda m, a, c, rt: RefCellObj(a[0])
    L['Cell::new'] = lambda m, a, c, rt: RefCellObj(a[0])

    def borrow(m, a, c, rt):
        rc = deref(m, a[0])
        if isinstance(rc, RefCellObj):
            return Adt('RefMut', None, [Ptr(rc.cell, (), None, True)])
        raise Unsupported('borrow on %r' % (rc,))
    L['RefCell::borrow_mut'] = borrow
    L['RefCell::borrow'] = borrow
    L['borrow_mut'] = borrow
    L['RefCell::replace'] = lambda m, a, c, rt: _swapcell(deref(m, a[0]), a[1])
    L['Cell::set'] = lambda m, a, c, rt: (_swapcell(deref(m, a[0]), a[1]), unit())[1]
    L['Cell::get'] = lambda m, a, c, rt: copy_val(deref(m, a[0]).cell.v)
    L['RefCell::into_inner'] = lambda m, a, c, rt: a[0].cell.v

    old_deref = L['deref']

    def deref2(m, a, c, rt):
        v = a[0]
        t = v
        while isinstance(t, Ptr) and t.meta is None:
            t = m.load(t)
        if isinstance(t, Adt) and t.name == 'RefMut':
            return t.fields[0]
        return old_deref(m, a, c, rt)
    for k in ('deref', 'deref_mut'):
        L[k] = deref2

    def windows(m, a, c, rt):
        p = a[0] if (isinstance(a[0], Ptr) and a[0].meta is not None) else fat(m, a[0], 'slice')
        n = a[1].v
        if n == 0:
            raise Panic('window size must be non-zero')
        ln = p.meta[2]
        return ListIter([sub(p, i, n) for i in range(0, max(ln - n + 1, 0))])
    L['windows'] = windows

    def chunks(m, a, c, rt):
        p = a[0] if (isinstance(a[0], Ptr) and a[0].meta is not None) else fat(m, a[0], 'slice')
        n = a[1].v
        if n == 0:
            raise Panic('chunk size must be non-zero')
        ln = p.meta[2]
        return ListIter([sub(p, i, min(n, ln - i)) for i in range(0, ln, n)])
    L['chunks'] = chunks


def _swapcell(rc, v):
    old = rc.cell.v
    rc.cell.v = v
    return old
