"""Shared harness for pipeline-level properties: request construction, provider scripts, the
entry point `sigv4_validate_request` under MIRSE, and an independent SigV4 reference signer."""
import hashlib
import hmac as pyhmac
import json

import z3

from .common import *
from . import refmodel as R
from mirse import model_http as H
from mirse import model_async as A
from mirse import model_chrono as C
from mirse.model_hash import oracle_of, pad_key
from mirse.model_misc import hex_encode_elems

ENTRY = 'sigv4_validate_request'
AWS_SECRET = 'wJalrXUtnFEMI/K7MDENG+bPxRfiCYEXAMPLEKEY'
T0 = 1440938160          # 2015-08-30T12:36:00Z


class Req:
    def __init__(self, method='GET', path=b'/', query=None, headers=(), body=b'', body_kind='bytes', version='HTTP/1.1', authority_form=None):
        # authority_form: the request target is an authority ("example.com:443", as with CONNECT): no path, no query
        self.authority_form = authority_form
        self.method = method
        self.path = conc_bytes(path) if isinstance(path, (bytes, str)) else list(path)
        self.query = None if query is None else (conc_bytes(query) if isinstance(query, (bytes, str)) else list(query))
        self.headers = [(n, conc_bytes(v) if isinstance(v, (bytes, str)) else list(v)) for n, v in headers]
        self.body = conc_bytes(body) if isinstance(body, (bytes, str)) else list(body)
        self.body_kind = body_kind
        self.version = version

    def build(self):
        hm = H.HeaderMap()
        for n, v in self.headers:
            hm.append(n, v)
        self.ext = Opaque('Extensions', 'ext-token')
        self.hm = hm
        uri = H.Uri(self.path, self.query) if not self.authority_form else H.Uri([], None, self.authority_form.encode(), True)
        parts = H.mk_parts(H.Method(self.method), uri, hm, self.version, self.ext)
        if self.body_kind == 'unit':
            body = unit()
        else:
            body = VecObj(list(self.body), self.body_kind if self.body_kind in ('bytes', 'vec') else 'bytes')
        return H.Request(parts, body)

    def to_json(self, model=None):
        def b(es):
            if model is not None:
                return model_bytes(model, es)
            return bytes((e.v if not e.sym else z3.simplify(e.v).as_long()) for e in es)
        uri = b(self.path).decode('latin-1')
        if self.query is not None:
            uri += '?' + b(self.query).decode('latin-1')
        if self.authority_form:
            uri = self.authority_form
        return {'method': self.method, 'uri': uri, 'version': self.version,
                'headers': [[n, b(v).hex()] for n, v in self.headers], 'body_hex': b(self.body).hex(),
                'body_kind': self.body_kind}


def options(s3=False, fold=False):
    return Adt('SignatureOptions', None, [s3, fold], ['s3', 'url_encode_form'])


def cow(s):
    return Adt('Cow', 'Borrowed', [str_ptr(s)]) if isinstance(s, (str, bytes)) else Adt('Cow', 'Borrowed', [mk_str(s)])


def cow_slice(items):
    arr = Array([cow(x) for x in items])
    return Ptr(Cell(arr), (), ('slice', 0, len(items)))


def requirements(kind='none', always=(), if_in=(), prefixes=()):
    if kind == 'none':
        return Adt('SliceSignedHeaderRequirements', None, [cow_slice([]), cow_slice([]), cow_slice([])],
                   ['always_present', 'if_in_request', 'prefixes'])
    if kind == 'slice':
        return Adt('SliceSignedHeaderRequirements', None, [cow_slice(always), cow_slice(if_in), cow_slice(prefixes)],
                   ['always_present', 'if_in_request', 'prefixes'])
    if kind == 'vec':
        def ov(items):
            return VecObj([Adt('Cow', 'Owned', [mk_string(x) if isinstance(x, (str, bytes)) else VecObj(list(x), 'string')]) for x in items])
        return Adt('VecSignedHeaderRequirements', None, [ov(always), ov(if_in), ov(prefixes)],
                   ['always_present', 'if_in_request', 'prefixes'])
    raise ValueError(kind)


def requirements_json(kind='none', always=(), if_in=(), prefixes=()):
    if kind == 'none':
        return {'kind': 'none'}
    return {'kind': kind, 'always': list(always), 'if_in': list(if_in), 'prefixes': list(prefixes)}


PRINCIPAL = Opaque('Principal', 'principal-token')
SESSION = Opaque('SessionData', 'session-token')


def key_response(key_bytes):
    return Adt('GetSigningKeyResponse', None, [PRINCIPAL, SESSION, Adt('KSigningKey', None, [Array(list(key_bytes))], ['key'])],
               ['principal', 'session_data', 'signing_key'])


def provider_ok(key_bytes, **kw):
    return A.Provider(lambda m, req: ok(key_response(key_bytes)), **kw)


def sig_error(kind, msg='m'):
    if kind == 'SignatureDoesNotMatch':
        return Adt('SignatureError', kind, [some(mk_string(msg))])
    return Adt('SignatureError', kind, [mk_string(msg)])


def provider_err(kind=None, foreign=None, **kw):
    if kind is not None:
        e = BoxObj(sig_error(kind), dyn='SignatureError')
    else:
        e = BoxObj(Opaque('foreign_error', foreign or 'boom'), dyn='StringError')
    return A.Provider(lambda m, req: err(e), **kw)


def instant(secs, nanos=0):
    """Concrete instant with civil fields."""
    import datetime
    days, sod = divmod(secs, 86400)
    d = datetime.date(1970, 1, 1) + datetime.timedelta(days=days)
    return C.from_civil(d.year, d.month, d.day, sod // 3600, sod % 3600 // 60, sod % 60, nanos, 0)


def run(m, req, region, service, provider, server_dt, reqs=None, opts=None):
    """Execute the real entry point; returns (Result value, number of polls)."""
    request = req.build() if isinstance(req, Req) else req
    reqs = reqs if reqs is not None else requirements('none')
    opts = opts if opts is not None else options()
    reg = mk_str(region) if not isinstance(region, (str, bytes)) else str_ptr(region)
    svc = mk_str(service) if not isinstance(service, (str, bytes)) else str_ptr(service)
    fut = m.call(ENTRY, [request, reg, svc, Ptr(Cell(provider), (), None, True), server_dt, Ptr(Cell(reqs), ()), opts], None)
    return A.block_on(m, fut)


def outcome(res):
    """('ok', (parts, body, response)) | ('err', kind, error value)"""
    if res.variant == 'Ok':
        return ('ok', res.fields[0].fields)
    e = res.fields[0]
    if isinstance(e, BoxObj):
        inner = e.cell.v
        if isinstance(inner, Adt) and inner.name == 'SignatureError':
            return ('err', inner.variant, inner)
        return ('err', 'foreign', inner)
    if isinstance(e, Adt):
        return ('err', e.variant, e)
    return ('err', 'unknown', e)


def request_record(m, req_value):
    """(access_key, token, date, region, service) of a GetSigningKeyRequest value."""
    f = req_value.fields
    return {'access_key': f[0], 'session_token': f[1], 'request_date': f[2], 'region': f[3], 'service': f[4]}


# --------------------------------------------------------------------------- reference signer (symbolic, via the oracle)

def compact_ts(civil):
    y, mo, d, h, mi, s = civil
    dg = C.digits
    return dg(y, 4) + dg(mo, 2) + dg(d, 2) + conc_bytes('T') + dg(h, 2) + dg(mi, 2) + dg(s, 2) + conc_bytes('Z')


def date8(civil):
    y, mo, d = civil[:3]
    return C.digits(y, 4) + C.digits(mo, 2) + C.digits(d, 2)


def ref_canonical_request(ctx, method, canon_path, canon_query, headers, signed, body_hash_hex):
    """headers: [(lower-case name, value elems)] in arrival order; signed: sorted list of names."""
    out = conc_bytes(method) + conc_bytes('\n') + list(canon_path) + conc_bytes('\n') + list(canon_query) + conc_bytes('\n')
    for n in signed:
        vs = [v for nm, v in headers if nm == n]
        if not vs:
            continue
        out += conc_bytes(n + ':')
        for k, v in enumerate(vs):
            if k:
                out += conc_bytes(',')
            out += R.ref_header_value(ctx, v)
        out += conc_bytes('\n')
    out += conc_bytes('\n' + ';'.join(signed) + '\n') + list(body_hash_hex)
    return out


def ref_string_to_sign(ts16, scope, creq_hash_hex):
    return conc_bytes('AWS4-HMAC-SHA256\n') + list(ts16) + conc_bytes('\n') + list(scope) + conc_bytes('\n') + list(creq_hash_hex)


def ref_sign(m, key, ctx, method, canon_path, canon_query, headers, signed, body, ts16, scope):
    """Reference signature (64 hex chars as Ints) through the same ideal-hash oracle."""
    o = oracle_of(m)
    bh = o.digest(m, 'sha256', None, list(body)).out
    creq = ref_canonical_request(ctx, method, canon_path, canon_query, headers, signed, hex_encode_elems(bh))
    ch = o.digest(m, 'sha256', None, creq).out
    sts = ref_string_to_sign(ts16, scope, hex_encode_elems(ch))
    sig = o.digest(m, 'hmac', list(key), sts).out
    return hex_encode_elems(sig), creq, sts


def auth_header(credential, signed, signature):
    """Authorization header value (elems) in the usual spelling."""
    return (conc_bytes('AWS4-HMAC-SHA256 Credential=') + list(credential) + conc_bytes(', SignedHeaders=' + ';'.join(signed) + ', Signature=')
            + list(signature))


# --------------------------------------------------------------------------- concrete reference signer (real hashes) for replay

def py_sign(secret_or_key, method, canon_path, canon_query, headers, signed, body, ts16, scope, is_key=False):
    def h(k, msg):
        return pyhmac.new(k, msg, hashlib.sha256).digest()
    if is_key:
        key = secret_or_key
    else:
        date, region, service, _ = scope.split('/')
        key = h(h(h(h(b'AWS4' + secret_or_key.encode(), date.encode()), region.encode()), service.encode()), b'aws4_request')
    ctx = RefCtx()
    creq = method.encode() + b'\n' + canon_path + b'\n' + canon_query + b'\n'
    for n in signed:
        vs = [v for nm, v in headers if nm == n]
        if not vs:
            continue
        creq += n.encode() + b':' + b','.join(bytes(e.v for e in R.ref_header_value(ctx, conc_bytes(v))) for v in vs) + b'\n'
    creq += b'\n' + ';'.join(signed).encode() + b'\n' + hashlib.sha256(body).hexdigest().encode()
    sts = b'AWS4-HMAC-SHA256\n' + ts16.encode() + b'\n' + scope.encode() + b'\n' + hashlib.sha256(creq).hexdigest().encode()
    return h(key, sts).hex(), creq, sts


def native_validate(rp, req_json, region, service, server_secs, provider=None, reqs=None, opts=None, log_level='off', server_nanos=0):
    cmd = {'op': 'validate', 'request': req_json, 'region': region, 'service': service,
           'server_time': {'secs': server_secs, 'nanos': server_nanos},
           'requirements': reqs or {'kind': 'none'}, 'options': opts or {'s3': False, 'url_encode_form': False},
           'provider': provider or {'result': {'secret': AWS_SECRET}}, 'log_level': log_level}
    return rp.ask(cmd)


def assume_collision_free(m, ctx):
    """Collision resistance of the ideal hash (a stated assumption of the forgery / selection properties): distinct
    inputs give distinct outputs, asserted for every pair of recorded oracle calls."""
    o = oracle_of(m)
    for i, ci in enumerate(o.calls):
        for cj in o.calls[:i]:
            if ci.kind != cj.kind:
                continue
            if len(ci.msg) != len(cj.msg):
                ctx.assume(z3.Not(zb(bytes_eq(ci.out, cj.out))))
                continue
            same_in = zb(bytes_eq(ci.msg, cj.msg))
            if ci.kind == 'hmac':
                same_in = z3.And(same_in, zb(bytes_eq(pad_key(ci.key), pad_key(cj.key))))
            ctx.assume(z3.Implies(zb(bytes_eq(ci.out, cj.out)), same_in))
