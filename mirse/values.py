"""Value model of MIRSE.

Scalars carry their Rust type; `v` is a Python int (concrete) or a z3 bit-vector
(symbolic).  Booleans are Python bools or z3 BoolRefs.  Aggregates are mutable Python
objects so that pointers (`Ptr`) into them see in-place updates.
"""
import z3

BITS = {'u8': 8, 'u16': 16, 'u32': 32, 'u64': 64, 'u128': 128, 'usize': 64,
        'i8': 8, 'i16': 16, 'i32': 32, 'i64': 64, 'i128': 128, 'isize': 64, 'char': 32}
SIGNED = {'i8', 'i16', 'i32', 'i64', 'i128', 'isize'}


class Unsupported(Exception):
    """Construct outside what the engine models: the run is inconclusive (exit 2)."""


class Panic(Exception):
    """The program under test panicked on this path."""

    def __init__(self, msg, where=''):
        Exception.__init__(self, msg)
        self.msg = msg
        self.where = where


def is_sym(x):
    return isinstance(x, z3.ExprRef)


def wrap(ty, v):
    b = BITS[ty]
    v &= (1 << b) - 1
    if ty in SIGNED and v >> (b - 1):
        v -= 1 << b
    return v


class Int:
    __slots__ = ('ty', 'v')

    def __init__(self, ty, v):
        self.ty = ty
        if isinstance(v, int):
            v = wrap(ty, v)
        elif z3.is_bv_value(v):
            v = wrap(ty, v.as_long())
        self.v = v

    @property
    def sym(self):
        return not isinstance(self.v, int)

    def z(self):
        """z3 bit-vector for this value."""
        if isinstance(self.v, int):
            return z3.BitVecVal(self.v, BITS[self.ty])
        return self.v

    def __repr__(self):
        if isinstance(self.v, int):
            return '%d_%s' % (self.v, self.ty)
        return '<%s:%s>' % (self.ty, self.v)


def u8(v):
    return Int('u8', v)


def usize(v):
    return Int('usize', v)


class Tuple:
    __slots__ = ('fields',)

    def __init__(self, fields):
        self.fields = list(fields)

    def __repr__(self):
        return '(%s)' % ', '.join(map(repr, self.fields))


def unit():
    return Tuple([])


class Array:
    __slots__ = ('elems',)

    def __init__(self, elems):
        self.elems = list(elems)

    def __repr__(self):
        return 'Array%r' % (self.elems,)


class Adt:
    """Struct or enum value. `variant` is None for structs."""
    __slots__ = ('name', 'variant', 'fields', 'fnames')

    def __init__(self, name, variant, fields, fnames=None):
        self.name = name
        self.variant = variant
        self.fields = list(fields)
        self.fnames = fnames

    def __repr__(self):
        v = '::' + self.variant if self.variant else ''
        return '%s%s%r' % (self.name, v, self.fields)


class Closure:
    __slots__ = ('path', 'fields')

    def __init__(self, path, fields):
        self.path = path
        self.fields = list(fields)

    def __repr__(self):
        return 'Closure(%s)' % self.path


class Coroutine:
    """State machine object of an `async fn` / async block after the coroutine transform."""
    __slots__ = ('fn', 'fields', 'state', 'saved')

    def __init__(self, fn, fields):
        self.fn = fn              # the poll body (Fn)
        self.fields = list(fields)  # upvars
        self.state = 0
        self.saved = {}           # (variant, idx) -> value

    def __repr__(self):
        return 'Coroutine(%s, state=%s)' % (self.fn.name, self.state)


class FnItem:
    """A function used as a value (fn item / fn pointer)."""
    __slots__ = ('path',)

    def __init__(self, path):
        self.path = path

    def __repr__(self):
        return 'FnItem(%s)' % self.path


class Cell:
    __slots__ = ('v',)

    def __init__(self, v=None):
        self.v = v


class Buf:
    """Immutable constant buffer (string / byte-string literal)."""
    __slots__ = ('elems',)

    def __init__(self, data):
        self.elems = [Int('u8', b) for b in data]


class Ptr:
    """Reference / pointer: root object + path of steps + optional fat-pointer metadata.

    root: Cell (a local / heap cell: pointee is root.v) or a heap object itself.
    path steps: ('f', i) field, ('v', name) downcast, ('i', k) element.
    meta: None | ('slice', start, len) | ('str', start, len)   (start/len concrete)
    """
    __slots__ = ('root', 'path', 'meta', 'mut')

    def __init__(self, root, path=(), meta=None, mut=False):
        self.root = root
        self.path = path
        self.meta = meta
        self.mut = mut

    def step(self, s):
        return Ptr(self.root, self.path + (s,), None, self.mut)

    def __repr__(self):
        return 'Ptr(%s%s%s)' % (type(self.root).__name__, list(self.path), self.meta or '')


class VecObj:
    """Vec<T> / String / bytes::Bytes: concrete length, symbolic elements."""
    __slots__ = ('elems', 'kind')

    def __init__(self, elems, kind='vec'):
        self.elems = list(elems)
        self.kind = kind

    def __repr__(self):
        if self.kind in ('string', 'bytes'):
            try:
                return '%s(%r)' % (self.kind, bytes(e.v for e in self.elems))
            except Exception:
                return '%s<%d sym>' % (self.kind, len(self.elems))
        return 'Vec%r' % (self.elems,)


class BoxObj:
    __slots__ = ('cell', 'dyn')

    def __init__(self, v, dyn=None):
        self.cell = Cell(v)
        self.dyn = dyn

    def __repr__(self):
        return 'Box(%r)' % (self.cell.v,)


class HashMapObj:
    __slots__ = ('entries',)

    def __init__(self):
        self.entries = []         # list of [key, Cell(value)] in insertion order

    def __repr__(self):
        return 'HashMap%r' % ([(k, c.v) for k, c in self.entries],)


class Opaque:
    """Library value the model does not look into (identity + payload)."""
    __slots__ = ('kind', 'data')

    def __init__(self, kind, data=None):
        self.kind = kind
        self.data = data

    def __repr__(self):
        return 'Opaque(%s,%r)' % (self.kind, self.data)


# -------- helpers for Option / Result and friends

def some(x):
    return Adt('Option', 'Some', [x])


def none():
    return Adt('Option', 'None', [])


def ok(x):
    return Adt('Result', 'Ok', [x])


def err(e):
    return Adt('Result', 'Err', [e])


def copy_val(v):
    """Value copy for `copy`/`move` of aggregates (heap objects keep identity)."""
    if isinstance(v, Tuple):
        return Tuple([copy_val(f) for f in v.fields])
    if isinstance(v, Array):
        return Array([copy_val(f) for f in v.elems])
    if isinstance(v, Adt):
        return Adt(v.name, v.variant, [copy_val(f) for f in v.fields], v.fnames)
    if isinstance(v, Closure):
        return Closure(v.path, [copy_val(f) for f in v.fields])
    return v


def clone_val(v):
    """Deep clone (Clone::clone) including heap objects."""
    if isinstance(v, Tuple):
        return Tuple([clone_val(f) for f in v.fields])
    if isinstance(v, Array):
        return Array([clone_val(f) for f in v.elems])
    if isinstance(v, Adt):
        return Adt(v.name, v.variant, [clone_val(f) for f in v.fields], v.fnames)
    if isinstance(v, VecObj):
        return VecObj([clone_val(e) for e in v.elems], v.kind)
    if isinstance(v, BoxObj):
        return BoxObj(clone_val(v.cell.v), v.dyn)
    if isinstance(v, HashMapObj):
        h = HashMapObj()
        h.entries = [[clone_val(k), Cell(clone_val(c.v))] for k, c in v.entries]
        return h
    if isinstance(v, Closure):
        return Closure(v.path, [clone_val(f) for f in v.fields])
    return v


def mk_string(data):
    if isinstance(data, str):
        data = data.encode('utf-8')
    return VecObj([Int('u8', b) for b in data], 'string')


def str_ptr(data):
    if isinstance(data, str):
        data = data.encode('utf-8')
    return Ptr(Buf(data), (), ('str', 0, len(data)))


def slice_ptr(data):
    return Ptr(Buf(data), (), ('slice', 0, len(data)))
