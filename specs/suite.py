"""Translator validation with the repository's own test inputs: every vector of the AWS SigV4 test suite shipped in
/repo/src/aws-sig-v4-test-suite is pushed through (a) the real entry point under MIRSE with concrete inputs and real
digests, (b) the natively compiled crate, and compared with the suite's expected canonical request (.creq), string to
sign (.sts) and with each other.  A disagreement MIRSE/native is an engine or model defect (INCONCLUSIVE); agreement of
both against the suite's expectation would be a concrete counterexample to completeness (C02)."""
import glob
import hashlib
import hmac as pyhmac
import os

from .pipeline import *
from mirse import engine

SUITE = os.path.join(engine.REPO, 'src', 'aws-sig-v4-test-suite')
SUITE_T = 1440938160   # 2015-08-30T12:36:00Z
# vectors the http crate cannot represent (the crate's own aws4.rs leaves them out for the same reason)
UNREPRESENTABLE = {'get-header-value-multiline', 'get-utf8', 'get-vanilla-utf8-query', 'get-space'}
# the vector's .sreq lacks the content-type header its SignedHeaders list names (aws4.rs disables it with that remark)
BROKEN_VECTOR = {'post-x-www-form-urlencoded'}


def _h(k, msg):
    return pyhmac.new(k, msg, hashlib.sha256).digest()


def suite_key():
    k = b'AWS4' + AWS_SECRET.encode()
    for part in (b'20150830', b'us-east-1', b'service', b'aws4_request'):
        k = _h(k, part)
    return k


def parse_sreq(data):
    head, sep, body = data.partition(b'\n\n')
    lines = head.split(b'\n')
    first = lines[0]
    method, _, rest = first.partition(b' ')
    target, _, version = rest.rpartition(b' ')
    headers = []
    for ln in lines[1:]:
        if ln[:1] in (b' ', b'\t'):
            return None
        n, _, v = ln.partition(b':')
        headers.append([n.decode('latin-1').lower(), v])
    return {'method': method.decode(), 'target': target, 'version': version.decode(), 'headers': headers, 'body': body}


def vectors():
    out = []
    for f in sorted(glob.glob(SUITE + '/**/*.sreq', recursive=True)):
        name = os.path.basename(f)[:-5]
        base = f[:-5]
        data = open(f, 'rb').read().replace(b'\r', b'')
        v = parse_sreq(data)
        exp = {}
        for ext in ('creq', 'sts'):
            exp[ext] = open(base + '.' + ext, 'rb').read().replace(b'\r', b'') if os.path.exists(base + '.' + ext) else None
        out.append((name, v, exp))
    return out


def to_json(v):
    return {'method': v['method'], 'uri': v['target'].decode('latin-1'), 'version': v['version'],
            'headers': [[n, val.hex()] for n, val in v['headers']], 'body_hex': v['body'].hex(), 'body_kind': 'bytes'}


def mirse_vector(prog, v):
    """('ok'|kind|'panic', sha256 inputs, hmac messages) of the concrete run of the real entry point."""
    out = []

    def body(m, ctx):
        path, q, query = v['target'].partition(b'?')
        rq = Req(v['method'], path, query if q else None, [(n, val) for n, val in v['headers']], v['body'], 'bytes', v['version'])
        prov = provider_ok(conc_bytes(suite_key()))
        r, _polls = run(m, rq, 'us-east-1', 'service', prov, instant(SUITE_T), None, options(False, True))
        o = outcome(r)
        calls = oracle_of(m).calls
        def cb(es):
            return bytes(e.v for e in es)
        shas = [cb(c.msg) for c in calls if c.kind == 'sha256']
        macs = [cb(c.msg) for c in calls if c.kind == 'hmac']
        return ('ok' if o[0] == 'ok' else o[1]), shas, macs
    engine.explore(prog, body, out.append)
    pr = out[0]
    if pr.kind == 'panic':
        return 'panic: %s' % getattr(pr.value, 'msg', pr.value), [], []
    return pr.value


def run_suite(prog, rp):
    """-> (number of vectors run, skipped names, mismatches MIRSE/native (engine trouble), failures against the suite's
    expectations confirmed by both (property trouble))."""
    n, skipped, mism, fails = 0, [], [], []
    for name, v, exp in vectors():
        if v is None or name in UNREPRESENTABLE or name in BROKEN_VECTOR:
            skipped.append(name)
            continue
        j = to_json(v)
        nat = native_validate(rp, j, 'us-east-1', 'service', SUITE_T, provider={'result': {'secret': AWS_SECRET}},
                              opts={'s3': False, 'url_encode_form': True})
        if 'bad_input' in nat:
            skipped.append(name)
            continue
        n += 1
        res = nat.get('result', {})
        nat_out = 'ok' if 'ok' in res else res.get('err', {}).get('kind', 'panic')
        mine, shas, macs = mirse_vector(prog, v)
        if mine != nat_out:
            mism.append({'vector': name, 'mirse': mine, 'native': nat_out})
            continue
        if mine != 'ok':
            fails.append({'vector': name, 'what': 'suite request refused by MIRSE and natively', 'outcome': mine, 'request': j})
            continue
        if exp['creq'] is not None and exp['creq'] not in shas:
            mism.append({'vector': name, 'what': 'canonical request hashed under MIRSE differs from .creq although the native crate accepts',
                         'mirse_sha256_inputs': [s.decode('latin-1')[:300] for s in shas]})
        if exp['sts'] is not None and exp['sts'] not in macs:
            mism.append({'vector': name, 'what': 'string to sign under MIRSE differs from .sts', 'mirse_hmac_messages': [s.decode('latin-1')[:200] for s in macs]})
    return n, skipped, mism, fails
