"""C06 — signing-key derivation equals the SigV4 HMAC chain for all inputs.

Decided by (a) Kani harnesses K1 on the compiled `KSecretKey::<M>::from_str` (every length
0..M+2, M in {44, 8, 5, 4, 3, 0}); (b) MIRSE on the MIR of `from_str`, `as_ref`, `to_kdate` ..
`to_ksigning` and every shortcut with the ideal-hash oracle: the recorded HMAC calls must be
H(pad("AWS4"+secret), YYYYMMDD) -> H(., region) -> H(., service) -> H(., "aws4_request") and all
shortcuts must return byte-equal keys (z3 validity per path).
"""
import itertools
import json
import random
import sys

import z3

from .common import *
from mirse import engine
from mirse import model_chrono as C
from mirse.model_hash import pad_key
from . import kani_util

PROP = 'C06'
CAPACITIES = [44, 8, 5, 4, 3, 0]


def shapes(tier, seed):
    out = []
    for M in CAPACITIES:
        for n in range(0, M + 3):
            out.append(('from_str', M, n, False))
    out.append(('from_str', 44, 3, True))
    out.append(('from_str', 44, 41, True))
    # derivation: (secret_len, region_len, service_len, region_utf8)
    lens = [0, 1, 5, 39, 40] if tier == 'quick' else list(range(0, 41))
    rs = [(0, 0), (1, 1), (4, 2)] if tier == 'quick' else [(0, 0), (0, 3), (1, 1), (3, 0), (4, 4), (2, 4)]
    for L in lens:
        for r, s in rs:
            out.append(('derive', L, r, s, False))
    out.append(('derive', 7, 2, 2, True))
    return out


def ascii_bytes(ctx, name, n):
    es = sym_bytes(ctx, name, n)
    for e in es:
        ctx.assume(z3.ULT(e.v, 0x80))
    return es


def utf8_str(ctx, name, n, multibyte):
    """n bytes of valid UTF-8: ASCII, or (multibyte) starting with one 2-byte scalar."""
    if not multibyte or n < 2:
        return ascii_bytes(ctx, name, n)
    b0 = ctx.fresh_bv(name + 'u0', 8)
    b1 = ctx.fresh_bv(name + 'u1', 8)
    ctx.assume(z3.And(z3.UGE(b0, 0xC2), z3.ULE(b0, 0xDF), z3.UGE(b1, 0x80), z3.ULE(b1, 0xBF)))
    return [Int('u8', b0), Int('u8', b1)] + ascii_bytes(ctx, name, n - 2)


def ref_digits(v, n):
    """Independent decimal rendering of a 32-bit BV < 10^n."""
    out = []
    for k in range(n - 1, -1, -1):
        dgt = z3.URem(z3.UDiv(v, z3.BitVecVal(10 ** k, 32)), z3.BitVecVal(10, 32))
        out.append(Int('u8', z3.simplify(z3.Extract(7, 0, dgt) + 48)))
    return out


def sym_date(ctx, m=None):
    y = ctx.fresh_bv('y', 32)
    mo = ctx.fresh_bv('mo', 32)
    d = ctx.fresh_bv('d', 32)
    ctx.assume(z3.And(y >= 1, y <= 9999, C.valid_ymd(y, mo, d)))
    return C.NaiveDate(y, mo, d), (y, mo, d)


def key_bytes(k):
    """[u8; 32] of a K*Key struct value."""
    return k.fields[0].elems


def run_shape(prog, shape, tier, seed, res):
    kind = shape[0]

    def body(m, ctx):
        if kind == 'from_str':
            _, M, n, mb = shape
            m.x_generics = {'M': Int('usize', M)}
            es = utf8_str(ctx, 's', n, mb)
            r = m.call('<KSecretKey<M> as FromStr>::from_str', [mk_str(es)], None)
            back = None
            if r.variant == 'Ok' and M == 44:
                p = m.call('<KSecretKey as AsRef<[u8]>>::as_ref', [Ptr(Cell(r.fields[0]), ())], None)
                back = elems_of(m, p)
            return ('from_str', es, r, back)
        _, Ls, Lr, Lv, mb = shape
        m.x_generics = {'M': Int('usize', 44)}
        secret = ascii_bytes(ctx, 'k', Ls)
        region = utf8_str(ctx, 'r', Lr, mb)
        service = utf8_str(ctx, 'v', Lv, False)
        date, (y, mo, d) = sym_date(ctx)
        r = m.call('<KSecretKey<M> as FromStr>::from_str', [mk_str(secret)], None)
        if r.variant != 'Ok':
            return ('derive-noparse', secret, r)
        ks = r.fields[0]
        ksp = Ptr(Cell(ks), ())
        rp_, sp_ = mk_str(region), mk_str(service)
        o = m.x_oracle if hasattr(m, 'x_oracle') else None
        kdate = m.call('KSecretKey::to_kdate', [ksp, date], None)
        kregion = m.call('KDateKey::to_kregion', [Ptr(Cell(kdate), ()), rp_], None)
        kservice = m.call('KRegionKey::to_kservice', [Ptr(Cell(kregion), ()), sp_], None)
        ksigning = m.call('KServiceKey::to_ksigning', [Ptr(Cell(kservice), ())], None)
        chain_calls = list(m.x_oracle.calls)
        shortcuts = {
            'secret.to_kregion': (m.call('KSecretKey::to_kregion', [ksp, date, rp_], None), kregion),
            'secret.to_kservice': (m.call('KSecretKey::to_kservice', [ksp, date, rp_, sp_], None), kservice),
            'secret.to_ksigning': (m.call('KSecretKey::to_ksigning', [ksp, date, rp_, sp_], None), ksigning),
            'kdate.to_kservice': (m.call('KDateKey::to_kservice', [Ptr(Cell(kdate), ()), rp_, sp_], None), kservice),
            'kdate.to_ksigning': (m.call('KDateKey::to_ksigning', [Ptr(Cell(kdate), ()), rp_, sp_], None), ksigning),
            'kregion.to_ksigning': (m.call('KRegionKey::to_ksigning', [Ptr(Cell(kregion), ()), sp_], None), ksigning),
        }
        return ('derive', secret, region, service, (y, mo, d), (kdate, kregion, kservice, ksigning), chain_calls, shortcuts)

    def concretise(ctx, prop, secret, region=None, service=None, ymd=None):
        neg = z3.Not(prop) if not isinstance(prop, bool) else z3.BoolVal(not prop)
        sat, model = ctx.satisfiable(neg)
        if not sat:
            return None
        inp = {'secret': model_bytes(model, secret).decode('latin-1'), 'm': shape[1] if kind == 'from_str' else 44}
        if region is not None:
            inp['region'] = model_bytes(model, region).decode('latin-1')
            inp['service'] = model_bytes(model, service).decode('latin-1')
            inp['date'] = [model.eval(x, model_completion=True).as_long() for x in ymd]
        return inp

    def fail(ctx, what, prop, *a):
        inp = concretise(ctx, prop, *a)
        if inp is not None:
            res.findings.append(Finding(what, inp, None, None, repr(shape)))

    def on_path(pr):
        ctx = pr.ctx
        res.obligations += 1
        if pr.kind == 'panic':
            # secret content is irrelevant for the panic: take any model
            sat, model = ctx.satisfiable()
            n = shape[2] if kind == 'from_str' else shape[1]
            M = shape[1] if kind == 'from_str' else 44
            res.findings.append(Finding('panic: %s' % pr.value.msg, {'secret': 'a' * n, 'm': M}, None, None, repr(shape)))
            return
        v = pr.value
        if v[0] == 'from_str':
            _, es, r, back = v
            M, n = shape[1], shape[2]
            expect_ok = M >= 4 and n <= M - 4
            res.witnesses.add('from_str-' + r.variant)
            if (r.variant == 'Ok') != expect_ok:
                fail(ctx, 'from_str returned %s for a %d-byte secret with capacity %d' % (r.variant, n, M), False, es)
                return
            if r.variant == 'Ok':
                key = r.fields[0]
                ln = key.fields[1]
                if ln.v != n + 4:
                    fail(ctx, 'stored length %r != %d' % (ln, n + 4), False, es)
                if back is not None:
                    if len(back) != len(es):
                        fail(ctx, 'as_ref returns %d bytes for a %d-byte secret' % (len(back), len(es)), False, es)
                    else:
                        prop = zb(bytes_eq(back, es))
                        okv, _ = ctx.valid(prop)
                        if not okv:
                            fail(ctx, 'secret read back differs from the secret put in', prop, es)
            elif r.fields[0].name != 'KeyTooLongError':
                fail(ctx, 'wrong error %r' % (r.fields[0],), False, es)
            return
        if v[0] != 'derive':
            fail(ctx, 'secret of %d bytes refused by capacity-44 key type' % shape[1], False, v[1])
            return
        _, secret, region, service, (y, mo, d), keys, calls, shortcuts = v
        res.witnesses.add('derive')
        args = (secret, region, service, (y, mo, d))
        hm = [c for c in calls if c.kind == 'hmac']
        if len(hm) != 4:
            fail(ctx, 'step-by-step derivation made %d HMAC calls, expected 4' % len(hm), False, *args)
            return
        k0 = conc_bytes(b'AWS4') + secret
        datestr = ref_digits(y, 4) + ref_digits(mo, 2) + ref_digits(d, 2)
        want = [(pad_key(k0), datestr), (pad_key(hm[0].out), region), (pad_key(hm[1].out), service),
                (pad_key(hm[2].out), conc_bytes(b'aws4_request'))]
        obligations = []
        for i, (wk, wm) in enumerate(want):
            gk = pad_key(hm[i].key)
            if gk is None or len(hm[i].msg) != len(wm):
                fail(ctx, 'HMAC call %d has the wrong key/message length' % (i + 1), False, *args)
                return
            obligations.append(bytes_eq(gk, wk))
            obligations.append(bytes_eq(hm[i].msg, wm))
        for i, k in enumerate(keys):
            obligations.append(bytes_eq(key_bytes(k), hm[i].out))
        prop = zb(zand(*obligations))
        okv, _ = ctx.valid(prop)
        if not okv:
            fail(ctx, 'derivation is not the SigV4 HMAC chain (key/message of some step differs)', prop, *args)
            return
        for name, (got, exp) in shortcuts.items():
            p2 = zb(bytes_eq(key_bytes(got), key_bytes(exp)))
            okv, _ = ctx.valid(p2)
            if not okv:
                fail(ctx, 'shortcut %s differs from the step-by-step derivation' % name, p2, *args)
        if len(res.samples) < 1:
            sat, model = ctx.satisfiable()
            res.samples.append({'secret_len': len(secret), 'date': [model.eval(x, model_completion=True).as_long() for x in (y, mo, d)],
                                'region': model_bytes(model, region).decode('latin-1')})

    engine.explore(prog, body, on_path, stats=res.stats)


# --------------------------------------------------------------------------- concrete side

import hashlib
import hmac as pyhmac


def ref_chain(secret, date, region, service):
    def h(k, msg):
        return pyhmac.new(k, msg, hashlib.sha256).digest()
    kd = h(b'AWS4' + secret.encode('utf-8'), ('%04d%02d%02d' % tuple(date)).encode())
    kr = h(kd, region.encode('utf-8'))
    ks = h(kr, service.encode('utf-8'))
    kg = h(ks, b'aws4_request')
    return [x.hex() for x in (kd, kr, ks, kg)]


def mirse_chain(prog, secret, date, region, service):
    out = []

    def body(m, ctx):
        m.x_generics = {'M': Int('usize', 44)}
        r = m.call('<KSecretKey<M> as FromStr>::from_str', [mk_str(conc_bytes(secret))], None)
        ksp = Ptr(Cell(r.fields[0]), ())
        dt = C.NaiveDate(*date)
        kd = m.call('KSecretKey::to_kdate', [ksp, dt], None)
        kr = m.call('KSecretKey::to_kregion', [ksp, dt, mk_str(conc_bytes(region))], None)
        ks = m.call('KDateKey::to_kservice', [Ptr(Cell(kd), ()), mk_str(conc_bytes(region)), mk_str(conc_bytes(service))], None)
        kg = m.call('KSecretKey::to_ksigning', [ksp, dt, mk_str(conc_bytes(region)), mk_str(conc_bytes(service))], None)
        return [bytes(e.v for e in key_bytes(k)).hex() for k in (kd, kr, ks, kg)]
    engine.explore(prog, body, out.append)
    pr = out[0]
    return pr.value if pr.kind == 'ret' else ('panic', pr.value.msg)


def conformance(prog, rp, seed, tier):
    rnd = random.Random(seed)
    cases = [('wJalrXUtnFEMI/K7MDENG+bPxRfiCYEXAMPLEKEY', [2015, 8, 30], 'us-east-1', 'service'),
             ('wJalrXUtnFEMI/K7MDENG+bPxRfiCYEXAMPLEKEY', [2015, 8, 30], 'us-east-1', 'example')]
    for _ in range(10 if tier == 'quick' else 60):
        s = ''.join(rnd.choice('abcXYZ019+/') for _ in range(40))
        cases.append((s, [rnd.randint(1, 9999), rnd.randint(1, 12), rnd.randint(1, 28)],
                      rnd.choice(['', 'eu-west-3', 'é']), rnd.choice(['', 's3', 'iam'])))
    cases.append(('k' * 40, [4, 2, 29], 'r', 's'))
    cases.append(('k' * 40, [2000, 2, 29], 'r', 's'))
    mism = []
    for secret, date, region, service in cases:
        nat = rp.ask({'op': 'derive', 'secret': secret, 'date': date, 'region': region, 'service': service})
        natk = [nat.get(k) for k in ('kdate', 'kregion', 'kservice', 'ksigning')]
        mine = mirse_chain(prog, secret, date, region, service)
        ref = ref_chain(secret, date, region, service)
        if mine != natk or natk != ref:
            mism.append({'case': [secret, date, region, service], 'mirse': mine, 'native': natk, 'reference': ref})
    return len(cases), mism


def replay_finding(rp, f):
    inp = f.inp
    if 'region' in inp:
        nat = rp.ask({'op': 'derive', 'secret': inp['secret'], 'date': inp['date'], 'region': inp['region'], 'service': inp['service']})
        ref = ref_chain(inp['secret'], inp['date'], inp['region'], inp['service'])
        natk = [nat.get(k) for k in ('kdate', 'kregion', 'kservice', 'ksigning')]
        bad = natk != ref or not nat.get('shortcuts_equal', False)
        return bad, {'native': nat, 'reference': ref}
    M, s = inp['m'], inp['secret']
    nat = rp.ask({'op': 'from_str', 'secret': s, 'm': M})
    n = len(s.encode('utf-8'))
    expect_ok = M >= 4 and n <= M - 4
    if 'panic' in nat:
        return True, {'native': nat, 'expected': 'Ok' if expect_ok else 'Err(KeyTooLongError)'}
    if ('ok' in nat) != expect_ok:
        return True, {'native': nat, 'expected': 'Ok' if expect_ok else 'Err(KeyTooLongError)'}
    if 'ok' in nat and M == 44 and nat['ok'].get('as_ref_hex') != s.encode('utf-8').hex():
        return True, {'native': nat, 'expected': s.encode('utf-8').hex()}
    return False, {'native': nat}


def extra_checks(tier, seed, rp):
    data = kani_util.run_kani(['K1'], timeout=600)
    status, rows, failed, inconc = kani_util.summarize(data)
    lines = []
    if failed:
        # replay each failing harness' concrete playback natively through from_str
        confirmed = []
        for name, h in failed:
            M = int(name.split('_m')[1].split('_')[0])
            reproduced = False
            for n in range(0, M + 3):
                nat = rp.ask({'op': 'from_str', 'secret': 'a' * n, 'm': M})
                exp_ok = M >= 4 and n <= M - 4
                if 'panic' in nat or (('ok' in nat) != exp_ok):
                    reproduced = True
                    confirmed.append((name, M, n, nat))
                    break
            if not reproduced:
                status = 2
        if confirmed:
            name, M, n, nat = confirmed[0]
            lines.append('VIOLATION property=C06 replay=%s' % write_replay_file(PROP, Finding(
                'Kani harness %s failed' % name, {'secret': 'a' * n, 'm': M}, {'native': nat})))
            lines.append('  Kani %s FAILED: %s; native KSecretKey::<%d>::from_str(%d bytes) -> %s' % (
                name, json.dumps([c.get('description') for c in failed[0][1].get('failed_checks', [])][:2]), M, n, json.dumps(nat)))
    elif inconc:
        lines.append('INCONCLUSIVE property=C06 Kani: %s' % json.dumps([(n, h.get('verdict'), h.get('vacuous')) for n, h in inconc]))
    return {'status': status, 'lines': lines, 'kani': {'harnesses': rows, 'version': data.get('kani_version'), 'wall_s': data.get('wall_s')}}


def describe(f):
    return '%s -> %s' % (json.dumps(f.inp), json.dumps(f.detail, default=str)[:500])


def bounds(tier):
    return ('from_str: every capacity M in {44,8,5,4,3,0} x every length 0..M+2, all ASCII byte values (plus a 2-byte scalar), by MIRSE and by '
            'Kani K1 on the compiled code; derivation: secret lengths %s, every date of years 1-9999 (symbolic y/m/d, leap rule), region/service '
            'lengths up to 4 bytes incl. empty and a 2-byte UTF-8 scalar, all six shortcut methods' % (
                '{0,1,5,39,40}' if tier == 'quick' else '0..40'))


OUTSIDE = 'regions/services longer than 4 bytes; HMAC-SHA256 internals (ideal-hash oracle keyed on the zero-padded 64-byte key, which is HMAC\'s own key normalisation)'
NEED_WITNESSES = {'from_str-Ok', 'from_str-Err', 'derive'}
ASSUMPTIONS = ['chrono NaiveDate::format("%Y%m%d") renders zero-padded decimal fields for years 0..9999 (model_chrono.render; compiled-chrono '
               'constructors are covered by Kani K3)',
               'HMAC-SHA256 is a deterministic function of (zero-padded key, message): ideal-hash oracle with functional consistency']


def main(argv):
    return run_check(sys.modules[__name__], argv)


if __name__ == '__main__':
    sys.exit(main(sys.argv))
