"""C13 — errors follow the documented precedence and a fixed kind/code/status taxonomy.

Decided by (a) MIRSE on the whole pipeline with one *symbolic Boolean per defect* (specs/defects.py): every
defect switch selects byte-wise between the good and a bad spelling of one component (path escape, query
escape, algorithm, parameter syntax, each missing parameter, host unsigned, required header unsigned, date
format, expired / not yet current, credential arity, each scope field, provider error, wrong signature), on
both carriers and for the missing / duplicated carrier.  On every feasible path z3 proves that the kind and
message class of the returned error are those of the *earliest* defect that is switched on in the documented
order, and that the request is accepted iff no switch is on.  Every Err must downcast to SignatureError.
(b) Kani K5 on the compiled kind -> (error code, HTTP status) table: 400 / 403 / 500 only, never 2xx.
"""
import itertools
import json
import random
import sys

import z3

from .common import *
from .pipeline import *
from .defects import *
from mirse import engine
from . import kani_util

PROP = 'C13'


def shapes(tier, seed):
    out = []
    for carrier in ('header', 'query'):
        out.append(('flags', carrier, 'all', True))
        # focused sub-spaces (fewer switches => deeper coverage of the later rules)
        out.append(('flags', carrier, 'late', True))
        out.append(('flags', carrier, 'auth', True))
        # a presented signature of another length (always wrong) combined with every later defect, provider failures included
        for sv in ('sig-long', 'sig-short', 'sig-empty'):
            out.append(('flags', carrier, 'late', True, sv))
    # a folded form whose rebuilt URI exceeds what http::Uri accepts (contract model of Builder::build): a malformed request (400)
    out.append(('toolong', 'header'))
    out.append(('toolong', 'query'))
    out.append(('flags', 'none', 'all', True))
    # a blank Authorization header next to a complete query carrier (= both carriers) and on its own (= header carrier without algorithm)
    out.append(('flags', 'query+blank', 'all', True))
    out.append(('flags', 'none+blank', 'all', True))
    out.append(('flags', 'both', 'all', True))
    out.append(('flags', 'header', 'all', False))     # Authorization header without any date header
    return out


def base_of(carrier):
    return carrier.split('+')[0]


def subset(carrier, which):
    names = flag_names(base_of(carrier) if base_of(carrier) in ('header', 'query') else 'header')
    if which == 'late':
        return [n for n in names if n in ('date', 'expired', 'future', 'arity', 'arity_more', 'scope_date', 'scope_region', 'scope_service', 'scope_term',
                                          'provider', 'signature')]
    if which == 'auth':
        return [n for n in names if n in ('algorithm', 'syntax', 'missing_credential', 'missing_signature', 'missing_signedheaders',
                                          'missing_date', 'host', 'required', 'date')]
    return names


def run_toolong(prog, shape, tier, seed, res):
    carrier = shape[1]

    def body(m, ctx):
        m.x_uri_build_may_fail = True
        hdrs = [('host', conc_bytes('h')), ('content-type', conc_bytes('application/x-www-form-urlencoded')), ('x-amz-date', conc_bytes(TS))]
        q = conc_bytes('x=1')
        if carrier == 'header':
            hdrs.append(('authorization', conc_bytes('AWS4-HMAC-SHA256 Credential=AKID/' + SCOPE + ', SignedHeaders=host;x-amz-date, Signature=' + '0' * 64)))
        else:
            q = q + conc_bytes('&X-Amz-Algorithm=AWS4-HMAC-SHA256&X-Amz-Credential=AKID%2F' + SCOPE.replace('/', '%2F') + '&X-Amz-Date=' + TS +
                               '&X-Amz-SignedHeaders=host&X-Amz-Signature=' + '0' * 64)
        rq = Req('POST', b'/', q, hdrs, b'a=1', 'bytes')
        prov = provider_ok(conc_bytes(bytes(32)))
        r, _ = run(m, rq, 'us-east-1', 'service', prov, instant(T0), None, options(False, True))
        return classify(r), prov

    def on_path(pr):
        res.obligations += 1
        if pr.kind == 'panic':
            res.findings.append(Finding('panic: %s' % pr.value.msg, {'shape': repr(shape)}, None, None, repr(shape)))
            return
        (kind, msg), prov = pr.value
        failed = any(e and e[0] == 'uri_build_failed_by_contract' for e in pr.ctx.events)
        res.witnesses.add('toolong:' + ('build-failed' if failed else 'built'))
        res.witnesses.add(kind)
        if failed and (kind != 'MalformedQueryString' or prov.calls):
            res.findings.append(Finding('a folded form too long for a URI is answered with %s instead of MalformedQueryString (400)' % kind,
                                        {'toolong': carrier}, None, None, repr(shape)))
    engine.explore(prog, body, on_path, stats=res.stats)


def run_shape(prog, shape, tier, seed, res):
    if shape[0] == 'toolong':
        return run_toolong(prog, shape, tier, seed, res)
    _, carrier, which, date_header = shape[:4]
    sig_variant = shape[4] if len(shape) > 4 else None

    def body(m, ctx):
        flags = {}
        for n in subset(carrier, which):
            flags[n] = ctx.fresh_bool('f_' + n)
        if 'expired' in flags and 'future' in flags:
            ctx.assume(z3.Not(z3.And(flags['expired'], flags['future'])))
        D = Defective(m, ctx, base_of(carrier), flags, date_header, sig_variant=sig_variant, blank_authz=('' if carrier.endswith('+blank') else None))
        prov = A.Provider(D.result)
        r, polls = run(m, D.req, 'us-east-1', 'service', prov, D.server, D.reqs)
        return D, flags, r, prov

    def on_path(pr):
        ctx = pr.ctx
        res.obligations += 1
        if pr.kind == 'panic':
            res.findings.append(Finding('panic: %s' % pr.value.msg, {'shape': repr(shape)}, None, None, repr(shape)))
            return
        D, flags, r, prov = pr.value
        kind, msg = classify(r)
        res.witnesses.add(kind)
        o = outcome(r)
        if o[0] == 'err' and o[1] in ('foreign', 'unknown'):
            res.findings.append(Finding('error is not a SignatureError', {'shape': repr(shape)}, None, None, repr(shape)))
            return
        # expected: the earliest rule whose condition holds
        rules = []
        for name, rank, ekind, prefixes in RULES:
            if name == 'carrier':
                if carrier == 'none':
                    rules.append((True, 'MissingAuthenticationToken', [b'Request is missing Authentication Token']))
                elif carrier in ('both', 'query+blank'):
                    rules.append((True, 'SignatureDoesNotMatch', [b'']))
                continue
            if name == 'algorithm' and carrier == 'none+blank':
                rules.append((True, 'IncompleteSignature', [b"Unsupported AWS 'algorithm'"]))
                continue
            if name == 'algorithm':
                ekind = 'IncompleteSignature' if carrier in ('header', 'both') else 'MissingAuthenticationToken'
                prefixes = [b"Unsupported AWS 'algorithm'"] if carrier in ('header', 'both') else [b'Request is missing Authentication Token']
            cond = D.cond(name)
            if name == 'missing' and carrier == 'header' and not date_header:
                cond = True
            if cond is False:
                continue
            rules.append((cond, ekind, prefixes))
        alts = []
        earlier = []
        for cond, ekind, prefixes in rules:
            matches = kind == ekind and (prefixes is None or any(msg.startswith(p[:len(msg)]) if len(msg) < len(p) else msg.startswith(p) for p in prefixes))
            if matches:
                alts.append(zand(*([zb(cond)] + [z3.Not(zb(c)) for c in earlier])))
            earlier.append(cond)
        if kind == 'ok':
            alts.append(zand(*[z3.Not(zb(c)) for c in earlier]))
        prop = zb(zor(*alts)) if alts else z3.BoolVal(False)
        okv, _ = ctx.valid(prop)
        if not okv:
            sat, model = ctx.satisfiable(z3.Not(prop))
            on = sorted(n for n, fl in flags.items() if z3.is_true(model.eval(fl, model_completion=True)))
            if sig_variant and 'signature' not in on:
                on.append('signature')
            res.findings.append(Finding('error %s %r is not that of the earliest defect' % (kind, msg[:40].decode('latin-1')),
                                        {'carrier': carrier, 'date_header': date_header, 'defects': on, 'request': D.req.to_json(model),
                                         'mirse': [kind, msg.decode('latin-1')]}, None, None, repr(shape)))
        if len(res.samples) < 2:
            sat, model = ctx.satisfiable()
            on = sorted(n for n, fl in flags.items() if z3.is_true(model.eval(fl, model_completion=True)))
            res.samples.append({'carrier': carrier, 'defects_on': on, 'outcome': kind})

    engine.explore(prog, body, on_path, stats=res.stats)


# --------------------------------------------------------------------------- concrete side

def expected_concrete(carrier, date_header, on):
    """(kind, prefixes) expected for a concrete set of defects."""
    on = set(on)
    order = []
    for name, rank, ekind, prefixes in RULES:
        if name == 'carrier':
            if carrier == 'none':
                return 'MissingAuthenticationToken', [b'Request is missing Authentication Token'] if not (on & {'path', 'query'}) else None
            if carrier in ('both', 'query+blank'):
                if not (on & {'path', 'query'}):
                    return 'SignatureDoesNotMatch', [b'']
            continue
        if name == 'algorithm' and carrier == 'none+blank':
            return 'IncompleteSignature', [b"Unsupported AWS 'algorithm'"]
        hit = False
        if name == 'missing':
            hit = bool(on & {'missing_credential', 'missing_signature', 'missing_signedheaders', 'missing_date'}) or (carrier == 'header' and not date_header)
        elif name == 'scope':
            hit = bool(on & {'scope_date', 'scope_region', 'scope_service', 'scope_term'}) or {'arity', 'arity_more'} <= on
        elif name == 'arity':
            hit = ('arity' in on) != ('arity_more' in on)
        else:
            hit = name in on
        if hit:
            if name == 'algorithm':
                return ('IncompleteSignature', [b"Unsupported AWS 'algorithm'"]) if carrier in ('header', 'both') else \
                    ('MissingAuthenticationToken', [b'Request is missing Authentication Token'])
            return ekind, prefixes
    return 'ok', None


def native_run(rp, carrier, date_header, on, request_json):
    server = T0 + (1000 if 'expired' in on else -1000 if 'future' in on else 0)
    prov = {'result': {'err': {'sig': {'kind': 'InvalidClientTokenId', 'msg': 'no such key'}}}} if 'provider' in on else \
        {'result': {'signing_key_hex': '00' * 32}}
    nat = native_validate(rp, request_json, 'us-east-1', 'service', server, provider=prov,
                          reqs={'kind': 'slice', 'always': ['X-Req'], 'if_in': [], 'prefixes': []})
    res = nat.get('result', {})
    if 'ok' in res:
        return 'ok', ''
    if 'err' in res:
        return res['err']['kind'], res['err'].get('msg', '')
    return 'panic', json.dumps(res)[:200]


def replay_finding(rp, f):
    inp = f.inp
    if 'toolong' in inp:
        carrier = inp['toolong']
        hdrs = [['host', b'h'.hex()], ['content-type', b'application/x-www-form-urlencoded'.hex()], ['x-amz-date', TS.encode().hex()]]
        uri = '/?x=1'
        if carrier == 'header':
            hdrs.append(['authorization', ('AWS4-HMAC-SHA256 Credential=AKID/' + SCOPE + ', SignedHeaders=host;x-amz-date, Signature=' + '0' * 64).encode().hex()])
        else:
            uri += '&X-Amz-Algorithm=AWS4-HMAC-SHA256&X-Amz-Credential=AKID%2F' + SCOPE.replace('/', '%2F') + '&X-Amz-Date=' + TS + \
                   '&X-Amz-SignedHeaders=host&X-Amz-Signature=' + '0' * 64
        j = {'method': 'POST', 'uri': uri, 'version': 'HTTP/1.1', 'headers': hdrs, 'body_hex': (b'a=' + b'v' * 70000).hex(), 'body_kind': 'bytes'}
        nat = native_validate(rp, j, 'us-east-1', 'service', T0, provider={'result': {'signing_key_hex': '00' * 32}},
                              opts={'s3': False, 'url_encode_form': True})
        res_ = nat.get('result', {})
        k = 'ok' if 'ok' in res_ else res_.get('err', {}).get('kind', 'panic')
        st = res_.get('err', {}).get('status')
        return k != 'MalformedQueryString' or st != 400, {'native': [k, st], 'body_bytes': 70002}
    if 'request' not in inp:
        return False, None
    nk, nmsg = native_run(rp, inp['carrier'], inp['date_header'], inp['defects'], inp['request'])
    ek, prefixes = expected_concrete(inp['carrier'], inp['date_header'], inp['defects'])
    bad = nk != ek or (prefixes is not None and not any(nmsg.encode('latin-1').startswith(p) for p in prefixes))
    return bad, {'native': [nk, nmsg[:120]], 'expected': [ek, [p.decode() for p in prefixes] if prefixes else None]}


def conformance(prog, rp, seed, tier):
    """Concrete defect subsets through MIRSE and natively."""
    rnd = random.Random(seed)
    mism = []
    n = 0
    cases = []
    for carrier in ('header', 'query', 'none', 'both'):
        cases.append((carrier, True, []))
        for nm in flag_names(carrier if carrier in ('header', 'query') else 'header'):
            cases.append((carrier, True, [nm]))
    for _ in range(20 if tier == 'quick' else 150):
        carrier = rnd.choice(['header', 'query'])
        names = flag_names(carrier)
        on = sorted(set(rnd.sample(names, rnd.randint(2, 4))))
        if 'expired' in on and 'future' in on:
            on.remove('future')
        cases.append((carrier, rnd.random() < 0.9, on))
    for carrier, dh, on in cases:
        n += 1
        out = []

        def body(m, ctx):
            flags = {nm: (nm in on) for nm in flag_names(carrier if carrier in ('header', 'query') else 'header')}
            flags = {k: (z3.BoolVal(True) if v else False) for k, v in flags.items()}
            D = Defective(m, ctx, carrier, flags, dh)
            prov = A.Provider(D.result)
            r, _ = run(m, D.req, 'us-east-1', 'service', prov, D.server, D.reqs)
            return classify(r), D.req.to_json()
        engine.explore(prog, body, out.append)
        pr = out[0]
        if pr.kind == 'panic':
            mism.append({'case': [carrier, dh, on], 'mirse': 'panic ' + pr.value.msg})
            continue
        (kind, msg), j = pr.value
        nk, nmsg = native_run(rp, carrier, dh, on, j)
        if kind != nk or not nmsg.encode('latin-1', 'replace').startswith(msg):
            mism.append({'case': [carrier, dh, on], 'mirse': [kind, msg.decode('latin-1')], 'native': [nk, nmsg[:100]]})
            continue
        ek, prefixes = expected_concrete(carrier, dh, on)
        if ek != nk:
            # the native code itself deviates from the reference order on this concrete subset: reported by the symbolic part
            pass
    return n, mism


def extra_checks(tier, seed, rp):
    data = kani_util.run_kani(['K5'], timeout=600)
    status, rows, failed, inconc = kani_util.summarize(data)
    lines = []
    tbl = rp.ask({'op': 'error_table'})
    rows_n = tbl.get('rows', [])
    bad_rows = [r for r in rows_n if r.get('status') not in (400, 403, 500) or 200 <= r.get('status', 0) < 300]
    if failed:
        confirmed = bool(bad_rows)
        if confirmed:
            lines.append('VIOLATION property=C13 replay=%s' % write_replay_file(PROP, Finding('error taxonomy table', {'rows': bad_rows}, None)))
            status = 1
        else:
            lines.append('INCONCLUSIVE property=C13 Kani K5 failed but the native table looks right: %s' % json.dumps([n for n, _ in failed]))
            status = 2
    elif inconc:
        lines.append('INCONCLUSIVE property=C13 Kani: %s' % json.dumps([(n, h.get('verdict')) for n, h in inconc]))
    return {'status': status, 'lines': lines, 'kani': {'harnesses': rows, 'wall_s': data.get('wall_s')},
            'native_error_table': [{k: r.get(k) for k in ('kind', 'code', 'status')} for r in rows_n]}


def describe(f):
    return '%s -> %s' % (json.dumps({k: v for k, v in f.inp.items() if k != 'request'}), json.dumps(f.detail, default=str)[:400])


def bounds(tier):
    return ('every subset of 18-19 defect switches per carrier (header / query), plus the missing-carrier, both-carriers and no-date-header '
            'requests with all switches; three switch groups per carrier (all, late rules, authentication-parameter rules); one bad spelling '
            'per defect; Kani K5: all 12 error variants of the kind -> code/status table')


OUTSIDE = ('other bad spellings of each defect than the one encoded per switch; several defects inside one rule beyond the scope fields and the '
           'missing parameters; rule 2/3 of the document (request method / content type) which this library does not implement')
NEED_WITNESSES = {'ok', 'InvalidURIPath', 'MalformedQueryString', 'IncompleteSignature', 'SignatureDoesNotMatch', 'MissingAuthenticationToken',
                  'InvalidClientTokenId'}
ASSUMPTIONS = ['documented order transcribed from docs/AWS Auth Error Ordering.pdf and the property statement into specs/defects.RULES',
               'ideal-hash oracle seeded with the real digests of the good request so that symbolic re-computations are linked by functional consistency']


def main(argv):
    return run_check(sys.modules[__name__], argv)


if __name__ == '__main__':
    sys.exit(main(sys.argv))
