"""C19 — repeated authentication inputs are resolved by fixed, documented rules.

Decided by MIRSE on the whole pipeline.  Each shape duplicates one authentication input: the *valid* value
(the one the reference signer used) and a *symbolic decoy* of the same length that differs from it, in both
orders.  The documented selection is: first Authorization header, last occurrence of a parameter repeated
inside it, first value of a repeated X-Amz-* query parameter, first X-Amz-Date header in preference to any
Date header, first security-token header; a request carrying both an Authorization header and an
X-Amz-Algorithm query parameter is refused.  On every path: Ok <=> the documented selection picks the valid
value (z3: for every decoy), the provider sees the selected access key / token, both carriers together =>
SignatureDoesNotMatch.
"""
import itertools
import json
import random
import sys

import z3

from .common import *
from .pipeline import *
from . import refmodel as R
from . import c02
from mirse import engine
from mirse import model_async as A

PROP = 'C19'
TS = c02.TS
SCOPE = c02.SCOPE
AKID = c02.AKID

CASES = ['authz-header', 'authz-foreign', 'authz-basic', 'cred-in-header', 'sig-in-header', 'sig-in-header-gap', 'cred-in-header-gap', 'signedheaders-in-header', 'q-credential', 'q-signature', 'q-date', 'q-signedheaders',
         'q-token', 'fold-signature', 'fold-credential', 'x-amz-date-twice', 'x-amz-date-vs-date', 'x-amz-date-blank', 'x-amz-date-spaces', 'date-twice', 'token-header', 'both-carriers', 'both-carriers-otheralg', 'both-carriers-emptyalg']


def shapes(tier, seed):
    out = []
    for case in CASES:
        if case.startswith('both-carriers'):
            out.append((case, 'n/a'))
            continue
        for order in ('valid-selected', 'decoy-selected'):
            out.append((case, order))
    return out


def decoy_like(ctx, valid, tag, charset='visible'):
    """Symbolic bytes of the same length as `valid`, different from it."""
    es = []
    for i in range(len(valid)):
        b = ctx.fresh_bv('%s%d' % (tag, i), 8)
        if charset == 'hex':
            ctx.assume(z3.Or(z3.And(z3.UGE(b, 0x30), z3.ULE(b, 0x39)), z3.And(z3.UGE(b, 0x61), z3.ULE(b, 0x66))))
        elif charset == 'alnum':
            ctx.assume(z3.Or(z3.And(z3.UGE(b, 0x30), z3.ULE(b, 0x39)), z3.And(z3.UGE(b, 0x41), z3.ULE(b, 0x5A))))
        elif charset == 'digit':
            ctx.assume(z3.And(z3.UGE(b, 0x30), z3.ULE(b, 0x39)))
        else:
            ctx.assume(z3.And(z3.UGE(b, 0x21), z3.ULE(b, 0x7E), b != 0x2C, b != 0x3D, b != 0x3B, b != 0x26, b != 0x25, b != 0x2B, b != 0x2F))
        es.append(Int('u8', b))
    ctx.assume(z3.Not(zb(bytes_eq(es, valid))))
    return es


def decoy_date(ctx):
    """A symbolic timestamp dddddddd'T'dddddd'Z' different from TS."""
    d = []
    for i, ch in enumerate(TS):
        if ch.isdigit():
            b = ctx.fresh_bv('dd%d' % i, 8)
            ctx.assume(z3.And(z3.UGE(b, 0x30), z3.ULE(b, 0x39)))
            d.append(Int('u8', b))
        else:
            d.append(Int('u8', ord(ch)))
    ctx.assume(z3.Not(zb(bytes_eq(d, conc_bytes(TS)))))
    return d


def run_shape(prog, shape, tier, seed, res):
    case, order = shape
    want_ok = order == 'valid-selected'

    def body(m, ctx):
        key = sym_bytes(ctx, 'key', 32)
        headers = [('host', conc_bytes('h'))]
        signed = ['host']
        cred = conc_bytes(AKID + '/' + SCOPE)
        pairs = []
        wire_q = []
        expect_access = conc_bytes(AKID)
        expect_token = None
        tok = conc_bytes('TOK')
        first = lambda a, b: (a, b) if want_ok else (b, a)      # (selected-by-"first" rule, other)
        last = lambda a, b: (b, a) if want_ok else (a, b)       # order on the wire when the LAST one is selected
        if case in ('authz-header', 'authz-foreign', 'authz-basic', 'cred-in-header', 'sig-in-header', 'sig-in-header-gap', 'cred-in-header-gap', 'signedheaders-in-header', 'x-amz-date-twice', 'x-amz-date-vs-date',
                    'x-amz-date-blank', 'x-amz-date-spaces',
                    'date-twice', 'token-header', 'both-carriers', 'both-carriers-otheralg', 'both-carriers-emptyalg'):
            # ---- header carrier
            date_headers = [('x-amz-date', conc_bytes(TS))]
            if case == 'x-amz-date-twice':
                d = decoy_date(ctx)
                a, b = first(conc_bytes(TS), d)
                date_headers = [('x-amz-date', a), ('x-amz-date', b)]
            elif case == 'x-amz-date-vs-date':
                d = decoy_date(ctx)
                if want_ok:
                    date_headers = [('date', d), ('x-amz-date', conc_bytes(TS))]
                else:
                    date_headers = [('date', conc_bytes(TS)), ('x-amz-date', d)]
            elif case in ('x-amz-date-blank', 'x-amz-date-spaces'):
                # a blank X-Amz-Date is still THE X-Amz-Date header: it is not skipped in favour of a well-formed Date header
                blank = conc_bytes('' if case == 'x-amz-date-blank' else '  ')
                if want_ok:
                    date_headers = [('date', blank), ('x-amz-date', conc_bytes(TS))]
                else:
                    date_headers = [('x-amz-date', blank), ('date', conc_bytes(TS))]
            elif case == 'date-twice':
                d = decoy_date(ctx)
                a, b = first(conc_bytes(TS), d)
                date_headers = [('date', a), ('date', b)]
            headers += date_headers
            signed += sorted({n for n, _ in date_headers})
            if case == 'token-header':
                dt = decoy_like(ctx, tok, 'tk', 'alnum')
                a, b = first(tok, dt)
                headers += [('x-amz-security-token', a), ('x-amz-security-token', b)]
                signed.append('x-amz-security-token')
                expect_token = a
            signed = sorted(set(signed))
            # the reference signer signs what the documented selection designates: timestamp TS, credential AKID/SCOPE
            cq = []
            if case.startswith('both-carriers'):
                # the presence of the parameter decides, not its value
                algv = conc_bytes('AWS4-HMAC-SHA256')
                if case == 'both-carriers-otheralg':
                    algv = decoy_like(ctx, algv, 'ba', 'alnum')
                elif case == 'both-carriers-emptyalg':
                    algv = []
                pairs = [(conc_bytes('X-Amz-Algorithm'), list(algv))]
                wire_q = conc_bytes('X-Amz-Algorithm=') + list(algv)
                cq = R.ref_canon_query_from_pairs(ctx, pairs)
            sig, creq, sts = ref_sign(m, key, ctx, 'GET', conc_bytes('/'), cq, headers, signed, [], conc_bytes(TS), conc_bytes(SCOPE))
            good = auth_header(cred, signed, sig)
            if case == 'authz-header':
                dec = decoy_like(ctx, sig, 'ds', 'hex')
                bad = auth_header(cred, signed, dec)
                a, b = first(good, bad)
                headers += [('authorization', a), ('authorization', b)]
            elif case == 'authz-foreign':
                # the other Authorization header is the valid one under a different algorithm token: position decides, not content
                alg = decoy_like(ctx, conc_bytes('AWS4-HMAC-SHA256'), 'fa')
                bad = alg + good[16:]
                a, b = first(good, bad)
                headers += [('authorization', a), ('authorization', b)]
            elif case == 'authz-basic':
                bad = conc_bytes('Basic ') + decoy_like(ctx, conc_bytes('dXNlcg'), 'fb', 'alnum')
                a, b = first(good, bad)
                headers += [('authorization', a), ('authorization', b)]
            elif case == 'cred-in-header':
                dc = decoy_like(ctx, conc_bytes(AKID), 'dc', 'alnum') + conc_bytes('/' + SCOPE)
                w1, w2 = last(cred, dc)
                headers.append(('authorization', conc_bytes('AWS4-HMAC-SHA256 Credential=') + w1 + conc_bytes(', Credential=') + w2 +
                                conc_bytes(', SignedHeaders=' + ';'.join(signed) + ', Signature=') + sig))
                expect_access = w2[:len(AKID)]
            elif case == 'sig-in-header-gap':
                # an empty list element (",," / ", ,") between two occurrences: still a list, the last occurrence still wins
                dec = decoy_like(ctx, sig, 'ds', 'hex')
                w1, w2 = last(sig, dec)
                headers.append(('authorization', conc_bytes('AWS4-HMAC-SHA256 Credential=') + cred + conc_bytes(', SignedHeaders=' + ';'.join(signed) + ', Signature=') + w1 +
                                conc_bytes(',, Signature=') + w2))
            elif case == 'cred-in-header-gap':
                dc = decoy_like(ctx, conc_bytes(AKID), 'dc', 'alnum') + conc_bytes('/' + SCOPE)
                w1, w2 = last(cred, dc)
                headers.append(('authorization', conc_bytes('AWS4-HMAC-SHA256 Credential=') + w1 + conc_bytes(', SignedHeaders=' + ';'.join(signed) + ', Signature=') + sig +
                                conc_bytes(', , Credential=') + w2))
                expect_access = w2[:len(AKID)]
            elif case == 'sig-in-header':
                dec = decoy_like(ctx, sig, 'ds', 'hex')
                w1, w2 = last(sig, dec)
                headers.append(('authorization', conc_bytes('AWS4-HMAC-SHA256 Credential=') + cred + conc_bytes(', Signature=') + w1 +
                                conc_bytes(', SignedHeaders=' + ';'.join(signed) + ', Signature=') + w2))
            elif case == 'signedheaders-in-header':
                shv = conc_bytes(';'.join(signed))
                dec = conc_bytes(';'.join(signed[:-1] + ['x-zzz'])) if True else None
                w1, w2 = last(shv, dec)
                headers.append(('authorization', conc_bytes('AWS4-HMAC-SHA256 Credential=') + cred + conc_bytes(', SignedHeaders=') + w1 +
                                conc_bytes(', SignedHeaders=') + w2 + conc_bytes(', Signature=') + sig))
            else:
                headers.append(('authorization', good))
            rq = Req('GET', b'/', wire_q if wire_q else None, headers, b'', 'bytes')
        else:
            # ---- query carrier: first value of each repeated X-Amz-* parameter is authenticated
            signed = ['host']
            vals = {'X-Amz-Algorithm': [conc_bytes('AWS4-HMAC-SHA256')], 'X-Amz-Credential': [cred], 'X-Amz-Date': [conc_bytes(TS)],
                    'X-Amz-SignedHeaders': [conc_bytes('host')]}
            if case == 'q-credential':
                dc = decoy_like(ctx, conc_bytes(AKID), 'dc', 'alnum') + conc_bytes('/' + SCOPE)
                a, b = first(cred, dc)
                vals['X-Amz-Credential'] = [a, b]
                expect_access = a[:len(AKID)]
            elif case == 'q-date':
                d = decoy_date(ctx)
                a, b = first(conc_bytes(TS), d)
                vals['X-Amz-Date'] = [a, b]
            elif case == 'q-signedheaders':
                a, b = first(conc_bytes('host'), conc_bytes('hosu'))
                vals['X-Amz-SignedHeaders'] = [a, b]
            elif case == 'q-token':
                dt = decoy_like(ctx, tok, 'tk', 'alnum')
                a, b = first(tok, dt)
                vals['X-Amz-Security-Token'] = [a, b]
                expect_token = a
            body_q = []
            fold = case.startswith('fold-')
            if case == 'fold-credential':
                dc = decoy_like(ctx, conc_bytes(AKID), 'dc', 'alnum') + conc_bytes('/' + SCOPE)
                a, b = first(cred, dc)
                vals['X-Amz-Credential'] = [a]
                body_q = [('X-Amz-Credential', b)]
                expect_access = a[:len(AKID)]
            if fold:
                headers.append(('content-type', conc_bytes('application/x-www-form-urlencoded')))
            for n, vs in vals.items():
                for v in vs:
                    pairs.append((conc_bytes(n), list(v)))
                    if wire_q:
                        wire_q.append(Int('u8', 0x26))
                    wire_q += conc_bytes(n + '=') + R.pct_encode(ctx, v)
            body_wire = []
            for n, v in body_q:
                pairs.append((conc_bytes(n), list(v)))
                body_wire += ([Int('u8', 0x26)] if body_wire else []) + conc_bytes(n + '=') + R.pct_encode(ctx, v)
            cq = R.ref_canon_query_from_pairs(ctx, pairs)
            sig, creq, sts = ref_sign(m, key, ctx, 'POST' if fold else 'GET', conc_bytes('/'), cq, headers, signed, [], conc_bytes(TS), conc_bytes(SCOPE))
            if case == 'fold-signature':
                # first (URL) occurrence is authenticated; the body carries the other one
                dec = decoy_like(ctx, sig, 'ds', 'hex')
                a, b = first(sig, dec)
                wire_q += conc_bytes('&X-Amz-Signature=') + a
                body_wire = conc_bytes('X-Amz-Signature=') + b
            if fold:
                if case != 'fold-signature':
                    wire_q += conc_bytes('&X-Amz-Signature=') + sig
                rq = Req('POST', b'/', wire_q, headers, body_wire, 'bytes')
                other = sym_bytes(ctx, 'key2_', 32)
                ctx.assume(z3.Not(zb(bytes_eq(other, key))))

                def result_f(mm, rqv):
                    rec = request_record(None, rqv)
                    same = bytes_eq(rec['access_key'].elems, conc_bytes(AKID)) if len(rec['access_key'].elems) == len(AKID) else False
                    if mm.ctx.branch(same):
                        return ok(key_response(key))
                    return ok(key_response(other))
                prov = A.Provider(result_f)
                r, polls = run(m, rq, 'us-east-1', 'service', prov, instant(T0), None, options(False, True))
                assume_collision_free(m, ctx)
                return rq, r, prov, expect_access, expect_token
            if case == 'q-signature':
                dec = decoy_like(ctx, sig, 'ds', 'hex')
                a, b = first(sig, dec)
                wire_q += conc_bytes('&X-Amz-Signature=') + a + conc_bytes('&X-Amz-Signature=') + b
            else:
                wire_q += conc_bytes('&X-Amz-Signature=') + sig
            rq = Req('GET', b'/', wire_q, headers, b'', 'bytes')
        # the key store knows one identity: access key AKID (+ token TOK in the token cases); any other identity gets another key
        other = sym_bytes(ctx, 'key2_', 32)
        ctx.assume(z3.Not(zb(bytes_eq(other, key))))
        need_tok = tok if case in ('token-header', 'q-token') else None

        def result(mm, rqv):
            rec = request_record(None, rqv)
            same = bytes_eq(rec['access_key'].elems, conc_bytes(AKID)) if len(rec['access_key'].elems) == len(AKID) else False
            st = rec['session_token']
            if need_tok is None:
                same = zand(same, st.variant == 'None')
            else:
                same = zand(same, st.variant == 'Some' and bytes_eq(st.fields[0].elems, need_tok))
            if mm.ctx.branch(same):
                return ok(key_response(key))
            return ok(key_response(other))
        prov = A.Provider(result)
        r, polls = run(m, rq, 'us-east-1', 'service', prov, instant(T0))
        assume_collision_free(m, ctx)
        return rq, r, prov, expect_access, expect_token

    def on_path(pr):
        ctx = pr.ctx
        res.obligations += 1
        if pr.kind == 'panic':
            res.findings.append(Finding('panic: %s' % pr.value.msg, {'shape': repr(shape)}, None, None, repr(shape)))
            return
        rq, r, prov, expect_access, expect_token = pr.value
        o = outcome(r)

        def fail(what):
            sat, model = ctx.satisfiable()
            if sat:
                res.findings.append(Finding(what, {'case': case, 'order': order, 'request': rq.to_json(model)}, None, None, repr(shape)))
        if case.startswith('both-carriers'):
            res.witnesses.add('both:' + (o[0] if o[0] == 'ok' else o[1]))
            if o[0] == 'ok' or o[1] != 'SignatureDoesNotMatch':
                fail('request with both an Authorization header and X-Amz-Algorithm not refused as SignatureDoesNotMatch (%s)' % (o[1] if o[0] != 'ok' else 'ok'))
            if prov.calls:
                fail('provider consulted for an ambiguous (two-carrier) request')
            return
        if o[0] == 'ok':
            res.witnesses.add('ok')
            if not want_ok:
                fail('accepted although the documented selection designates the decoy value')
            if prov.calls:
                rec = request_record(None, prov.calls[0])
                ak = rec['access_key'].elems
                if len(ak) != len(expect_access) or not ctx.valid(zb(bytes_eq(ak, expect_access)))[0]:
                    fail('provider asked for a different access key than the documented selection designates')
                st = rec['session_token']
                if expect_token is None:
                    if st.variant != 'None':
                        fail('provider received an unexpected session token')
                elif st.variant != 'Some' or not ctx.valid(zb(bytes_eq(st.fields[0].elems, expect_token)))[0]:
                    fail('provider received a different session token than the first one')
        else:
            res.witnesses.add('refused')
            if want_ok:
                fail('refused (%s) although the documented selection designates the valid value' % o[1])
        if len(res.samples) < 1:
            res.samples.append({'case': case, 'order': order, 'outcome': o[0] if o[0] == 'ok' else o[1]})

    engine.explore(prog, body, on_path, stats=res.stats)


# --------------------------------------------------------------------------- concrete side

def concrete_case(case, order, rnd):
    want_ok = order == 'valid-selected'
    key = bytes(32)
    headers = [['host', b'h'.hex()]]
    signed = ['host']
    cred = AKID + '/' + SCOPE
    decoy_ts = '20150830T120000Z'
    first = lambda a, b: (a, b) if want_ok else (b, a)
    last = lambda a, b: (b, a) if want_ok else (a, b)
    hl = lambda: [(n, bytes.fromhex(v)) for n, v in headers]
    if case.startswith('fold-'):
        import urllib.parse
        headers.append(['content-type', b'application/x-www-form-urlencoded'.hex()])
        vals = [('X-Amz-Algorithm', 'AWS4-HMAC-SHA256'), ('X-Amz-Credential', cred), ('X-Amz-Date', TS), ('X-Amz-SignedHeaders', 'host')]
        body = ''
        if case == 'fold-credential':
            a, b = first(cred, 'ZZZZEXAMPLE/' + SCOPE)
            vals[1] = ('X-Amz-Credential', a)
            body = 'X-Amz-Credential=' + urllib.parse.quote(b, safe='-._~')
        q = '&'.join('%s=%s' % (n, urllib.parse.quote(v, safe='-._~')) for n, v in vals)
        _, cq = c02.py_canon('/', q + ('&' + body if body else ''))
        sig, _, _ = py_sign(key, 'POST', b'/', cq, hl(), ['host'], b'', TS, SCOPE, is_key=True)
        dsig = ('0' if sig[0] != '0' else '1') + sig[1:]
        if case == 'fold-signature':
            a, b = first(sig, dsig)
            q += '&X-Amz-Signature=' + a
            body = 'X-Amz-Signature=' + b
        else:
            q += '&X-Amz-Signature=' + sig
        return {'method': 'POST', 'uri': '/?' + q, 'version': 'HTTP/1.1', 'headers': headers, 'body_hex': body.encode().hex(), 'body_kind': 'bytes',
                'fold': True}
    if not case.startswith('q-'):
        dates = [['x-amz-date', TS]]
        if case == 'x-amz-date-twice':
            a, b = first(TS, decoy_ts)
            dates = [['x-amz-date', a], ['x-amz-date', b]]
        elif case == 'x-amz-date-vs-date':
            dates = [['date', decoy_ts], ['x-amz-date', TS]] if want_ok else [['date', TS], ['x-amz-date', decoy_ts]]
        elif case in ('x-amz-date-blank', 'x-amz-date-spaces'):
            blank = '' if case == 'x-amz-date-blank' else '  '
            dates = [['date', blank], ['x-amz-date', TS]] if want_ok else [['x-amz-date', blank], ['date', TS]]
        elif case == 'date-twice':
            a, b = first(TS, decoy_ts)
            dates = [['date', a], ['date', b]]
        headers += [[n, v.encode().hex()] for n, v in dates]
        signed += sorted({n for n, _ in dates})
        if case == 'token-header':
            a, b = first('TOK', 'XYZ')
            headers += [['x-amz-security-token', a.encode().hex()], ['x-amz-security-token', b.encode().hex()]]
            signed.append('x-amz-security-token')
        signed = sorted(set(signed))
        uri = '/'
        cq = b''
        if case.startswith('both-carriers'):
            alg = {'both-carriers': 'AWS4-HMAC-SHA256', 'both-carriers-otheralg': 'AWS4-HMAC-SHA512', 'both-carriers-emptyalg': ''}[case]
            uri = '/?X-Amz-Algorithm=' + alg
            cq = ('X-Amz-Algorithm=' + alg).encode()
        sig, _, _ = py_sign(key, 'GET', b'/', cq, hl(), signed, b'', TS, SCOPE, is_key=True)
        dsig = ('0' if sig[0] != '0' else '1') + sig[1:]
        mk = lambda c, sh, s: 'AWS4-HMAC-SHA256 Credential=%s, SignedHeaders=%s, Signature=%s' % (c, sh, s)
        sh = ';'.join(signed)
        if case == 'authz-header':
            a, b = first(mk(cred, sh, sig), mk(cred, sh, dsig))
            headers += [['authorization', a.encode().hex()], ['authorization', b.encode().hex()]]
        elif case == 'authz-foreign':
            a, b = first(mk(cred, sh, sig), mk(cred, sh, sig).replace('AWS4-HMAC-SHA256', 'aws4-hmac-sha256'))
            headers += [['authorization', a.encode().hex()], ['authorization', b.encode().hex()]]
        elif case == 'authz-basic':
            a, b = first(mk(cred, sh, sig), 'Basic dXNlcg')
            headers += [['authorization', a.encode().hex()], ['authorization', b.encode().hex()]]
        elif case == 'cred-in-header':
            w1, w2 = last(cred, 'ZZZZEXAMPLE' + '/' + SCOPE)
            headers.append(['authorization', ('AWS4-HMAC-SHA256 Credential=%s, Credential=%s, SignedHeaders=%s, Signature=%s' % (w1, w2, sh, sig)).encode().hex()])
        elif case == 'sig-in-header-gap':
            w1, w2 = last(sig, dsig)
            headers.append(['authorization', ('AWS4-HMAC-SHA256 Credential=%s, SignedHeaders=%s, Signature=%s,, Signature=%s' % (cred, sh, w1, w2)).encode().hex()])
        elif case == 'cred-in-header-gap':
            w1, w2 = last(cred, 'ZZZZEXAMPLE' + '/' + SCOPE)
            headers.append(['authorization', ('AWS4-HMAC-SHA256 Credential=%s, SignedHeaders=%s, Signature=%s, , Credential=%s' % (w1, sh, sig, w2)).encode().hex()])
        elif case == 'sig-in-header':
            w1, w2 = last(sig, dsig)
            headers.append(['authorization', ('AWS4-HMAC-SHA256 Credential=%s, Signature=%s, SignedHeaders=%s, Signature=%s' % (cred, w1, sh, w2)).encode().hex()])
        elif case == 'signedheaders-in-header':
            w1, w2 = last(sh, ';'.join(signed[:-1] + ['x-zzz']))
            headers.append(['authorization', ('AWS4-HMAC-SHA256 Credential=%s, SignedHeaders=%s, SignedHeaders=%s, Signature=%s' % (cred, w1, w2, sig)).encode().hex()])
        else:
            headers.append(['authorization', mk(cred, sh, sig).encode().hex()])
    else:
        vals = {'X-Amz-Algorithm': ['AWS4-HMAC-SHA256'], 'X-Amz-Credential': [cred], 'X-Amz-Date': [TS], 'X-Amz-SignedHeaders': ['host']}
        if case == 'q-credential':
            vals['X-Amz-Credential'] = list(first(cred, 'ZZZZEXAMPLE/' + SCOPE))
        elif case == 'q-date':
            vals['X-Amz-Date'] = list(first(TS, decoy_ts))
        elif case == 'q-signedheaders':
            vals['X-Amz-SignedHeaders'] = list(first('host', 'hosu'))
        elif case == 'q-token':
            vals['X-Amz-Security-Token'] = list(first('TOK', 'XYZ'))
        import urllib.parse
        q = '&'.join('%s=%s' % (n, urllib.parse.quote(v, safe='-._~')) for n, vs in vals.items() for v in vs)
        _, cq = c02.py_canon('/', q)
        sig, _, _ = py_sign(key, 'GET', b'/', cq, hl(), ['host'], b'', TS, SCOPE, is_key=True)
        dsig = ('0' if sig[0] != '0' else '1') + sig[1:]
        if case == 'q-signature':
            a, b = first(sig, dsig)
            q += '&X-Amz-Signature=%s&X-Amz-Signature=%s' % (a, b)
        else:
            q += '&X-Amz-Signature=' + sig
        uri = '/?' + q
    return {'method': 'GET', 'uri': uri, 'version': 'HTTP/1.1', 'headers': headers, 'body_hex': '', 'body_kind': 'bytes'}


def native_outcome(rp, j):
    fold = bool(j.get('fold'))
    j = {k: v for k, v in j.items() if k != 'fold'}
    nat = native_validate(rp, j, 'us-east-1', 'service', T0, provider={'result': {'signing_key_hex': '00' * 32}},
                          opts={'s3': False, 'url_encode_form': fold})
    res = nat.get('result', {})
    calls = nat.get('provider', {}).get('calls', [])
    return ('ok' if 'ok' in res else res.get('err', {}).get('kind', 'panic')), calls


IDENTITY_CASES = {'cred-in-header-gap': ('access_key', 'AKIDEXAMPLE', 'ZZZZEXAMPLE'), 'fold-credential': ('access_key', 'AKIDEXAMPLE', 'ZZZZEXAMPLE'), 'cred-in-header': ('access_key', 'AKIDEXAMPLE', 'ZZZZEXAMPLE'), 'q-credential': ('access_key', 'AKIDEXAMPLE', 'ZZZZEXAMPLE'),
                  'token-header': ('session_token', 'TOK', 'XYZ'), 'q-token': ('session_token', 'TOK', 'XYZ')}


def replay_finding(rp, f):
    inp = f.inp
    if 'case' not in inp:
        return False, None
    j = concrete_case(inp['case'], inp['order'], random.Random(0))
    nk, calls = native_outcome(rp, j)
    if inp['case'].startswith('both-carriers'):
        return nk != 'SignatureDoesNotMatch' or bool(calls), {'native': nk}
    want_ok = inp['order'] == 'valid-selected'
    if inp['case'] in IDENTITY_CASES:
        # the native test provider hands out one key for every identity: the selection is observed through what it was asked for
        field, valid, decoy = IDENTITY_CASES[inp['case']]
        documented = valid if want_ok else decoy
        seen = calls[0].get(field) if calls else None
        return seen != documented, {'native': nk, 'provider_saw': seen, 'documented_selection': documented}
    return (nk == 'ok') != want_ok, {'native': nk, 'expected_ok': want_ok, 'provider_calls': calls}


def mirse_concrete_fold(prog, j):
    out = []

    def body(m, ctx):
        uri = j['uri']
        path, sep, query = uri.partition('?')
        rq = Req(j['method'], path.encode('latin-1'), query.encode('latin-1') if sep else None,
                 [(n, bytes.fromhex(v)) for n, v in j['headers']], bytes.fromhex(j['body_hex']), 'bytes')
        r, _ = run(m, rq, 'us-east-1', 'service', provider_ok(conc_bytes(bytes(32))), instant(T0), None, options(False, bool(j.get('fold'))))
        o = outcome(r)
        return 'ok' if o[0] == 'ok' else o[1]
    engine.explore(prog, body, out.append)
    return out[0].value if out[0].kind == 'ret' else 'panic'


def conformance(prog, rp, seed, tier):
    mism = []
    n = 0
    for case, order in shapes(tier, seed):
        n += 1
        j = concrete_case(case, order, random.Random(seed))
        nk, calls = native_outcome(rp, j)
        mine = mirse_concrete_fold(prog, j)
        if mine != nk:
            mism.append({'case': case, 'order': order, 'mirse': mine, 'native': nk})
    return n, mism


def describe(f):
    return '%s -> %s' % (json.dumps({k: v for k, v in f.inp.items() if k != 'request'}), json.dumps(f.detail, default=str)[:300])


def bounds(tier):
    return ('13 duplicated inputs (Authorization header; Credential / Signature / SignedHeaders inside it; X-Amz-Credential / -Signature / -Date / '
            '-SignedHeaders / -Security-Token query parameters; X-Amz-Signature / X-Amz-Credential in the URL and again in a folded form body; X-Amz-Date twice; X-Amz-Date vs Date; Date twice; two token headers) in both '
            'orders with a symbolic decoy of the same length (any hex string / any digits / any alphanumerics differing from the valid value), '
            'plus the two-carrier request; key 32 symbolic bytes')


OUTSIDE = 'more than two occurrences; decoys of a different length; duplicates of several inputs at once'
NEED_WITNESSES = {'ok', 'refused', 'both:SignatureDoesNotMatch'}
ASSUMPTIONS = ['ideal-hash oracle; the reference signer signs what the documented selection designates']


def main(argv):
    return run_check(sys.modules[__name__], argv)


if __name__ == '__main__':
    sys.exit(main(sys.argv))
