"""C12 — form folding merges URL and body parameters losslessly, otherwise the body is hashed as is.

Decided by MIRSE on `CanonicalRequest::from_request_parts` (+ `canonical_query_string`): URL parameters and
body parameters over a two-letter name alphabet (so names clash) with symbolic value bytes, the folding
option, the content type in several spellings and arbitrary body bytes.  Per path z3 proves:
 folding on, media type exactly application/x-www-form-urlencoded, charset absent or a UTF-8 label =>
   canonical query = reference for URL pairs (+) body pairs (multiset union), payload hash = hash of the
   empty string, returned body empty, returned URI query = that canonical query;
 folding off or another media type => canonical query from the URL only, payload hash over the body verbatim;
 body not decodable as UTF-8 / unknown charset label => InvalidBodyEncoding.
Don't-care (either behaviour accepted): media-type letter-case variants, known non-UTF-8 charsets.
"""
import hashlib
import itertools
import json
import random
import sys

import z3

from .common import *
from .pipeline import *
from . import refmodel as R
from mirse import engine
from mirse import model_http as H
from mirse.model_hash import oracle_of
from mirse.model_misc import hex_encode_elems

PROP = 'C12'
FORM = 'application/x-www-form-urlencoded'
CTYPES = {
    'exact': FORM,
    'utf8': FORM + '; charset=utf-8',
    'UTF8': FORM + ';charset=UTF-8',
    'utf8-alias': FORM + '; charset=utf8',
    'param': FORM + '; boundary=x',
    'param-then-charset': FORM + '; a=b; charset=unicode-1-1-utf-8',
    'unknown-charset': FORM + '; charset=x-nope',
    'other-type': 'text/plain',
    'other-type-charset': 'application/json; charset=utf-8',
    'absent': None,
    'form-extended': FORM + '-v2',
    'form-suffix': FORM + '+json; charset=utf-8',
    'form-x': FORM + 'x',
    'case-variant': 'Application/X-WWW-Form-Urlencoded',
    'latin1': FORM + '; charset=latin1',
    # parameter names of a media type are case-insensitive (RFC 9110 8.3.1; the crate lower-cases them)
    'Charset-unknown': FORM + '; Charset=x-nope',
    'CHARSET-utf8': FORM + ';CHARSET=utf-8',
}
FOLDING = {'exact', 'utf8', 'UTF8', 'utf8-alias', 'param', 'param-then-charset', 'CHARSET-utf8'}
DONTCARE = {'case-variant', 'latin1'}


def shapes(tier, seed):
    out = []
    q = tier == 'quick'
    names = ['a', 'b']
    lay1 = [()] + [((n, 1),) for n in names]
    lay2 = lay1 + [(('a', 1), ('a', 1)), (('a', 1), ('b', 1)), (('b', 0), ('a', 1))]
    for fold in (True, False):
        for ct in CTYPES:
            if ct in DONTCARE:
                continue
            if ct in ('exact', 'utf8'):
                for u in lay2:
                    for b in lay2:
                        out.append(('params', fold, ct, u, b))
            else:
                for u, b in [(lay1[1], lay1[1]), (lay1[1], lay1[2]), ((), lay2[3])]:
                    out.append(('params', fold, ct, u, b))
        # arbitrary body bytes (invalid UTF-8, malformed escapes, separators)
        for n in ((1, 2) if q else (1, 2, 3)):
            for ct in ('exact', 'utf8', 'other-type', 'absent'):
                out.append(('rawbody', fold, ct, n))
    # both options at once (fold == 's3': SignatureOptions { s3: true, url_encode_form: true }): folding is unaffected by the S3 path rules
    for ct in ('exact', 'utf8', 'unknown-charset', 'other-type', 'absent'):
        for u, b in [(lay1[1], lay1[2]), ((), lay2[3])]:
            out.append(('params', 's3', ct, u, b))
        out.append(('rawbody', 's3', ct, 2))
    if not q:
        for u in [(('a', 2),), (('a', 1), ('b', 1), ('a', 1))]:
            for b in [(('a', 2),), (('b', 1), ('a', 1), ('a', 1))]:
                out.append(('params', True, 'exact', u, b))
    return out


def sym_params(ctx, tag, layout):
    """wire bytes and decoded pairs for a list of (name, value_len) parameters with symbolic value bytes."""
    wire = []
    for j, (n, vl) in enumerate(layout):
        if j:
            wire.append(Int('u8', 0x26))
        wire += conc_bytes(n + '=')
        for i in range(vl):
            b = ctx.fresh_bv('%s%d_%d' % (tag, j, i), 8)
            ctx.assume(z3.And(z3.UGT(b, 0x20), z3.ULT(b, 0x7F), b != 0x26, b != 0x23, b != 0x22, b != 0x3C, b != 0x3E, b != 0x60))
            wire.append(Int('u8', b))
    return wire


def run_shape(prog, shape, tier, seed, res):
    kind = shape[0]

    def body(m, ctx):
        fold, ct = shape[1], shape[2]
        if kind == 'params':
            url = sym_params(ctx, 'u', shape[3])
            bod = sym_params(ctx, 'b', shape[4])
        else:
            url = conc_bytes('a=1')
            bod = sym_bytes(ctx, 'rb', shape[3])
        headers = [('host', conc_bytes('h'))]
        if CTYPES[ct] is not None:
            headers.append(('content-type', conc_bytes(CTYPES[ct])))
        rq = Req('POST', b'/p', url if url else None, headers, bod, 'bytes')
        request = rq.build()
        r = m.call('CanonicalRequest::from_request_parts', [request.parts, request.body, options(fold == 's3', bool(fold))], None)
        info = None
        if r.variant == 'Ok':
            cr, parts, rbody = r.fields[0].fields
            cq = m.call('CanonicalRequest::canonical_query_string', [Ptr(Cell(cr), ())], None).elems
            uri = parts.fields[1]
            info = dict(cq=cq, body_sha=cr.fields[4].elems, rbody=rbody.elems, uri_query=uri.query, uri_path=uri.path,
                        sha_calls=[c for c in oracle_of(m).calls if c.kind == 'sha256'])
        return rq, url, bod, r, info

    def on_path(pr):
        ctx = pr.ctx
        res.obligations += 1
        if pr.kind == 'panic':
            res.findings.append(Finding('panic: %s' % pr.value.msg, {'shape': repr(shape)}, None, None, repr(shape)))
            return
        rq, url, bod, r, info = pr.value
        fold, ct = shape[1], shape[2]
        folding = fold and ct in FOLDING

        def fail(what, prop=None):
            sat, model = ctx.satisfiable(None if prop is None else z3.Not(prop))
            if sat:
                res.findings.append(Finding(what, {'request': rq.to_json(model), 'fold': fold}, None, None, repr(shape)))
        # reference
        try:
            upairs = R.ref_query_pairs(ctx, url)
            uerr = None
        except R.RefError as e:
            uerr = e.kind
        if uerr:
            if r.variant != 'Err' or r.fields[0].variant != 'MalformedQueryString':
                fail('malformed URL query not refused as MalformedQueryString')
            else:
                res.witnesses.add('err:MalformedQueryString')
            return
        if fold and ct in ('unknown-charset', 'Charset-unknown'):
            if r.variant != 'Err' or r.fields[0].variant != 'InvalidBodyEncoding':
                fail('unknown charset label not refused as InvalidBodyEncoding')
            else:
                res.witnesses.add('err:InvalidBodyEncoding')
            return
        body_pairs = []
        if folding:
            from mirse.lib_std import utf8_valid
            if not utf8_valid(pr.machine, bod):
                if r.variant != 'Err' or r.fields[0].variant != 'InvalidBodyEncoding':
                    fail('body that is not valid UTF-8 not refused as InvalidBodyEncoding')
                else:
                    res.witnesses.add('err:InvalidBodyEncoding')
                return
            try:
                body_pairs = R.ref_query_pairs(ctx, bod)
            except R.RefError as e:
                if r.variant != 'Err' or r.fields[0].variant not in ('MalformedQueryString', 'InvalidBodyEncoding'):
                    fail('malformed escape in the form body not refused with a 400-class error')
                else:
                    res.witnesses.add('err:body-escape')
                return
        if r.variant != 'Ok':
            fail('well-formed request refused by canonicalisation (%s)' % r.fields[0].variant)
            return
        want_q = R.ref_canon_query_from_pairs(ctx, upairs + body_pairs)
        cq = info['cq']
        res.witnesses.add('folded' if folding else 'not-folded')
        if folding and any(n1 == n2 for (n1, _), (n2, _) in itertools.product(shape[3] if kind == 'params' else (), shape[4] if kind == 'params' else ())):
            res.witnesses.add('folded-clash')
        if len(cq) != len(want_q):
            fail('canonical query drops or invents parameters (length %d, reference %d for URL (+) body multiset)' % (len(cq), len(want_q)))
            return
        prop = zb(bytes_eq(cq, want_q))
        okv, _ = ctx.valid(prop)
        if not okv:
            fail('canonical query is not the reference for the %s' % ('multiset union of URL and body parameters' if folding else 'URL parameters alone'), prop)
            return
        # payload hash
        want_body = [] if folding else list(bod)
        hits = [c for c in info['sha_calls'] if len(c.msg) == len(want_body)]
        okh = False
        for c in hits:
            if ctx.valid(zb(zand(bytes_eq(c.msg, want_body), bytes_eq(info['body_sha'], hex_encode_elems(c.out)))))[0]:
                okh = True
                break
        if not okh:
            fail('payload hash is not the hash of %s' % ('the empty string (folded request)' if folding else 'the body verbatim'))
        # returned body and URI
        if folding:
            if info['rbody']:
                fail('returned body of a folded request is not empty')
            uq = info['uri_query'] or []
            if len(uq) != len(want_q) or not ctx.valid(zb(bytes_eq(uq, want_q)))[0]:
                fail('returned URI query of a folded request is not the merged canonical query')
        else:
            if len(info['rbody']) != len(bod) or not ctx.valid(zb(bytes_eq(info['rbody'], bod)))[0]:
                fail('returned body differs from the submitted body')
        if len(res.samples) < 1:
            sat, model = ctx.satisfiable()
            res.samples.append({'request': rq.to_json(model)['uri'], 'body': model_bytes(model, bod).decode('latin-1'), 'fold': fold, 'ctype': ct})

    engine.explore(prog, body, on_path, stats=res.stats)


# --------------------------------------------------------------------------- concrete side

def native_canon(rp, j, fold):
    r = rp.ask({'op': 'canonical', 'request': j, 'options': {'s3': fold == 's3', 'url_encode_form': bool(fold)}})
    if 'ok' in r:
        o = r['ok']
        return ('ok', o['canonical_query'], o['body_sha256'], o['returned_body_hex'], o['returned_uri'])
    if 'err' in r:
        return ('err', r['err']['kind'])
    return ('panic', json.dumps(r)[:200])


def mirse_canon(prog, j, fold):
    out = []

    def body(m, ctx):
        uri = j['uri']
        path, sep, query = uri.partition('?')
        rq = Req(j['method'], path.encode('latin-1'), query.encode('latin-1') if sep else None,
                 [(n, bytes.fromhex(v)) for n, v in j['headers']], bytes.fromhex(j['body_hex']), 'bytes')
        request = rq.build()
        r = m.call('CanonicalRequest::from_request_parts', [request.parts, request.body, options(fold == 's3', bool(fold))], None)
        if r.variant != 'Ok':
            return ('err', r.fields[0].variant)
        cr, parts, rbody = r.fields[0].fields
        cq = m.call('CanonicalRequest::canonical_query_string', [Ptr(Cell(cr), ())], None).elems
        uri_o = parts.fields[1]
        ru = bytes(e.v for e in uri_o.render()).decode('latin-1')
        return ('ok', bytes(e.v for e in cq).decode('latin-1'), bytes(e.v for e in cr.fields[4].elems).decode(), bytes(e.v for e in rbody.elems).hex(), ru)
    engine.explore(prog, body, out.append)
    pr = out[0]
    return pr.value if pr.kind == 'ret' else ('panic', pr.value.msg)


def ref_concrete(j, fold):
    uri = j['uri']
    _, sep, query = uri.partition('?')
    body = bytes.fromhex(j['body_hex'])
    ct = None
    for n, v in j['headers']:
        if n == 'content-type':
            ct = bytes.fromhex(v).decode('latin-1')
    ctx = RefCtx()
    try:
        pairs = R.ref_query_pairs(ctx, conc_bytes(query.encode('latin-1')))
    except R.RefError as e:
        return ('err', e.kind)
    folding = False
    if fold and ct is not None:
        parts = [p.strip() for p in ct.split(';')]
        if parts[0] == FORM:
            cs = None
            for p in parts[1:]:
                k, _, v = p.partition('=')
                if k.strip().lower() == 'charset' and _:
                    cs = v
                    break
            if cs is None or cs.strip().lower() in ('utf-8', 'utf8', 'unicode-1-1-utf-8'):
                folding = True
            elif cs.strip().lower() == 'x-nope':
                return ('err', 'InvalidBodyEncoding')
            else:
                return ('dontcare',)
        elif parts[0].lower() == FORM:
            return ('dontcare',)
    if folding:
        try:
            body.decode('utf-8')
        except UnicodeDecodeError:
            return ('err', 'InvalidBodyEncoding')
        try:
            pairs = pairs + R.ref_query_pairs(ctx, conc_bytes(body))
        except R.RefError as e:
            return ('err', 'MalformedQueryString|InvalidBodyEncoding')
    cq = bytes(e.v for e in R.ref_canon_query_from_pairs(ctx, pairs)).decode('latin-1')
    return ('ok', cq, hashlib.sha256(b'' if folding else body).hexdigest(), '' if folding else body.hex(), folding)


def replay_finding(rp, f):
    if 'request' not in f.inp:
        return False, None
    j, fold = f.inp['request'], f.inp['fold']
    nat = native_canon(rp, j, fold)
    ref = ref_concrete(j, fold)
    if ref[0] == 'dontcare':
        return False, {'native': nat, 'reference': ref}
    if nat[0] == 'panic':
        return True, {'native': nat, 'reference': ref}
    if ref[0] == 'err':
        bad = nat[0] != 'err' or nat[1] not in ref[1].split('|')
        return bad, {'native': nat, 'reference': ref}
    bad = nat[0] != 'ok' or nat[1] != ref[1] or nat[2] != ref[2] or nat[3] != ref[3]
    if not bad and ref[4]:
        bad = nat[4].partition('?')[2] != ref[1]
    return bad, {'native': nat, 'reference': ref}


def conformance(prog, rp, seed, tier):
    rnd = random.Random(seed)
    mism = []
    n = 0
    qs = ['', 'a=1', 'b=2&a=1', 'a=%20', 'x']
    bodies = [b'', b'a=2', b'c=3&a=4', b'a=%zz', b'\xff\xfe', b'name=v+w', b'a']
    for _ in range(40 if tier == 'quick' else 250):
        n += 1
        ct = rnd.choice(list(CTYPES))
        fold = rnd.random() < 0.7
        if ct == 'latin1':
            continue
        headers = [['host', b'h'.hex()]]
        if CTYPES[ct] is not None:
            headers.append(['content-type', CTYPES[ct].encode().hex()])
        q = rnd.choice(qs)
        j = {'method': 'POST', 'uri': '/p' + ('?' + q if q else ''), 'version': 'HTTP/1.1', 'headers': headers,
             'body_hex': rnd.choice(bodies).hex(), 'body_kind': 'bytes'}
        a = mirse_canon(prog, j, fold)
        b = native_canon(rp, j, fold)
        if a != b:
            mism.append({'request': j, 'fold': fold, 'mirse': a, 'native': b})
    return n, mism


def describe(f):
    return '%s -> %s' % (json.dumps(f.inp)[:500], json.dumps(f.detail, default=str)[:500])


def bounds(tier):
    return ('URL and body parameter lists of <= 2 parameters each over the names {a, b} (all clash patterns) with one symbolic value byte '
            '(any visible ASCII, hence malformed escapes and +), both option values, 13 content-type spellings (exact, three UTF-8 charset labels, '
            'other parameters, unknown charset, two other media types, three media types that merely start with the form type, absent); arbitrary body byte strings of length <= %d (all 256 values: '
            'invalid UTF-8, separators, escapes)' % (2 if tier == 'quick' else 3))


OUTSIDE = 'longer parameter lists / values; media-type case variants and known non-UTF-8 charsets (don\'t-care by the property\'s wording)'
NEED_WITNESSES = {'folded', 'folded-clash', 'not-folded', 'err:InvalidBodyEncoding'}
ASSUMPTIONS = ['encoding crate: UTF-8 strict decoding is exact UTF-8 validation; label table read from the crate source; other decoders not modelled',
               'SHA-256 as ideal hash']


def main(argv):
    return run_check(sys.modules[__name__], argv)


if __name__ == '__main__':
    sys.exit(main(sys.argv))
