"""MIRSE core: path context (decision replay + z3) and the MIR interpreter."""
import re
import sys
import time
import z3

from . import mirparse as mp
from .values import *

sys.setrecursionlimit(20000)


# =============================================================================
# Path context

import os as _os
CROSS_EVERY = int(_os.environ.get('MIRSE_CROSS_EVERY', '0') or 0)
# single-byte decision shortcut (see Ctx._byte_shortcut): opt-in per spec, because tabulating and scanning the admitted values costs
# more than it saves where most decisions involve several symbols (C09-C11: 3-5x slower with it)
BYTE_SHORTCUT = False


class Infeasible(Exception):
    """Raised when an `assume` makes the current path infeasible."""


class Ctx:
    """One execution path.  Decisions are replayed from `prefix`; new symbolic branches
    are decided with z3 and unexplored siblings are queued in `self.siblings`."""

    def __init__(self, prefix=(), stats=None, timeout_ms=60000):
        self.prefix = list(prefix)
        self.decisions = []
        self.siblings = []
        self.solver = z3.Solver()
        self.solver.set('timeout', timeout_ms)
        self.pc = []
        self.nfresh = 0
        self.stats = stats if stats is not None else {}
        self.events = []
        self.inconclusive = None
        self.model = None
        self.byte_sets = {}

    # ---- statistics
    def _stat(self, k, d=1):
        self.stats[k] = self.stats.get(k, 0) + d

    def _check(self, *assumptions):
        t = time.time()
        r = self.solver.check(*assumptions)
        self._stat('solver_s', time.time() - t)
        self._stat('queries')
        if r == z3.unknown:
            raise Unsupported('solver returned unknown: %s' % self.solver.reason_unknown())
        return r

    # ---- symbols
    def fresh_bv(self, name, bits):
        self.nfresh += 1
        return z3.BitVec('%s!%d' % (name, self.nfresh), bits)

    def fresh_int(self, name):
        self.nfresh += 1
        return z3.Int('%s!%d' % (name, self.nfresh))

    def fresh_bool(self, name):
        self.nfresh += 1
        return z3.Bool('%s!%d' % (name, self.nfresh))

    def assume(self, cond):
        if cond is True:
            return
        if cond is False:
            raise Infeasible()
        cond = z3.simplify(cond)
        if z3.is_true(cond):
            return
        if z3.is_false(cond):
            raise Infeasible()
        self.solver.add(cond)
        self.pc.append(cond)
        if self.model is not None and not z3.is_true(self.model.eval(cond, model_completion=True)):
            self.model = None
        # assumptions over a single 8-bit symbol (alphabets of symbolic bytes): remember the admitted values, so that later
        # decisions about that byte alone can be taken by evaluation instead of by a solver call (see _byte_shortcut)
        v = self._single_byte_var(cond) if BYTE_SHORTCUT else None
        if v is not None:
            old = self.byte_sets.get(v.get_id())
            cand = old[1] if old else range(256)
            allowed = frozenset(k for k in cand if z3.is_true(z3.simplify(z3.substitute(cond, (v, z3.BitVecVal(k, 8))))))
            self.byte_sets[v.get_id()] = (v, allowed)

    @staticmethod
    def _single_byte_var(t, limit=200):
        """The only uninterpreted constant of term t if it is an 8-bit bit-vector (and t is small), else None."""
        found = None
        stack = [t]
        seen = 0
        while stack:
            x = stack.pop()
            seen += 1
            if seen > limit:
                return None
            if z3.is_const(x) and x.decl().kind() == z3.Z3_OP_UNINTERPRETED:
                if not z3.is_bv(x) or x.size() != 8:
                    return None
                if found is None:
                    found = x
                elif not found.eq(x):
                    return None
            else:
                stack.extend(x.children())
        return found

    def _byte_shortcut(self, cond):
        """True / False if `cond` speaks about one symbolic byte whose admitted values (a superset of the feasible ones) all agree
        on it; None otherwise.  Sound: agreement over a superset is agreement over the feasible values."""
        if not self.byte_sets:
            return None
        v = self._single_byte_var(cond)
        if v is None:
            return None
        ent = self.byte_sets.get(v.get_id())
        if ent is None or not ent[0].eq(v) or not ent[1] or len(ent[1]) > 128:
            return None
        res = None
        for k in ent[1]:
            r = z3.simplify(z3.substitute(cond, (v, z3.BitVecVal(k, 8))))
            b = True if z3.is_true(r) else False if z3.is_false(r) else None
            if b is None or (res is not None and b != res):
                return None
            res = b
        self._stat('byte_shortcuts')
        return res

    # ---- branching
    def branch(self, cond):
        """Decide a (possibly symbolic) condition on this path."""
        if cond is True or cond is False:
            return cond
        if isinstance(cond, bool):
            return cond
        cond = z3.simplify(cond)
        if z3.is_true(cond):
            return True
        if z3.is_false(cond):
            return False
        pos = len(self.decisions)
        if pos < len(self.prefix):
            d = self.prefix[pos]
            self.decisions.append(d)
            c = cond if d else z3.Not(cond)
            self.solver.add(c)
            self.pc.append(c)
            self.model = None
            return d
        ncond = z3.Not(cond)
        mt = mf = None
        can_t = can_f = None
        sb = self._byte_shortcut(cond)
        if sb is not None:
            can_t, can_f = sb, (not sb)
            mt = mf = self.model if (self.model is not None and z3.is_true(self.model.eval(cond if sb else ncond, model_completion=True))) else None
        elif self.model is not None:
            mv = self.model.eval(cond, model_completion=True)
            if z3.is_true(mv):
                can_t, mt = True, self.model
            elif z3.is_false(mv):
                can_f, mf = True, self.model
        if can_t is None:
            can_t = self._check(cond) == z3.sat
            if can_t:
                mt = self.solver.model()
        if can_f is None:
            can_f = self._check(ncond) == z3.sat
            if can_f:
                mf = self.solver.model()
        if can_t and can_f:
            self.siblings.append(self.decisions + [False])
            d = True
            self._stat('forks')
        elif can_t:
            d = True
        elif can_f:
            d = False
        else:
            raise Infeasible()
        self.decisions.append(d)
        self.model = mt if d else mf
        c = cond if d else ncond
        if can_t and can_f:
            self.solver.add(c)
            self.pc.append(c)
        return d

    def pick(self, n, label='pick'):
        """Nondeterministic choice of an integer in range(n) (not solver-related)."""
        if n <= 1:
            return 0
        # encoded in unary over boolean decisions: "is it i?" for i in 0..n-2
        for i in range(n - 1):
            pos = len(self.decisions)
            if pos < len(self.prefix):
                d = self.prefix[pos]
                self.decisions.append(d)
            else:
                self.siblings.append(self.decisions + [False])
                d = True
                self.decisions.append(True)
                self._stat('forks')
            if d:
                return i
        return n - 1

    def concretize(self, iv, candidates=None):
        """Fork until a symbolic Int has a concrete value on this path."""
        if not iv.sym:
            return iv.v
        bits = BITS[iv.ty]
        if candidates is not None:
            for c in candidates:
                if self.branch(iv.v == z3.BitVecVal(c, bits)):
                    return c
            raise Infeasible()
        while True:
            if self._check() != z3.sat:
                raise Infeasible()
            mv = self.solver.model().eval(iv.v, model_completion=True).as_long()
            if self.branch(iv.v == z3.BitVecVal(mv, bits)):
                return wrap(iv.ty, mv)

    # ---- queries
    def valid(self, prop):
        """Is `prop` valid under the path condition?  Returns (True, None) or (False, model)."""
        if prop is True:
            return True, None
        if prop is False:
            prop = z3.BoolVal(False)
        self.solver.push()
        try:
            self.solver.add(z3.Not(prop))
            r = self._check()
            self._stat('validity_queries')
            if CROSS_EVERY and self.stats.get('validity_queries', 0) % CROSS_EVERY == 0:
                self._cross_check(r)
            if r == z3.unsat:
                return True, None
            return False, self.solver.model()
        finally:
            self.solver.pop()

    def _cross_check(self, r):
        """Second opinion on a deciding query: the solver state (path condition + negated obligation) is exported as SMT-LIB2 and
        given to cvc5 (and to the system z3 4.8.12, another code base than the 5.x Python binding).  A definite answer that
        differs makes the run inconclusive; timeouts / unknowns of the second solver are counted, not trusted."""
        import subprocess
        text = '(set-logic ALL)\n' + self.solver.to_smt2()
        want = 'unsat' if r == z3.unsat else 'sat'
        for name, cmd in (('cvc5', ['cvc5', '--lang', 'smt2', '--tlimit', '20000']), ('z3-4.8', ['/usr/bin/z3', '-in', '-T:20'])):
            t = time.time()
            try:
                p = subprocess.run(cmd, input=text.encode(), stdout=subprocess.PIPE, stderr=subprocess.PIPE, timeout=40)
                out = p.stdout.decode('utf-8', 'replace')
            except Exception as e:
                out = 'error: %r' % (e,)
            self._stat('cross_s', time.time() - t)
            first = out.strip().split('\n')[0].strip() if out.strip() else ''
            if '(error' in out or first not in ('sat', 'unsat'):
                self._stat('cross_%s_inconclusive' % name)
                continue
            self._stat('cross_%s_checked' % name)
            if first != want:
                raise Unsupported('solver disagreement on a deciding query: z3 (Python binding) says %s, %s says %s' % (want, name, first))

    def satisfiable(self, prop=None):
        self.solver.push()
        try:
            if prop is not None:
                self.solver.add(prop)
            r = self._check()
            if r == z3.sat:
                return True, self.solver.model()
            return False, None
        finally:
            self.solver.pop()


class MergeCtx:
    """Sub-context used to explore a pure scalar function exhaustively and merge the
    results into an if-then-else term instead of forking the enclosing path."""

    def __init__(self, parent, prefix):
        self.parent = parent
        self.prefix = prefix
        self.decisions = []
        self.conds = []
        self.siblings = []
        self.stats = parent.stats
        self.events = parent.events

    def fresh_bv(self, name, bits):
        return self.parent.fresh_bv(name, bits)

    def fresh_int(self, name):
        return self.parent.fresh_int(name)

    def assume(self, cond):
        raise Unsupported('assume inside merged function')

    def pick(self, n, label='pick'):
        raise Unsupported('pick inside merged function')

    def concretize(self, iv, candidates=None):
        raise Unsupported('concretize inside merged function')

    def branch(self, cond):
        if isinstance(cond, bool):
            return cond
        cond = z3.simplify(cond)
        if z3.is_true(cond):
            return True
        if z3.is_false(cond):
            return False
        pos = len(self.decisions)
        s = self.parent.solver
        if pos < len(self.prefix):
            d = self.prefix[pos]
        else:
            can_t = self.parent._check(cond) == z3.sat
            can_f = self.parent._check(z3.Not(cond)) == z3.sat
            if can_t and can_f:
                self.siblings.append(self.decisions + [False])
                d = True
            elif can_t:
                d = True
            elif can_f:
                d = False
            else:
                raise Infeasible()
        self.decisions.append(d)
        c = cond if d else z3.Not(cond)
        s.add(c)
        self.conds.append(c)
        return d


# =============================================================================
# callee name analysis

def _strip_refs(t):
    t = t.strip()
    while True:
        if t.startswith('&'):
            t = t[1:].lstrip()
            if t.startswith("'"):
                sp = t.find(' ')
                t = t[sp + 1:] if sp >= 0 else t
            if t.startswith('mut '):
                t = t[4:]
            continue
        if t.startswith('*const '):
            t = t[7:]
            continue
        if t.startswith('*mut '):
            t = t[5:]
            continue
        if t.startswith('dyn '):
            t = t[4:]
            continue
        if t.startswith('impl '):
            t = t[5:]
            continue
        break
    return t.strip()


def type_base(t):
    """Base name of a type: `std::vec::Vec<u8>` -> `Vec`, `&[u8]` -> `slice`, `[u8; 4]` -> `array`."""
    t = _strip_refs(t)
    if not t:
        return ''
    if t.startswith('(dyn') or t.startswith('dyn'):
        return 'dyn'
    if t.startswith('['):
        inner = t[1:mp.match_close(t, 0)]
        return 'array' if mp.find_top(inner, ';') >= 0 else 'slice'
    if t.startswith('('):
        return '()' if t == '()' else 'tuple'
    if t.startswith('{'):
        return t
    # cut generics
    lt = mp.find_top(t, '<')
    if lt > 0:
        t = t[:lt]
    if t.endswith('::'):
        t = t[:-2]
    return t.rsplit('::', 1)[-1]


class Callee:
    __slots__ = ('raw', 'self_ty', 'self_base', 'trait', 'trait_base', 'method', 'generics', 'segs')

    def __repr__(self):
        return 'Callee(%s|%s|%s)' % (self.self_base, self.trait_base, self.method)


_callee_cache = {}


def parse_callee(s):
    c = _callee_cache.get(s)
    if c is not None:
        return c
    c = Callee()
    c.raw = s
    c.self_ty = c.trait = None
    c.generics = None
    rest = s
    segs = []
    if s.startswith('<'):
        close = mp.match_close(s, 0)
        inner = s[1:close]
        ai = mp.find_top(inner, ' as ')
        if ai >= 0:
            c.self_ty = inner[:ai]
            c.trait = inner[ai + 4:]
        else:
            c.self_ty = inner
        rest = s[close + 1:]
        if rest.startswith('::'):
            rest = rest[2:]
    # split rest on top-level '::'
    parts = []
    last = 0
    i = 0
    for idx, ch, d in mp.scan(rest):
        if ch == ':' and d == 0 and rest.startswith('::', idx) and idx >= last:
            if idx > last or idx == 0:
                parts.append(rest[last:idx])
            last = idx + 2
    parts.append(rest[last:])
    parts = [p for p in parts if p != '']
    names = []
    for p in parts:
        if p.startswith('<impl '):
            c.self_ty = p[6:-1]
        elif p.startswith('<'):
            if names:
                c.generics = p[1:-1]
        else:
            names.append(p)
            c.generics = None
    c.segs = names
    c.method = names[-1] if names else ''
    if c.self_ty is None and len(names) >= 2:
        c.self_ty = names[-2]
    c.self_base = type_base(c.self_ty) if c.self_ty else None
    c.trait_base = type_base(c.trait) if c.trait else None
    _callee_cache[s] = c
    return c


# =============================================================================
# enum tables

STD_ENUMS = {
    'Option': ['None', 'Some'],
    'Result': ['Ok', 'Err'],
    'Cow': ['Borrowed', 'Owned'],
    'Poll': ['Ready', 'Pending'],
    'ControlFlow': ['Continue', 'Break'],
    'LocalResult': ['Single', 'Ambiguous', 'None'],
    'MappedLocalTime': ['Single', 'Ambiguous', 'None'],
    'Entry': ['Occupied', 'Vacant'],
    'AssertKind': ['Eq', 'Ne', 'Match'],
}
# enums with explicit discriminant values
ENUM_VALUES = {
    'Level': {'Error': 1, 'Warn': 2, 'Info': 3, 'Debug': 4, 'Trace': 5},
    'LevelFilter': {'Off': 0, 'Error': 1, 'Warn': 2, 'Info': 3, 'Debug': 4, 'Trace': 5},
    'Ordering': {'Less': -1, 'Equal': 0, 'Greater': 1},
}


def parse_source_enums(srcdir):
    """Read `enum X { A, B(..), C { .. } }` declarations from the crate sources."""
    import glob
    import os
    out = {}
    for path in glob.glob(os.path.join(srcdir, '*.rs')):
        txt = open(path).read()
        for m in re.finditer(r'\benum\s+(\w+)\s*(?:<[^>{]*>)?\s*\{', txt):
            name = m.group(1)
            i = m.end()
            depth = 1
            j = i
            while j < len(txt) and depth:
                if txt[j] in '{([':
                    depth += 1
                elif txt[j] in '})]':
                    depth -= 1
                j += 1
            body = txt[i:j - 1]
            # remove comments and attributes
            body = re.sub(r'//[^\n]*', '', body)
            body = re.sub(r'/\*.*?\*/', '', body, flags=re.S)
            body = re.sub(r'#\[[^\]]*\]', '', body)
            variants = []
            d = 0
            cur = ''
            for ch in body:
                if ch in '({[':
                    d += 1
                elif ch in ')}]':
                    d -= 1
                elif ch == ',' and d == 0:
                    variants.append(cur)
                    cur = ''
                    continue
                if d == 0 or ch in '({[':
                    cur += ch
            variants.append(cur)
            vs = []
            for v in variants:
                mm = re.match(r'\s*(\w+)', v)
                if mm:
                    vs.append(mm.group(1))
            if vs and name not in out:
                out[name] = vs
    return out


# =============================================================================
# The machine

class Frame:
    __slots__ = ('fn', 'cells')

    def __init__(self, fn):
        self.fn = fn
        self.cells = {}


class FnDef:
    __slots__ = ('fn', 'self_base', 'trait_base', 'method', 'arg_bases', 'has_self')


class Machine:
    def __init__(self, prog, srcdir='/repo/src'):
        self.prog = prog
        self.srcdir = srcdir
        self.enums = dict(STD_ENUMS)
        self.enums.update(parse_source_enums(srcdir))
        self.ctx = None
        self.lib = {}             # summaries: name -> handler
        self.lib_method = {}      # method-name fallbacks
        self.defs_by_method = {}
        self.closure_defs = {}    # '{closure@...}' text -> Fn
        self.lazy_inits = {}      # static name -> initializer Fn
        self.static_cells = {}
        self.const_cache = {}
        self.steps = 0
        self.max_steps = 5_000_000
        self.trace = None         # optional list collecting (fn name, bb) for C07
        self.fns_executed = set()
        self.summaries_used = set()
        self.log_records = []
        self.log_max_level = 0    # LevelFilter::Off
        self.hash_order = 'first'
        self.merge_scalar = True
        self._index_defs()
        from . import lib_std
        lib_std.install(self)
        lib_std.install2(self)
        lib_std.install3(self)
        lib_std.install4(self)

    def reset(self):
        """Forget all per-path state (the static indexes and summaries are kept)."""
        self.ctx = None
        self.static_cells = {}
        self.steps = 0
        self.trace = None
        self.fns_executed = set()
        self.summaries_used = set()
        self.log_records = []
        self.log_max_level = 0
        self.hash_order = 'first'
        for k in [k for k in self.__dict__ if k.startswith('x_')]:
            del self.__dict__[k]

    # ------------------------------------------------------------ definitions
    def _src_line(self, file, l1, c1, l2, c2):
        import os
        path = file if os.path.isabs(file) else os.path.join(os.path.dirname(self.srcdir.rstrip('/')), file)
        try:
            lines = open(path).read().split('\n')
        except OSError:
            return None
        if l1 == l2:
            return lines[l1 - 1][c1 - 1:c2 - 1]
        seg = [lines[l1 - 1][c1 - 1:]] + lines[l1:l2 - 1] + [lines[l2 - 1][:c2 - 1]]
        return ' '.join(seg)

    def _impl_info(self, name):
        """For `mod::<impl at FILE:L:C: L:C>::method` return (self_base, trait_base) or None."""
        m = re.search(r'<impl at ([^>]*?):(\d+):(\d+): (\d+):(\d+)>', name)
        if not m:
            return None
        file = m.group(1)
        if not file.startswith('src/') and 'lazy_static' in file:
            return None
        txt = self._src_line(file, int(m.group(2)), int(m.group(3)), int(m.group(4)), int(m.group(5)))
        if txt is None:
            return None
        txt = txt.strip()
        if '$' in txt:
            return None       # inside a macro definition: fall back to the signature
        if txt.startswith('impl'):
            t = txt[4:].strip()
            if t.startswith('<'):
                t = t[mp.match_close(t, 0) + 1:].strip()
            if t.endswith('{'):
                t = t[:-1].strip()
            wi = mp.find_top(t, ' where ')
            if wi >= 0:
                t = t[:wi]
            fi = mp.find_top(t, ' for ')
            if fi >= 0:
                return type_base(t[fi + 5:]), type_base(t[:fi])
            return type_base(t), None
        # derive: txt is the derive name (Debug, Clone, Builder, ...)
        return None, ('derive', txt)

    def _index_defs(self):
        prev_deref_self = None
        for f in self.prog.fns:
            d = FnDef()
            d.fn = f
            name = f.name
            d.method = name.rsplit('::', 1)[-1]
            d.arg_bases = [type_base(t) for _, t in f.params]
            d.has_self = 'self' in f.debug_names or '__self_0' in f.debug_names or (
                bool(f.params) and f.debug_names.get('self') == '_1')
            d.self_base = None
            d.trait_base = None
            if d.method.startswith('{closure#') or d.method.startswith('{constant#'):
                if f.params:
                    t = _strip_refs(f.params[0][1])
                    if t.startswith('Pin<'):
                        t = _strip_refs(t[4:-1])
                    self.closure_defs.setdefault(t, f)
                self.defs_by_method.setdefault(name, []).append(d)
                continue
            info = self._impl_info(name)
            sig_self = None
            if f.debug_names.get('self') == '_1' or f.debug_names.get('__self_0'):
                sig_self = d.arg_bases[0] if d.arg_bases else None
            elif f.params and re.search(r'lazy_static', name):
                sig_self = d.arg_bases[0]
            if info and info[0] is not None:
                d.self_base, d.trait_base = info
            elif info:
                # derive
                dn = info[1][1]
                d.trait_base = None if dn == 'Builder' else dn
                if sig_self:
                    d.self_base = sig_self
                elif f.debug_names.get('self'):
                    d.self_base = d.arg_bases[0]
                else:
                    rb = type_base(f.ret_ty)
                    if rb in ('Result', 'Option'):
                        # e.g. fmt -> Result<(), Error>: self is first param
                        rb = d.arg_bases[0] if d.arg_bases else rb
                    d.self_base = rb
                if d.method in ('fmt', 'clone', 'eq', 'ne', 'build', 'assert_fields_are_eq') and d.arg_bases:
                    d.self_base = d.arg_bases[0]
                if d.method == 'fmt':
                    # Debug vs Display for derive(Builder) error enums: Display has write_str/ write_fmt of message
                    d.trait_base = dn if dn != 'Builder' else None
            else:
                if '<impl at' in name and f.params:
                    d.self_base = d.arg_bases[0]
                    if d.method == 'deref':
                        d.trait_base = 'Deref'
                        prev_deref_self = d.self_base
                elif '::' in name:
                    d.self_base = type_base(name.rsplit('::', 1)[0])
            if d.method in ('__static_ref_initialize', '__stability') and prev_deref_self and '::deref::' in name:
                d.self_base = prev_deref_self
                d.trait_base = 'Deref'
                if d.method == '__static_ref_initialize':
                    self.lazy_inits[prev_deref_self] = f
            self.defs_by_method.setdefault(d.method, []).append(d)

    def resolve_local(self, c, args):
        """Find the crate-local function for a parsed callee, or None."""
        cands = self.defs_by_method.get(c.method)
        if not cands:
            return None
        if c.self_base is None:
            frees = [d for d in cands if d.self_base is None or '<impl' not in d.fn.name and '::' not in d.fn.name]
            if len(frees) == 1:
                return frees[0].fn
            if len(cands) == 1 and cands[0].self_base is None:
                return cands[0].fn
            exact = [d for d in cands if d.fn.name == c.raw or d.fn.name.endswith('::' + c.method) and d.self_base is None]
            if len(exact) == 1:
                return exact[0].fn
            return frees[0].fn if frees else None
        sb = c.self_base
        sel = [d for d in cands if d.self_base == sb]
        if not sel and args:
            rt = self.runtime_type(args[0])
            if rt:
                sel = [d for d in cands if d.self_base == rt]
        if not sel:
            return None
        if c.trait_base:
            st = [d for d in sel if d.trait_base == c.trait_base]
            if st:
                sel = st
            else:
                st = [d for d in sel if d.trait_base is None]
                if st and c.trait_base in ('From', 'Into', 'Default', 'Clone', 'Debug', 'Display', 'PartialEq'):
                    sel = st
        if len(sel) > 1 and c.trait and c.method in ('from',):
            # <X as From<Y>>::from: match the parameter type
            g = c.trait[c.trait.index('<') + 1:-1] if '<' in c.trait else None
            if g:
                gb = type_base(g)
                st = [d for d in sel if d.arg_bases and d.arg_bases[0] == gb]
                if st:
                    sel = st
        if len(sel) > 1:
            # prefer same arity
            st = [d for d in sel if len(d.fn.params) == len(args)]
            if st:
                sel = st
        if len(sel) > 1 and c.method == 'fmt' and c.trait_base:
            st = [d for d in sel if d.trait_base == c.trait_base]
            if st:
                sel = st
        return sel[0].fn

    def runtime_type(self, v):
        if isinstance(v, Ptr):
            try:
                v = self.load(v)
            except Exception:
                return None
        if isinstance(v, Adt):
            return v.name
        if isinstance(v, Int):
            return v.ty
        if isinstance(v, (bool, z3.BoolRef)):
            return 'bool'
        if isinstance(v, VecObj):
            return {'vec': 'Vec', 'string': 'String', 'bytes': 'Bytes'}[v.kind]
        if isinstance(v, Tuple) and not v.fields:
            return '()'
        if isinstance(v, Opaque):
            return v.kind
        if hasattr(v, 'rust_type'):
            return v.rust_type
        return None

    # ------------------------------------------------------------ memory
    def _nav(self, root, path):
        obj = root.v if isinstance(root, Cell) else root
        variant = None
        for st in path:
            k = st[0]
            if k == 'f':
                i = st[1]
                if isinstance(obj, (Tuple, Adt, Closure)):
                    obj = obj.fields[i]
                elif isinstance(obj, Coroutine):
                    obj = obj.saved[(variant, i)] if variant is not None else obj.fields[i]
                elif isinstance(obj, BoxObj) and i == 0:
                    obj = obj
                else:
                    raise Unsupported('field %d of %r' % (i, type(obj).__name__))
                variant = None
            elif k == 'v':
                variant = st[1]
            elif k == 'i':
                obj = obj.elems[st[1]]
            elif k == 'box':
                obj = obj.cell.v
            else:
                raise Unsupported('nav step %r' % (st,))
        return obj

    def load(self, p):
        if p.meta is not None:
            raise Unsupported('load of unsized place')
        if p.path and p.path[-1][0] == 'si':
            # symbolic index: ite over the admissible range
            _, start, ln, idx = p.path[-1]
            cont = self._nav(p.root, p.path[:-1])
            elems = cont.elems[start:start + ln]
            if not elems:
                raise Panic('index out of bounds (empty)')
            res = elems[-1]
            bits = BITS['usize']
            for k in range(len(elems) - 2, -1, -1):
                res = self.ite(idx == z3.BitVecVal(k, bits), elems[k], res)
            return res
        return self._nav(p.root, p.path)

    def store(self, p, v):
        if p.meta is not None:
            raise Unsupported('store to unsized place')
        if not p.path:
            if isinstance(p.root, Cell):
                p.root.v = v
            else:
                raise Unsupported('store to heap object root')
            return
        parent = self._nav(p.root, p.path[:-1])
        st = p.path[-1]
        k = st[0]
        variant = None
        if k == 'f' and len(p.path) >= 2 and p.path[-2][0] == 'v':
            variant = p.path[-2][1]
        if k == 'f':
            if isinstance(parent, Coroutine):
                if variant is not None:
                    parent.saved[(variant, st[1])] = v
                else:
                    parent.fields[st[1]] = v
            else:
                while len(parent.fields) <= st[1]:
                    parent.fields.append(None)
                parent.fields[st[1]] = v
        elif k == 'i':
            parent.elems[st[1]] = v
        elif k == 'box':
            parent.cell.v = v
        elif k == 'si':
            _, start, ln, idx = st
            iv = self.ctx.concretize(Int('usize', idx), list(range(ln)))
            parent.elems[start + iv] = v
        elif k == 'v':
            raise Unsupported('store to downcast')
        else:
            raise Unsupported('store step %r' % (st,))

    def ite(self, c, a, b):
        if c is True:
            return a
        if c is False:
            return b
        if isinstance(a, Int) and isinstance(b, Int):
            if not a.sym and not b.sym and a.v == b.v:
                return a
            return Int(a.ty, z3.If(c, a.z(), b.z()))
        if isinstance(a, (bool, z3.BoolRef)) and isinstance(b, (bool, z3.BoolRef)):
            return z3.If(c, zb(a), zb(b))
        if isinstance(a, Array) and isinstance(b, Array) and len(a.elems) == len(b.elems):
            return Array([self.ite(c, x, y) for x, y in zip(a.elems, b.elems)])
        if isinstance(a, Tuple) and isinstance(b, Tuple) and len(a.fields) == len(b.fields):
            return Tuple([self.ite(c, x, y) for x, y in zip(a.fields, b.fields)])
        raise Unsupported('ite over %s/%s' % (type(a).__name__, type(b).__name__))

    # ------------------------------------------------------------ places
    def place_ptr(self, fr, pl):
        cell = fr.cells.get(pl.local)
        if cell is None:
            cell = fr.cells[pl.local] = Cell(None)
        p = Ptr(cell, ())
        for pr in pl.proj:
            k = pr[0]
            if k == 'deref':
                v = self.load(p)
                if isinstance(v, Ptr):
                    p = v
                elif isinstance(v, BoxObj):
                    p = Ptr(v.cell, ())
                else:
                    raise Unsupported('deref of %s in %s' % (type(v).__name__, fr.fn.name))
            elif k == 'field':
                if p.meta is not None:
                    raise Unsupported('field of slice')
                p = p.step(('f', pr[1]))
            elif k == 'downcast':
                p = p.step(('v', pr[1]))
            elif k == 'index':
                iv = fr.cells[pr[1]].v
                p = self._index(p, iv)
            elif k == 'cindex':
                _, off, from_end, minlen = pr
                if p.meta is not None:
                    _, start, ln = p.meta
                    idx = start + (ln - off if from_end else off)
                    p = Ptr(p.root, p.path + (('i', idx),), None, p.mut)
                else:
                    cont = self.load(p)
                    n = len(cont.elems)
                    p = p.step(('i', n - off if from_end else off))
            elif k == 'subslice':
                _, frm, from_end, to = pr
                if p.meta is not None:
                    kind, start, ln = p.meta
                    if from_end:
                        p = Ptr(p.root, p.path, (kind, start + frm, ln - frm - to), p.mut)
                    else:
                        p = Ptr(p.root, p.path, (kind, start + frm, to - frm), p.mut)
                else:
                    cont = self.load(p)
                    n = len(cont.elems)
                    if from_end:
                        p = Ptr(p.root, p.path, ('slice', frm, n - frm - to), p.mut)
                    else:
                        p = Ptr(p.root, p.path, ('slice', frm, to - frm), p.mut)
            else:
                raise Unsupported('projection %r' % (pr,))
        return p

    def _index(self, p, iv):
        if p.meta is not None:
            _, start, ln = p.meta
        else:
            cont = self.load(p)
            start, ln = 0, len(cont.elems)
        if iv.sym:
            return Ptr(p.root, p.path + (('si', start, ln, iv.v),), None, p.mut)
        if not (0 <= iv.v < ln):
            raise Panic('index out of bounds: the len is %d but the index is %d' % (ln, iv.v))
        return Ptr(p.root, p.path + (('i', start + iv.v),), None, p.mut)

    # ------------------------------------------------------------ constants
    def eval_const(self, fr, c):
        k = c[0]
        if k == 'int':
            return Int(c[1], c[2])
        if k == 'bool':
            return c[1]
        if k == 'unit':
            return unit()
        if k == 'str':
            return Ptr(Buf(c[1]), (), ('str', 0, len(c[1])))
        if k == 'bstr':
            # &[u8; N]
            return Ptr(Cell(Array([Int('u8', b) for b in c[1]])), ())
        if k == 'alloc':
            target = c[1].lstrip('&')
            return Ptr(self.static_cell(target), ())
        if k == 'named':
            return self.named_const(fr, c[1])
        raise Unsupported('const %r' % (c,))

    def static_cell(self, name):
        cell = self.static_cells.get(name)
        if cell is None:
            f = self.prog.consts.get(name)
            if f is None:
                cands = [x for x in self.prog.consts.values() if x.kind == 'static' and (x.name.endswith(name) or name.endswith(x.name))]
                f = cands[0] if len(cands) == 1 else None
            if f is not None and f.kind == 'static':
                cell = Cell(self.run_body(f, []))
            else:
                cell = Cell(Adt(name, None, []))
            self.static_cells[name] = cell
        return cell

    def named_const(self, fr, name):
        # promoted of the current function
        m = re.search(r'::promoted\[(\d+)\]$', name)
        if m:
            key = fr.fn.name + '::promoted[%s]' % m.group(1)
            f = self.prog.consts.get(key)
            if f is None:
                raise Unsupported('promoted %s' % key)
            ck = key
        else:
            ck = name
            f = self.prog.consts.get(name)
            if f is None:
                last = name.rsplit('::', 1)[-1]
                cands = [x for x in self.prog.by_last.get(last, []) if x.kind in ('const', 'static')]
                if len(cands) > 1:
                    # disambiguate by module prefix / suffix match
                    st = [x for x in cands if x.name.endswith(name) or name.endswith(x.name)]
                    if st:
                        cands = st
                if len(cands) > 1:
                    mod = name.split('::')[0]
                    st = [x for x in cands if x.name.startswith(mod + '::')]
                    if st:
                        cands = st
                    else:
                        st = [x for x in cands if '::' not in x.name]
                        if st:
                            cands = st
                f = cands[0] if cands else None
        if f is None:
            return self.extern_const(name)
        if ck in self.const_cache:
            return copy_val(self.const_cache[ck])
        if f.simple_const is not None:
            v = self.eval_const(fr, mp.parse_operand(f.simple_const)[1]) if f.simple_const.startswith('const ') \
                else None
            if v is None:
                raise Unsupported('const init %r' % f.simple_const)
        else:
            v = self.run_body(f, [])
        self.const_cache[ck] = v
        return copy_val(v)

    def extern_const(self, name):
        h = self.lib.get('const:' + name) or self.lib.get('const:' + name.rsplit('::', 1)[-1])
        if h is not None:
            return h(self)
        g = getattr(self, 'x_generics', None)
        if g and name in g:
            return g[name]
        mm = re.match(r'^(?:core::|std::)?(?:num::)?(?:<impl )?([ui](?:8|16|32|64|128|size)|char)>?::(MIN|MAX|BITS)$', name)
        if mm:
            ty = mm.group(1)
            bits = BITS[ty]
            if mm.group(2) == 'BITS':
                return Int('u32', bits)
            if ty in SIGNED:
                return Int(ty, -(1 << (bits - 1)) if mm.group(2) == 'MIN' else (1 << (bits - 1)) - 1)
            return Int(ty, 0 if mm.group(2) == 'MIN' else (0x10FFFF if ty == 'char' else (1 << bits) - 1))
        if name.startswith('ZeroSized: '):
            ty = name[11:].strip()
            if ty.startswith('{closure@'):
                return Closure(ty, [])
            mm = re.search(r'\{([^{}]*)\}$', ty)
            if ty.startswith(('fn(', 'for<', 'unsafe fn(')) and mm:
                return FnItem(mm.group(1))
            return Adt(type_base(ty), None, [])
        # enum variant / unit struct constants and function items
        c = parse_callee(name)
        if c.method and c.method[0].isupper() and c.self_base in self.enums and c.method in self.enums[c.self_base]:
            return Adt(c.self_base, c.method, [])
        if c.method and c.self_base in ENUM_VALUES and c.method in ENUM_VALUES[c.self_base]:
            return Adt(c.self_base, c.method, [])
        if c.method and (c.method[0].islower() or c.method[0] == '_' or c.method.startswith('{')) or name.startswith('<'):
            return FnItem(name)
        if c.method and c.method[0].isupper():
            return Adt(c.method, None, [])
        raise Unsupported('extern const %s' % name)

    # ------------------------------------------------------------ operands / rvalues
    def operand(self, fr, op):
        k = op[0]
        if k == 'const':
            return self.eval_const(fr, op[1])
        p = self.place_ptr(fr, op[1])
        if p.meta is not None:
            raise Unsupported('operand of unsized place')
        v = self.load(p)
        if v is None:
            raise Unsupported('read of uninitialised %r in %s' % (op[1], fr.fn.name))
        return copy_val(v)

    def adt_from_path(self, path, fields, named):
        c = parse_callee(path)
        vals = [v for _, v in fields]
        fnames = [n for n, _ in fields] if named else None
        if len(c.segs) >= 2 and c.segs[-2] in self.enums and c.segs[-1] in self.enums[c.segs[-2]]:
            return Adt(c.segs[-2], c.segs[-1], vals, fnames)
        if len(c.segs) >= 2 and c.segs[-2] in ENUM_VALUES and c.segs[-1] in ENUM_VALUES[c.segs[-2]]:
            return Adt(c.segs[-2], c.segs[-1], vals, fnames)
        if len(c.segs) >= 2 and c.segs[-2].endswith('BuilderError') and c.segs[-1] in ('UninitializedField', 'ValidationError'):
            return Adt(c.segs[-2], c.segs[-1], vals, fnames)
        return Adt(c.segs[-1], None, vals, fnames)

    def discr_of(self, v):
        if isinstance(v, Coroutine):
            return Int('u32', v.state)
        if isinstance(v, Adt):
            if v.name in ENUM_VALUES:
                return Int('isize', ENUM_VALUES[v.name][v.variant])
            if v.name.endswith('BuilderError'):
                return Int('isize', ['UninitializedField', 'ValidationError'].index(v.variant))
            if v.variant is None:
                return Int('isize', 0)
            tbl = self.enums.get(v.name)
            if tbl is None:
                raise Unsupported('discriminant of unknown enum %s' % v.name)
            return Int('isize', tbl.index(v.variant))
        if hasattr(v, 'discriminant'):
            return Int('isize', v.discriminant())
        raise Unsupported('discriminant of %s' % type(v).__name__)

    def rvalue(self, fr, rv, dest_ty=None):
        k = rv[0]
        if k == 'use':
            return self.operand(fr, rv[1])
        if k == 'static_ref':
            return Ptr(self.static_cell(rv[1]), (), None, True)
        if k == 'ref':
            p = self.place_ptr(fr, rv[2])
            if rv[1] in ('mut', 'rawmut') and not p.mut:
                p = Ptr(p.root, p.path, p.meta, True)
            return p
        if k == 'binop':
            return self.binop(rv[1], self.operand(fr, rv[2]), self.operand(fr, rv[3]))
        if k == 'unop':
            return self.unop(rv[1], self.operand(fr, rv[2]))
        if k == 'discriminant':
            return self.discr_of(self.load(self.place_ptr(fr, rv[1])))
        if k == 'cast':
            return self.cast(rv[1], self.operand(fr, rv[2]), rv[3])
        if k == 'tuple':
            return Tuple([self.operand(fr, o) for o in rv[1]])
        if k == 'array':
            return Array([self.operand(fr, o) for o in rv[1]])
        if k == 'repeat':
            v = self.operand(fr, rv[1])
            n = self.count_of(fr, rv[2])
            return Array([copy_val(v) for _ in range(n)])
        if k == 'adt':
            fields = [(n, self.operand(fr, o)) for n, o in rv[2]]
            return self.adt_from_path(rv[1], fields, rv[3])
        if k == 'closure':
            vals = [self.operand(fr, o) for _, o in rv[2]]
            if rv[1].startswith('{coroutine@'):
                return Coroutine(self.coroutine_body(fr.fn), vals)
            return Closure(rv[1], vals)
        if k == 'len':
            p = self.place_ptr(fr, rv[1])
            if p.meta is not None:
                return usize(p.meta[2])
            return usize(len(self.load(p).elems))
        if k == 'shallow_box':
            return BoxObj(None)
        raise Unsupported('rvalue %r' % (k,))

    def count_of(self, fr, s):
        s = s.strip()
        m = re.match(r'^(\d+)(_usize)?$', s)
        if m:
            return int(m.group(1))
        if s.startswith('const '):
            s = s[6:]
        v = self.named_const(fr, s)
        return v.v

    def coroutine_body(self, fn):
        cands = [f for f in self.prog.fns if f.name.startswith(fn.name + '::{closure#')
                 and f.params and f.params[0][1].startswith('Pin<&mut {async')]
        if not cands:
            raise Unsupported('coroutine body for %s' % fn.name)
        return cands[0]

    # ---- arithmetic
    def binop(self, op, a, b):
        if op in ('Eq', 'Ne') and not isinstance(a, Int):
            if isinstance(a, (bool, z3.BoolRef)):
                if isinstance(a, bool) and isinstance(b, bool):
                    r = a == b
                else:
                    r = zb(a) == zb(b)
                return r if op == 'Eq' else znot(r)
            if isinstance(a, Tuple) and not a.fields:
                return op == 'Eq'
            raise Unsupported('binop %s on %s' % (op, type(a).__name__))
        if isinstance(a, (bool, z3.BoolRef)):
            if op == 'BitAnd':
                return zand(a, b)
            if op == 'BitOr':
                return zor(a, b)
            if op == 'BitXor':
                return znot(zb(a) == zb(b)) if (is_sym(a) or is_sym(b)) else (a != b)
            if op in ('Lt', 'Le', 'Gt', 'Ge'):
                ai, bi = self.cast('IntToInt', a, 'u8'), self.cast('IntToInt', b, 'u8')
                return self.binop(op, ai, bi)
            raise Unsupported('bool binop %s' % op)
        if not isinstance(a, Int) or not isinstance(b, Int):
            raise Unsupported('binop %s on %s,%s' % (op, type(a).__name__, type(b).__name__))
        ty = a.ty
        bits = BITS[ty]
        signed = ty in SIGNED
        conc = not a.sym and not b.sym
        if op in ('Add', 'Sub', 'Mul', 'AddUnchecked', 'SubUnchecked', 'MulUnchecked'):
            o = op[:3]
            if conc:
                r = a.v + b.v if o == 'Add' else a.v - b.v if o == 'Sub' else a.v * b.v
                return Int(ty, r)
            x, y = a.z(), b.z()
            return Int(ty, x + y if o == 'Add' else x - y if o == 'Sub' else x * y)
        if op in ('AddWithOverflow', 'SubWithOverflow', 'MulWithOverflow'):
            o = op[:3]
            if conc:
                r = a.v + b.v if o == 'Add' else a.v - b.v if o == 'Sub' else a.v * b.v
                w = wrap(ty, r)
                return Tuple([Int(ty, w), w != r])
            x, y = a.z(), b.z()
            # interval reasoning: discharge the overflow flag without the solver when ranges are small
            ra, rb = srange(a), srange(b)
            if ra is not None and rb is not None:
                if o == 'Add':
                    lo, hi = ra[0] + rb[0], ra[1] + rb[1]
                elif o == 'Sub':
                    lo, hi = ra[0] - rb[1], ra[1] - rb[0]
                else:
                    ps = [ra[0] * rb[0], ra[0] * rb[1], ra[1] * rb[0], ra[1] * rb[1]]
                    lo, hi = min(ps), max(ps)
                tlo, thi = (-(1 << (bits - 1)), (1 << (bits - 1)) - 1) if signed else (0, (1 << bits) - 1)
                if tlo <= lo and hi <= thi:
                    res = x + y if o == 'Add' else x - y if o == 'Sub' else x * y
                    return Tuple([Int(ty, z3.simplify(res)), False])
            if o == 'Mul':
                ext = bits
            else:
                ext = 1
            if signed:
                xe, ye = z3.SignExt(ext, x), z3.SignExt(ext, y)
            else:
                xe, ye = z3.ZeroExt(ext, x), z3.ZeroExt(ext, y)
            re_ = xe + ye if o == 'Add' else xe - ye if o == 'Sub' else xe * ye
            res = z3.Extract(bits - 1, 0, re_)
            if signed:
                ov = z3.SignExt(ext, res) != re_
            else:
                ov = z3.ZeroExt(ext, res) != re_
            return Tuple([Int(ty, z3.simplify(res)), z3.simplify(ov)])
        if op in ('Div', 'Rem'):
            if conc:
                if b.v == 0:
                    raise Panic('attempt to divide by zero')
                q = abs(a.v) // abs(b.v)
                if (a.v < 0) != (b.v < 0):
                    q = -q
                return Int(ty, q if op == 'Div' else a.v - q * b.v)
            x, y = a.z(), b.z()
            if signed:
                return Int(ty, x / y if op == 'Div' else z3.SRem(x, y))
            return Int(ty, z3.UDiv(x, y) if op == 'Div' else z3.URem(x, y))
        if op in ('BitAnd', 'BitOr', 'BitXor'):
            if conc:
                ua, ub = a.v & ((1 << bits) - 1), b.v & ((1 << bits) - 1)
                r = ua & ub if op == 'BitAnd' else ua | ub if op == 'BitOr' else ua ^ ub
                return Int(ty, r)
            x, y = a.z(), b.z()
            return Int(ty, z3.simplify(x & y if op == 'BitAnd' else x | y if op == 'BitOr' else x ^ y))
        if op in ('Shl', 'Shr', 'ShlUnchecked', 'ShrUnchecked'):
            o = op[:3]
            if b.sym:
                raise Unsupported('symbolic shift amount')
            sh = b.v & (bits - 1)
            if conc:
                if o == 'Shl':
                    return Int(ty, a.v << sh)
                return Int(ty, a.v >> sh if signed else (a.v & ((1 << bits) - 1)) >> sh)
            x = a.z()
            if o == 'Shl':
                return Int(ty, z3.simplify(x << sh))
            return Int(ty, z3.simplify(x >> sh if signed else z3.LShR(x, sh)))
        if op in ('Eq', 'Ne', 'Lt', 'Le', 'Gt', 'Ge'):
            if conc:
                return {'Eq': a.v == b.v, 'Ne': a.v != b.v, 'Lt': a.v < b.v, 'Le': a.v <= b.v,
                        'Gt': a.v > b.v, 'Ge': a.v >= b.v}[op]
            x, y = a.z(), b.z()
            if op == 'Eq':
                return x == y
            if op == 'Ne':
                return x != y
            if signed:
                return {'Lt': x < y, 'Le': x <= y, 'Gt': x > y, 'Ge': x >= y}[op]
            return {'Lt': z3.ULT(x, y), 'Le': z3.ULE(x, y), 'Gt': z3.UGT(x, y), 'Ge': z3.UGE(x, y)}[op]
        if op == 'Cmp':
            lt = self.binop('Lt', a, b)
            eq = self.binop('Eq', a, b)
            if self.ctx.branch(lt):
                return Adt('Ordering', 'Less', [])
            if self.ctx.branch(eq):
                return Adt('Ordering', 'Equal', [])
            return Adt('Ordering', 'Greater', [])
        raise Unsupported('binop %s' % op)

    def unop(self, op, a):
        if op == 'Not':
            if isinstance(a, bool):
                return not a
            if isinstance(a, z3.BoolRef):
                return z3.Not(a)
            if isinstance(a, Int):
                return Int(a.ty, ~a.v if not a.sym else ~a.v)
        if op == 'Neg':
            return Int(a.ty, -a.v)
        if op == 'PtrMetadata':
            if isinstance(a, Ptr):
                if a.meta is not None:
                    return usize(a.meta[2])
                return unit()
        raise Unsupported('unop %s on %r' % (op, a))

    def cast(self, kind, v, ty):
        ty = ty.strip()
        if kind == 'IntToInt':
            if isinstance(v, (bool, z3.BoolRef)):
                if isinstance(v, bool):
                    return Int(ty, int(v))
                return Int(ty, z3.If(v, z3.BitVecVal(1, BITS[ty]), z3.BitVecVal(0, BITS[ty])))
            if isinstance(v, Adt):
                v = self.discr_of(v)
            if ty not in BITS:
                raise Unsupported('cast to %s' % ty)
            if not v.sym:
                return Int(ty, v.v)
            fb, tb = BITS[v.ty], BITS[ty]
            x = v.v
            if tb < fb:
                x = z3.Extract(tb - 1, 0, x)
            elif tb > fb:
                x = z3.SignExt(tb - fb, x) if v.ty in SIGNED else z3.ZeroExt(tb - fb, x)
            return Int(ty, z3.simplify(x))
        if kind.startswith('PointerCoercion(Unsize'):
            # &[T; N] -> &[T]   |  &T -> &dyn Trait  |  Box<T> -> Box<dyn Trait>
            tb = _strip_refs(ty)
            if isinstance(v, Ptr) and v.meta is None and tb.startswith('['):
                arr = self.load(v)
                if isinstance(arr, (Array, VecObj, Buf)):
                    return Ptr(v.root, v.path, ('slice', 0, len(arr.elems)), v.mut)
            return v
        if kind.startswith('PointerCoercion(') or kind in ('PtrToPtr', 'Transmute', 'PointerExposeProvenance'):
            if kind.startswith('PointerCoercion(ReifyFnPointer') or kind.startswith('PointerCoercion(ClosureFnPointer') \
                    or kind.startswith('PointerCoercion(MutToConstPointer') or kind.startswith('PointerCoercion(UnsafeFnPointer'):
                return v
            if kind == 'PtrToPtr':
                return v
            if kind == 'Transmute' and isinstance(v, BoxObj) and ty.startswith(('*const ', '*mut ', '&')):
                # Box<T> internals (Unique<T>/NonNull<T>) reinterpreted as a raw pointer to the boxed value
                return Ptr(v.cell, ())
            if kind == 'Transmute':
                # same-layout reference transmutes (e.g. &[u8] <-> &str)
                if isinstance(v, Ptr):
                    tb = _strip_refs(ty)
                    if v.meta is not None and tb == 'str':
                        return Ptr(v.root, v.path, ('str', v.meta[1], v.meta[2]), v.mut)
                    if v.meta is not None and tb.startswith('['):
                        return Ptr(v.root, v.path, ('slice', v.meta[1], v.meta[2]), v.mut)
                    return v
                if isinstance(v, Int) and ty in BITS and BITS[ty] == BITS[v.ty]:
                    return Int(ty, v.v)
            raise Unsupported('cast %s to %s' % (kind, ty))
        raise Unsupported('cast kind %s' % kind)

    # ------------------------------------------------------------ execution
    def run_body(self, fn, args):
        fr = Frame(fn)
        for (i, _), a in zip(fn.params, args):
            fr.cells[i] = Cell(a)
        if len(args) != len(fn.params):
            raise Unsupported('arity mismatch calling %s: %d vs %d' % (fn.name, len(args), len(fn.params)))
        self.fns_executed.add(fn.name)
        bb = 0
        blocks = fn.blocks
        while True:
            blk = blocks[bb]
            if blk.pstmts is None:
                blk.pstmts = [mp.parse_stmt(s) for s in blk.stmts]
                blk.pterm = mp.parse_term(blk.term)
            if self.trace is not None:
                self.trace.append((fn.name, bb))
            self.steps += len(blk.pstmts) + 1
            if self.steps > self.max_steps:
                raise Unsupported('step limit exceeded')
            for st in blk.pstmts:
                k = st[0]
                if k == 'assign':
                    v = self.rvalue(fr, st[2])
                    pl = st[1]
                    if not pl.proj:
                        c = fr.cells.get(pl.local)
                        if c is None:
                            fr.cells[pl.local] = Cell(v)
                        else:
                            c.v = v
                    else:
                        self.store(self.place_ptr(fr, pl), v)
                elif k == 'setdiscr':
                    p = self.place_ptr(fr, st[1])
                    obj = self.load(p)
                    if isinstance(obj, Coroutine):
                        obj.state = st[2]
                    elif isinstance(obj, Adt) and obj.name in self.enums:
                        obj.variant = self.enums[obj.name][st[2]]
                    else:
                        raise Unsupported('SetDiscriminant on %r' % (obj,))
            t = blk.pterm
            k = t[0]
            if k == 'goto':
                bb = t[1]
            elif k == 'return':
                c = fr.cells.get(0)
                return c.v if c is not None else unit()
            elif k == 'switch':
                v = self.operand(fr, t[1])
                bb = self.switch(v, t[2], t[3])
            elif k == 'call':
                args_v = [self.operand(fr, a) for a in t[3]]
                dest = t[1]
                dty = fn.locals.get(dest.local) if not dest.proj else (dest.proj[-1][2] if dest.proj[-1][0] == 'field' else None)
                r = self.call(t[2], args_v, dty, fr)
                if t[4] is None:
                    raise Unsupported('diverging call %s returned' % t[2])
                if not dest.proj:
                    c = fr.cells.get(dest.local)
                    if c is None:
                        fr.cells[dest.local] = Cell(r)
                    else:
                        c.v = r
                else:
                    self.store(self.place_ptr(fr, dest), r)
                bb = t[4]
            elif k == 'assert':
                _, neg, cop, msg, margs, succ = t
                c = self.operand(fr, cop)
                if neg:
                    c = znot(c)
                if not self.ctx.branch(c):
                    raise Panic('assertion failed: %s' % msg.strip('"'), '%s bb%d' % (fn.name, bb))
                bb = succ
            elif k == 'drop':
                bb = t[2]
                if bb is None:
                    raise Unsupported('drop without return target')
            elif k == 'unreachable':
                raise Unsupported('reached `unreachable` in %s bb%d' % (fn.name, bb))
            elif k == 'resume':
                raise Unsupported('resume')
            else:
                raise Unsupported('terminator %r' % (k,))

    def switch(self, v, cases, other):
        if isinstance(v, (bool, z3.BoolRef)):
            # cases over 0/1
            for cv, tb in cases:
                cond = znot(v) if cv == 0 else v
                if self.ctx.branch(cond):
                    return tb
            if other is None:
                raise Unsupported('switch fallthrough')
            return other
        if not isinstance(v, Int):
            raise Unsupported('switch on %r' % (v,))
        if not v.sym:
            for cv, tb in cases:
                if wrap(v.ty, cv) == v.v:
                    return tb
            return other
        bits = BITS[v.ty]
        for cv, tb in cases:
            if self.ctx.branch(v.v == z3.BitVecVal(cv, bits)):
                return tb
        return other

    # ------------------------------------------------------------ calls
    def call(self, callee, args, ret_ty, fr=None):
        c = parse_callee(callee)
        fn = self.resolve_local(c, args)
        if fn is not None:
            return self.call_fn(fn, args)
        return self.call_lib(c, args, ret_ty, fr)

    def call_fn(self, fn, args):
        if self.merge_scalar and getattr(fn, 'mergeable', None) is None:
            fn.mergeable = _is_scalar_sig(fn)
        if self.merge_scalar and fn.mergeable and any(_has_sym(a) for a in args) and not isinstance(self.ctx, MergeCtx):
            r = self.merged_call(fn, args)
            if r is not None:
                return r
        return self.run_body(fn, args)

    def merged_call(self, fn, args):
        """Pure scalar function: explore it once on fresh symbols (empty path condition), keep the
        if-then-else term as a template, and instantiate it by substitution at every call."""
        tmpl = getattr(fn, 'template', None)
        if tmpl is None:
            tmpl = fn.template = self._build_template(fn, args)
        if tmpl is False:
            return None
        formals, res = tmpl
        subs = []
        for f, a in zip(formals, _flatten(args)):
            subs.append((f, a.z() if isinstance(a, Int) else zb(a)))
        self.ctx._stat('merged_calls')
        return _subst_val(res, subs)

    def _build_template(self, fn, args):
        outer = self.ctx
        tctx = Ctx()
        formals = []
        targs = []
        for k, a in enumerate(args):
            targs.append(_fresh_like(a, 'tmpl_%s_%d' % (fn.name.rsplit('::', 1)[-1], k), formals))
        results = []
        stack = [[]]
        try:
            while stack:
                pre = stack.pop()
                sub = MergeCtx(tctx, pre)
                self.ctx = sub
                tctx.solver.push()
                try:
                    v = self.run_body(fn, [copy_val(a) for a in targs])
                except Infeasible:
                    continue
                except (Panic, Unsupported):
                    return False
                finally:
                    tctx.solver.pop()
                results.append((sub.conds, v))
                stack.extend(sub.siblings)
        finally:
            self.ctx = outer
        if not results:
            return False
        res = results[-1][1]
        for conds, v in reversed(results[:-1]):
            c = z3.And(*conds) if conds else True
            try:
                res = self.ite(c, v, res)
            except Unsupported:
                return False
        return formals, res

    def call_lib(self, c, args, ret_ty, fr):
        h = None
        keys = []
        if c.self_base and c.trait_base:
            keys.append('%s as %s::%s' % (c.self_base, c.trait_base, c.method))
        if c.self_base:
            keys.append('%s::%s' % (c.self_base, c.method))
        if c.trait_base:
            keys.append('%s::%s' % (c.trait_base, c.method))
        if len(c.segs) >= 2:
            keys.append('::'.join(c.segs[-2:]))
        keys.append(c.method)
        for k in keys:
            h = self.lib.get(k)
            if h is not None:
                break
        if h is None:
            raise Unsupported('no summary for %s  (keys %r)' % (c.raw, keys))
        self.summaries_used.add(k)
        return h(self, args, c, ret_ty)

    def call_value(self, f, args):
        """Call a closure / fn item value with positional args."""
        if isinstance(f, Ptr):
            f = self.load(f)
        if isinstance(f, FnItem):
            return self.call(f.path, args, None)
        if isinstance(f, Closure):
            fn = self.closure_defs.get(f.path)
            if fn is None:
                raise Unsupported('closure body %s' % f.path)
            # closures take (&self | &mut self | self, arg...) ; MIR passes args as separate params
            first = fn.params[0][1]
            selfarg = f if not first.startswith('&') else Ptr(Cell(f), ())
            return self.run_body(fn, [selfarg] + list(args))
        if hasattr(f, 'py_call'):
            return f.py_call(self, args)
        raise Unsupported('call of %r' % (f,))


def _flatten(args):
    out = []
    for a in args:
        if isinstance(a, (Array,)):
            out.extend(_flatten(a.elems))
        elif isinstance(a, Tuple):
            out.extend(_flatten(a.fields))
        else:
            out.append(a)
    return out


def _fresh_like(a, name, formals):
    if isinstance(a, Int):
        v = z3.BitVec('%s_%d' % (name, len(formals)), BITS[a.ty])
        formals.append(v)
        return Int(a.ty, v)
    if isinstance(a, (bool, z3.BoolRef)):
        v = z3.Bool('%s_%d' % (name, len(formals)))
        formals.append(v)
        return v
    if isinstance(a, Array):
        return Array([_fresh_like(e, name, formals) for e in a.elems])
    if isinstance(a, Tuple):
        return Tuple([_fresh_like(e, name, formals) for e in a.fields])
    raise Unsupported('template argument %r' % (a,))


def _subst_val(v, subs):
    if isinstance(v, Int):
        if not v.sym:
            return v
        return Int(v.ty, z3.simplify(z3.substitute(v.v, *subs)))
    if isinstance(v, bool):
        return v
    if isinstance(v, z3.BoolRef):
        return z3.simplify(z3.substitute(v, *subs))
    if isinstance(v, Array):
        return Array([_subst_val(e, subs) for e in v.elems])
    if isinstance(v, Tuple):
        return Tuple([_subst_val(e, subs) for e in v.fields])
    raise Unsupported('template result %r' % (v,))


_URANGE_CACHE = {}


def urange(e, depth=0):
    """Conservative unsigned interval (lo, hi) of a bit-vector term."""
    k = e.get_id()
    hit = _URANGE_CACHE.get(k)
    if hit is not None and hit[0].eq(e):
        return hit[1]
    full = (1 << e.size()) - 1
    r = _urange(e, depth) if depth <= 40 else None
    if r is None or r[1] > full:
        r = (0, full)
    if len(_URANGE_CACHE) > 50000:
        _URANGE_CACHE.clear()
    _URANGE_CACHE[k] = (e, r)        # the term is kept alive so that its id cannot be reused
    return r


def _urange(e, depth):
    bits = e.size()
    full = (1 << bits) - 1
    if z3.is_bv_value(e):
        v = e.as_long()
        return (v, v)
    if not z3.is_app(e):
        return None
    kind = e.decl().kind()
    ch = e.children()
    if kind == z3.Z3_OP_ZERO_EXT:
        return urange(ch[0], depth + 1)
    if kind == z3.Z3_OP_CONCAT:
        if len(ch) == 2 and z3.is_bv_value(ch[0]) and ch[0].as_long() == 0:
            return urange(ch[1], depth + 1)
        return None
    if kind == z3.Z3_OP_EXTRACT:
        hi_bit, lo_bit = e.params()
        if lo_bit == 0:
            r = urange(ch[0], depth + 1)
            if r[1] < (1 << (hi_bit + 1)):
                return r
        return None
    if kind == z3.Z3_OP_BADD:
        rs = [urange(c, depth + 1) for c in ch]
        lo, hi = sum(r[0] for r in rs), sum(r[1] for r in rs)
        if hi <= full:
            return (lo, hi)
        # x + (2^n - k) == x - k when x >= k
        consts = [c for c in ch if z3.is_bv_value(c)]
        others = [c for c in ch if not z3.is_bv_value(c)]
        if len(consts) == 1 and others:
            kk = (1 << bits) - consts[0].as_long()
            ro = [urange(c, depth + 1) for c in others]
            lo, hi = sum(r[0] for r in ro), sum(r[1] for r in ro)
            if lo >= kk and hi <= full:
                return (lo - kk, hi - kk)
        return None
    if kind == z3.Z3_OP_BMUL:
        lo = hi = 1
        for c in ch:
            r = urange(c, depth + 1)
            lo *= r[0]
            hi *= r[1]
        return (lo, hi) if hi <= full else None
    if kind == z3.Z3_OP_ITE:
        a, b = urange(ch[1], depth + 1), urange(ch[2], depth + 1)
        return (min(a[0], b[0]), max(a[1], b[1]))
    if kind == z3.Z3_OP_BAND:
        return (0, min(urange(c, depth + 1)[1] for c in ch))
    if kind in (z3.Z3_OP_BUDIV, z3.Z3_OP_BUDIV_I):
        a, b = urange(ch[0], depth + 1), urange(ch[1], depth + 1)
        if b[0] > 0:
            return (a[0] // b[1], a[1] // b[0])
        return None
    if kind in (z3.Z3_OP_BUREM, z3.Z3_OP_BUREM_I):
        b = urange(ch[1], depth + 1)
        if b[0] > 0:
            return (0, b[1] - 1)
        return None
    if kind == z3.Z3_OP_BLSHR and z3.is_bv_value(ch[1]):
        a = urange(ch[0], depth + 1)
        sh = ch[1].as_long()
        return (a[0] >> sh, a[1] >> sh)
    return None


def srange(iv):
    """Signed mathematical interval of an Int value, or None."""
    if not iv.sym:
        return (iv.v, iv.v)
    r = urange(iv.v)
    bits = BITS[iv.ty]
    if iv.ty in SIGNED and r[1] >= (1 << (bits - 1)):
        return None
    return r


def _is_scalar_ty(t):
    t = t.strip()
    if t in BITS or t == 'bool':
        return True
    m = re.match(r'^\[(\w+); (\d+)\]$', t)
    if m and (m.group(1) in BITS or m.group(1) == 'bool'):
        return True
    return False


def _is_scalar_sig(fn):
    if not fn.params:
        return False
    return all(_is_scalar_ty(t) for _, t in fn.params) and _is_scalar_ty(fn.ret_ty)


def _has_sym(v):
    if isinstance(v, Int):
        return v.sym
    if isinstance(v, z3.ExprRef):
        return True
    if isinstance(v, Array):
        return any(_has_sym(e) for e in v.elems)
    if isinstance(v, Tuple):
        return any(_has_sym(e) for e in v.fields)
    return False


# ---- z3 boolean helpers tolerant of Python bools

def zb(x):
    return z3.BoolVal(x) if isinstance(x, bool) else x


def znot(x):
    if isinstance(x, bool):
        return not x
    return z3.Not(x)


def zand(*xs):
    ys = []
    for x in xs:
        if x is False:
            return False
        if x is True:
            continue
        ys.append(x)
    if not ys:
        return True
    return z3.And(*ys) if len(ys) > 1 else ys[0]


def zor(*xs):
    ys = []
    for x in xs:
        if x is True:
            return True
        if x is False:
            continue
        ys.append(x)
    if not ys:
        return False
    return z3.Or(*ys) if len(ys) > 1 else ys[0]
