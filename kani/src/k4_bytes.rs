//! K4 — byte kernels of `/repo/src/canonical.rs`, exhaustive.

use scratchstack_aws_signature::canonical::{
    is_rfc3986_unreserved, trim_ascii, trim_ascii_end, trim_ascii_start, u8_to_upper_hex,
};

/// All 256 byte values: `is_rfc3986_unreserved(c)` iff `c` is `[A-Za-z0-9]` or one of `- . _ ~`.
/// Loop-free, hence unwind 1 (any loop would trip the unwinding assertion).
#[kani::proof]
#[kani::unwind(1)]
fn k4_unreserved() {
    let c: u8 = kani::any();
    let expected = (c >= 0x41 && c <= 0x5A) // A-Z
        || (c >= 0x61 && c <= 0x7A)         // a-z
        || (c >= 0x30 && c <= 0x39)         // 0-9
        || c == 0x2D                        // -
        || c == 0x2E                        // .
        || c == 0x5F                        // _
        || c == 0x7E; // ~
    let got = is_rfc3986_unreserved(c);
    assert!(got == expected, "k4: is_rfc3986_unreserved differs from RFC 3986 section 2.3");

    kani::cover!(got, "k4: an unreserved byte");
    kani::cover!(!got, "k4: a reserved byte");
    kani::cover!(got && c == b'~', "k4: tilde is unreserved");
    kani::cover!(!got && c >= 0x80, "k4: non-ASCII byte is reserved");
}

fn upper_hex_digit(n: u8) -> u8 {
    if n < 10 {
        0x30 + n
    } else {
        0x41 + (n - 10)
    }
}

/// All 256 byte values: `u8_to_upper_hex(b)` is `[hex(b / 16), hex(b % 16)]`, upper case.
/// Loop-free, unwind 1.
#[kani::proof]
#[kani::unwind(1)]
fn k4_upper_hex() {
    let b: u8 = kani::any();
    let got = u8_to_upper_hex(b);
    assert!(got[0] == upper_hex_digit(b >> 4), "k4: high nibble digit wrong");
    assert!(got[1] == upper_hex_digit(b & 0x0F), "k4: low nibble digit wrong");

    kani::cover!(b == 0xFF && got[0] == b'F' && got[1] == b'F', "k4: 0xFF -> FF");
    kani::cover!(b == 0x0A && got[0] == b'0' && got[1] == b'A', "k4: 0x0A -> 0A");
    kani::cover!(b == 0x90 && got[0] == b'9' && got[1] == b'0', "k4: 0x90 -> 90");
}

/// `u8::is_ascii_whitespace`: space, tab, LF, FF, CR (not VT 0x0B).
fn is_ws(c: u8) -> bool {
    c == 0x20 || c == 0x09 || c == 0x0A || c == 0x0C || c == 0x0D
}

/// Symbolic 6-byte buffer, symbolic `len <= 6`:
///
/// * `trim_ascii_start(x)` is `x[start..]` where `start` is the index of the first
///   non-whitespace byte (or `len`);
/// * `trim_ascii_end(x)` is `x[..end0]` where `end0` is one past the last non-whitespace byte
///   (or 0);
/// * `trim_ascii(x)` is `x[start..max(start, end0)]` and equals
///   `trim_ascii_end(trim_ascii_start(x))`;
///
/// all compared by pointer and length (so "sub-slice of the input" is part of the claim).
///
/// Unwind: the trimming loops and the two specification loops run at most 6 times each,
/// `kani::any::<[u8; 6]>()` 6 times: `unwind = 6 + 1`.
#[kani::proof]
#[kani::unwind(7)]
fn k4_trim_ascii() {
    let buf: [u8; 6] = kani::any();
    let len: usize = kani::any();
    kani::assume(len <= 6);
    let x: &[u8] = &buf[..len];
    let base = x.as_ptr();

    // specification: first non-whitespace index, one-past-last non-whitespace index
    let mut start = len;
    let mut i = 0;
    while i < len {
        if !is_ws(x[i]) && start == len {
            start = i;
        }
        i += 1;
    }
    let mut end0 = 0;
    let mut j = 0;
    while j < len {
        if !is_ws(x[j]) {
            end0 = j + 1;
        }
        j += 1;
    }
    let end = if end0 < start { start } else { end0 };

    let s = trim_ascii_start(x);
    assert!(s.as_ptr() == base.wrapping_add(start), "k4: trim_ascii_start pointer");
    assert!(s.len() == len - start, "k4: trim_ascii_start length");

    let e = trim_ascii_end(x);
    assert!(e.as_ptr() == base, "k4: trim_ascii_end pointer");
    assert!(e.len() == end0, "k4: trim_ascii_end length");

    let t = trim_ascii(x);
    assert!(t.as_ptr() == base.wrapping_add(start), "k4: trim_ascii pointer");
    assert!(t.len() == end - start, "k4: trim_ascii length");

    let c = trim_ascii_end(trim_ascii_start(x));
    assert!(c.as_ptr() == t.as_ptr() && c.len() == t.len(), "k4: trim_ascii is end(start(x))");

    // consequences, stated directly
    if t.len() > 0 {
        assert!(!is_ws(t[0]) && !is_ws(t[t.len() - 1]), "k4: trimmed slice starts/ends with non-whitespace");
    }

    kani::cover!(len == 6 && start == 2 && end == 4, "k4: two bytes trimmed on both sides");
    kani::cover!(len == 6 && start == 6, "k4: all whitespace");
    kani::cover!(len == 6 && t.len() == 6, "k4: nothing to trim");
    kani::cover!(len == 0, "k4: empty input");
    kani::cover!(t.len() == 3 && is_ws(t[1]), "k4: inner whitespace preserved");
    kani::cover!(len > 0 && x[0] == 0x0B && t.len() == len, "k4: vertical tab is not whitespace");
}
